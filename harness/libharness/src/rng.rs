//! splitmix64: every random choice of a run derives from one state (VERIF_SEED)
pub struct Rng(pub u64);
impl Rng {
    pub fn new(seed: u64) -> Self {
        Rng(seed.wrapping_mul(0x9E3779B97F4A7C15).wrapping_add(0x1234_5678_9ABC_DEF1))
    }
    pub fn next(&mut self) -> u64 {
        self.0 = self.0.wrapping_add(0x9E3779B97F4A7C15);
        let mut z = self.0;
        z = (z ^ (z >> 30)).wrapping_mul(0xBF58476D1CE4E5B9);
        z = (z ^ (z >> 27)).wrapping_mul(0x94D049BB133111EB);
        z ^ (z >> 31)
    }
    pub fn below(&mut self, n: u64) -> u64 {
        if n == 0 {
            0
        } else {
            self.next() % n
        }
    }
    pub fn usize(&mut self, n: usize) -> usize {
        self.below(n as u64) as usize
    }
    pub fn range(&mut self, lo: usize, hi_incl: usize) -> usize {
        lo + self.usize(hi_incl - lo + 1)
    }
    pub fn bool(&mut self) -> bool {
        self.next() & 1 == 1
    }
    pub fn chance(&mut self, num: u64, den: u64) -> bool {
        self.below(den) < num
    }
}
