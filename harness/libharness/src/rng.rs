//! splitmix64: every random choice of a run derives from one state (VERIF_SEED)
pub struct Rng(pub u64);
impl Rng {
    pub fn new(seed: u64) -> Self {
        // the state must not be linear in the seed: splitmix64 advances by a constant, so
        // linearly related seeds would give shifted copies of one stream
        let mut z = seed ^ 0xD6E8_FEB8_6659_FD93;
        for _ in 0..2 {
            z = z.wrapping_add(0x9E3779B97F4A7C15);
            z = (z ^ (z >> 30)).wrapping_mul(0xBF58476D1CE4E5B9);
            z = (z ^ (z >> 27)).wrapping_mul(0x94D049BB133111EB);
            z ^= z >> 31;
        }
        Rng(z)
    }
    pub fn next(&mut self) -> u64 {
        self.0 = self.0.wrapping_add(0x9E3779B97F4A7C15);
        let mut z = self.0;
        z = (z ^ (z >> 30)).wrapping_mul(0xBF58476D1CE4E5B9);
        z = (z ^ (z >> 27)).wrapping_mul(0x94D049BB133111EB);
        z ^ (z >> 31)
    }
    pub fn below(&mut self, n: u64) -> u64 {
        if n == 0 {
            0
        } else {
            self.next() % n
        }
    }
    pub fn usize(&mut self, n: usize) -> usize {
        self.below(n as u64) as usize
    }
    pub fn range(&mut self, lo: usize, hi_incl: usize) -> usize {
        lo + self.usize(hi_incl - lo + 1)
    }
    pub fn bool(&mut self) -> bool {
        self.next() & 1 == 1
    }
    pub fn chance(&mut self, num: u64, den: u64) -> bool {
        self.below(den) < num
    }
}
