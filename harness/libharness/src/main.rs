//! Correspondence harness for ellmau/adf-obdd.
//!
//! `libharness gen <family> <seed> <cases> [size]`  prints request lines (one operation per line)
//! `libharness exec`                                reads request lines on stdin, runs the real
//!                                                  implementation and prints, per request, the
//!                                                  request line followed by the implementation's
//!                                                  answers: `= …` (compared with the algorithmic
//!                                                  Lean model) and `~ …` (compared with the
//!                                                  executable specification).
//! Lines starting with `#` are statistics for the runner and are ignored by the model driver.

mod rng;
mod fam_bdd;
mod fam_adf;
mod fam_ng;
mod fam_iter;
mod fam_parser;
mod fam_stream;
mod fam_persist;

use std::io::{BufRead, Write};

pub fn features() -> Vec<&'static str> {
    let mut v = Vec::new();
    if cfg!(feature = "adhoccounting") {
        v.push("adhoccounting");
    }
    if cfg!(feature = "adhoccountmodels") {
        v.push("adhoccountmodels");
    }
    if cfg!(feature = "variablelist") {
        v.push("variablelist");
    }
    if cfg!(feature = "frontend") {
        v.push("frontend");
    }
    v
}

static REQ_START: std::sync::atomic::AtomicU64 = std::sync::atomic::AtomicU64::new(0);

fn now_ms() -> u64 {
    std::time::SystemTime::now().duration_since(std::time::UNIX_EPOCH).map(|d| d.as_millis() as u64).unwrap_or(0)
}

pub struct Out {
    w: std::io::BufWriter<std::io::Stdout>,
}
impl Out {
    pub fn line(&mut self, s: &str) {
        let _ = writeln!(self.w, "{s}");
    }
    /// flush, so that a hang or abort inside the implementation leaves the request visible
    pub fn flush(&mut self) {
        let _ = self.w.flush();
    }
}

fn main() {
    let args: Vec<String> = std::env::args().collect();
    if args.len() < 2 {
        eprintln!("usage: libharness gen <family> <seed> <cases> [size] | exec");
        std::process::exit(2);
    }
    let mut out = Out {
        w: std::io::BufWriter::new(std::io::stdout()),
    };
    match args[1].as_str() {
        "features" => {
            out.line(&features().join(" "));
        }
        "gen" => {
            let family = args[2].as_str();
            let seed: u64 = args[3].parse().expect("seed");
            let cases: usize = args[4].parse().expect("cases");
            let size: usize = args.get(5).map(|s| s.parse().expect("size")).unwrap_or(0);
            let extra: Vec<String> = args.iter().skip(6).cloned().collect();
            let mut r = rng::Rng::new(seed);
            match family {
                "bdd" if extra.iter().any(|x| x == "exh") => {
                    // size = 10 * variables + length, e.g. 23: all sequences of 3 operations over 2 variables
                    if cases > 0 {
                        fam_bdd::gen_exh((size / 10).max(1), size % 10, &mut out)
                    }
                }
                "bdd" if extra.iter().any(|x| x == "deepcount") => {
                    // counts on deep diagrams: up to 64 levels the numbers fit a machine word
                    for case in 0..cases {
                        out.line(&format!("case bdddeep-{case}"));
                        out.line(&format!("qdeep {}", r.range(2, 64)));
                        out.line(&format!("qdeep {}", [62, 63, 64][r.usize(3)]));
                        if case == 0 {
                            // probes of the recorded finding D13 (beyond 64 levels the counts do not fit)
                            out.line("qdeep 65");
                            out.line("qdeep 70");
                        }
                    }
                }
                "bdd" if extra.iter().any(|x| x == "sparse") => fam_bdd::gen_sparse(&mut r, cases, &mut out),
                "bdd" if extra.iter().any(|x| x == "big") => fam_bdd::gen_big(&mut r, cases, size, &mut out),
                "bdd" => fam_bdd::gen(&mut r, cases, size, &mut out),
                "adf" => fam_adf::gen(&mut r, cases, size, &extra, &mut out),
                "ng" if extra.iter().any(|x| x == "exh") => {
                                        // size = 10 * variables + length, e.g. 23: sequences of <= 3 nogoods over 2 variables
                    let (n, len) = if size >= 10 { (size / 10, size % 10) } else { (2, 3) };
                    if cases > 0 {
                        fam_ng::gen_exh(n, len, &mut out)
                    }
                }
                "ng" if extra.iter().any(|x| x == "wide") => fam_ng::gen_wide(&mut r, cases, size, &mut out),
                "ng" => fam_ng::gen(&mut r, cases, size, &mut out),
                "iter" => fam_iter::gen(&mut r, cases, size, &mut out),
                "parser" => fam_parser::gen(&mut r, cases, size, &extra, &mut out),
                "stream" => fam_stream::gen(&mut r, cases, size, &mut out),
                "persist" => fam_persist::gen(&mut r, cases, size, &mut out),
                _ => {
                    eprintln!("unknown family {family}");
                    std::process::exit(2);
                }
            }
        }
        "exec" => {
            // suppress the default panic message; panics are reported as answers
            std::panic::set_hook(Box::new(|_| {}));
            // watchdog: a request that does not come back (non-termination is a failing input)
            // ends the process with status 124 after reporting `= hang`
            let limit: u64 = std::env::var("VERIF_REQ_TIMEOUT").ok().and_then(|x| x.parse().ok()).unwrap_or(60);
            std::thread::spawn(move || loop {
                std::thread::sleep(std::time::Duration::from_millis(200));
                let started = REQ_START.load(std::sync::atomic::Ordering::SeqCst);
                if started != 0 && now_ms().saturating_sub(started) > limit * 1000 {
                    let _ = std::io::stdout().write_all(b"= hang\n~ hang\n");
                    let _ = std::io::stdout().flush();
                    std::process::exit(124);
                }
            });
            out.line(&format!("features {}", features().join(" ")));
            let stdin = std::io::stdin();
            let mut bdd = fam_bdd::Exec::default();
            let mut adf = fam_adf::Exec::default();
            let mut ng = fam_ng::Exec::default();
            let mut stream = fam_stream::Exec::default();
            let mut persist = fam_persist::Exec::default();
            for line in stdin.lock().lines() {
                let line = line.expect("stdin");
                let l = line.trim();
                if l.is_empty() || l.starts_with('=') || l.starts_with('~') || l.starts_with("features") {
                    continue;
                }
                if l.starts_with('#') || l.starts_with("case ") {
                    out.line(l);
                    continue;
                }
                let ws: Vec<&str> = l.split(' ').collect();
                REQ_START.store(now_ms(), std::sync::atomic::Ordering::SeqCst);
                let handled = bdd.exec(&ws, l, &mut out)
                    || adf.exec(&ws, l, &mut out)
                    || ng.exec(&ws, l, &mut out)
                    || fam_iter::exec(&ws, l, &mut out)
                    || fam_parser::exec(&ws, l, &mut out)
                    || stream.exec(&ws, l, &mut out)
                    || persist.exec(&ws, l, &mut out);
                if !handled {
                    out.line(l);
                    out.line("= unknown-request");
                }
                REQ_START.store(0, std::sync::atomic::Ordering::SeqCst);
            }
        }
        _ => {
            eprintln!("unknown command");
            std::process::exit(2);
        }
    }
    out.flush();
}
