use crate::{rng::Rng, Out};
pub fn gen(_r: &mut Rng, _cases: usize, _size: usize, _extra: &[String], _out: &mut Out) {}
#[derive(Default)]
pub struct Exec {}
impl Exec { pub fn exec(&mut self, _ws: &[&str], _l: &str, _out: &mut Out) -> bool { false } }
