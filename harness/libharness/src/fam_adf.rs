//! ADF family (C01-C05, C09-C11): generated frameworks, every semantics entry point on every
//! back-end. Native-store pipelines are compared handle for handle with the Lean model (`=`),
//! every answer additionally as canonical T/F/u strings with the brute-force specification (`~`).
use crate::fam_bdd::{dump_nodes, truth_table};
use crate::{rng::Rng, Out};
use adf_bdd::adf::heuristics::Heuristic;
use adf_bdd::adf::Adf;
use adf_bdd::adfbiodivine::Adf as BdAdf;
use adf_bdd::datatypes::{Term, Var};
use adf_bdd::parser::AdfParser;
use std::panic::{catch_unwind, AssertUnwindSafe};
use std::sync::atomic::{AtomicU64, Ordering};
use std::sync::Mutex;

#[derive(Clone, Debug)]
pub enum F {
    Top,
    Bot,
    Atom(usize),
    Not(Box<F>),
    And(Box<F>, Box<F>),
    Or(Box<F>, Box<F>),
    Imp(Box<F>, Box<F>),
    Xor(Box<F>, Box<F>),
    Iff(Box<F>, Box<F>),
}

pub fn gen_f(r: &mut Rng, n: usize, d: u32) -> F {
    let k = if d == 0 { r.below(10) } else { r.below(22) };
    let mut sub = |r: &mut Rng| Box::new(gen_f(r, n, d.saturating_sub(1)));
    match k {
        0 => F::Top,
        1 => F::Bot,
        2..=9 => F::Atom(r.usize(n)),
        10 | 11 | 12 => F::Not(sub(r)),
        13 | 14 | 15 => F::And(sub(r), sub(r)),
        16 | 17 => F::Or(sub(r), sub(r)),
        18 | 19 => F::Imp(sub(r), sub(r)),
        20 => F::Xor(sub(r), sub(r)),
        _ => F::Iff(sub(r), sub(r)),
    }
}

pub fn text(f: &F, names: &[String]) -> String {
    match f {
        F::Top => "c(v)".into(),
        F::Bot => "c(f)".into(),
        F::Atom(i) => names[*i].clone(),
        F::Not(a) => format!("neg({})", text(a, names)),
        F::And(a, b) => format!("and({},{})", text(a, names), text(b, names)),
        F::Or(a, b) => format!("or({},{})", text(a, names), text(b, names)),
        F::Imp(a, b) => format!("imp({},{})", text(a, names), text(b, names)),
        F::Xor(a, b) => format!("xor({},{})", text(a, names), text(b, names)),
        F::Iff(a, b) => format!("iff({},{})", text(a, names), text(b, names)),
    }
}

pub fn toks(f: &F) -> String {
    match f {
        F::Top => "T".into(),
        F::Bot => "F".into(),
        F::Atom(i) => format!("a{i}"),
        F::Not(a) => format!("not {}", toks(a)),
        F::And(a, b) => format!("and {} {}", toks(a), toks(b)),
        F::Or(a, b) => format!("or {} {}", toks(a), toks(b)),
        F::Imp(a, b) => format!("imp {} {}", toks(a), toks(b)),
        F::Xor(a, b) => format!("xor {} {}", toks(a), toks(b)),
        F::Iff(a, b) => format!("iff {} {}", toks(a), toks(b)),
    }
}

pub fn parse_toks(ws: &[&str], pos: &mut usize) -> Option<F> {
    let w = *ws.get(*pos)?;
    *pos += 1;
    Some(match w {
        "T" => F::Top,
        "F" => F::Bot,
        "not" => F::Not(Box::new(parse_toks(ws, pos)?)),
        "and" | "or" | "imp" | "xor" | "iff" => {
            let a = Box::new(parse_toks(ws, pos)?);
            let b = Box::new(parse_toks(ws, pos)?);
            match w {
                "and" => F::And(a, b),
                "or" => F::Or(a, b),
                "imp" => F::Imp(a, b),
                "xor" => F::Xor(a, b),
                _ => F::Iff(a, b),
            }
        }
        _ => F::Atom(w.strip_prefix('a')?.parse().ok()?),
    })
}

fn conj(mut xs: Vec<F>) -> F {
    let mut acc = xs.pop().unwrap_or(F::Top);
    while let Some(x) = xs.pop() {
        acc = F::And(Box::new(x), Box::new(acc));
    }
    acc
}

/// adversarial families that random generation under-produces
pub fn gen_family(r: &mut Rng, n: usize) -> Vec<F> {
    let at = |i: usize| F::Atom(i % n);
    let not = |f: F| F::Not(Box::new(f));
    match r.below(13) {
        // long chains: one connective over 8-12 operands, right- or left-nested, operands repeated
        // (anything that flattens, sorts or de-duplicates the operands of an associative connective
        // is right for and/or and wrong for xor/iff)
        12 => (0..n)
            .map(|_| {
                let k = r.below(4);
                let len = r.range(8, 12);
                let left = r.bool();
                let lit = |r: &mut Rng| if r.chance(1, 5) { F::Not(Box::new(F::Atom(r.usize(n)))) } else { F::Atom(r.usize(n)) };
                let mut acc = lit(r);
                for _ in 1..len {
                    let x = lit(r);
                    let (a, b) = if left { (Box::new(acc), Box::new(x)) } else { (Box::new(x), Box::new(acc)) };
                    acc = match k {
                        0 => F::Xor(a, b),
                        1 => F::Iff(a, b),
                        2 => F::And(a, b),
                        _ => F::Or(a, b),
                    };
                }
                acc
            })
            .collect(),
        // hub: ONE statement occurs in its own condition below another connective (guarded self
        // reference: not s1 and (s2 -> not s0)), every other statement attacks, follows or ignores the
        // hub: several stable models, some of them inside path cubes that carry the hub's own literal
        11 => {
            let hub = r.usize(n);
            let lit = |r: &mut Rng, i: usize| if r.bool() { F::Atom(i % n) } else { F::Not(Box::new(F::Atom(i % n))) };
            let bin = |r: &mut Rng, a: F, b: F| {
                let (a, b) = if r.bool() { (a, b) } else { (b, a) };
                let (a, b) = (Box::new(a), Box::new(b));
                match r.below(5) {
                    0 => F::And(a, b),
                    1 => F::Or(a, b),
                    2 => F::Imp(a, b),
                    3 => F::Xor(a, b),
                    _ => F::Iff(a, b),
                }
            };
            (0..n)
                .map(|i| {
                    if i == hub {
                        let o1 = hub + 1 + r.usize(n.max(2) - 1);
                        let o2 = hub + 1 + r.usize(n.max(2) - 1);
                        let me = lit(r, hub);
                        let l2 = lit(r, o2);
                        let inner = bin(r, l2, me);
                        let l1 = lit(r, o1);
                        bin(r, l1, inner)
                    } else {
                        match r.below(6) {
                            0 | 1 | 2 => F::Not(Box::new(F::Atom(hub))),
                            3 => F::Atom(hub),
                            4 => { let j = r.usize(n); lit(r, j) }
                            _ => { let a = lit(r, hub); let j = r.usize(n); let b = lit(r, j); bin(r, a, b) }
                        }
                    }
                })
                .collect()
        }
        // adjacent pairs: every condition is the SAME connective over the next two statements
        // (s0 <- op(s0,s1), s1 <- op(s2,s3), ...): conditions that differ only in where the operands
        // are split (exercises anything keyed by a rendering of the condition)
        10 => {
            let k = r.below(5);
            (0..n)
                .map(|i| {
                    let (a, b) = (Box::new(at(2 * i)), Box::new(at(2 * i + 1)));
                    match k {
                        0 => F::And(a, b),
                        1 => F::Or(a, b),
                        2 => F::Xor(a, b),
                        3 => F::Imp(a, b),
                        _ => F::Iff(a, b),
                    }
                })
                .collect()
        }
        // self-referential compounds: a statement occurs (positively or negatively) in its own
        // condition next to a small formula over others (exercises the goal-variable handling of the
        // path cubes and the 'conclude the other value' step of the counting search)
        9 => (0..n)
            .map(|i| {
                if r.chance(2, 3) {
                    let me = if r.bool() { at(i) } else { not(at(i)) };
                    let other = gen_f(r, n, 2);
                    match r.below(3) {
                        0 => F::And(Box::new(me), Box::new(other)),
                        1 => F::Or(Box::new(other), Box::new(F::And(Box::new(me), Box::new(at(i + 1))))),
                        _ => F::Or(Box::new(me), Box::new(other)),
                    }
                } else if r.bool() {
                    at(i + 1)
                } else {
                    not(at(i + 2))
                }
            })
            .collect(),
        // converse pairs: the same connective over the same operands in both argument orders
        // (exercises memo tables keyed by operand triples)
        8 => {
            let mut v: Vec<F> = (0..n).map(|i| if r.bool() { not(at(i + 1)) } else { gen_f(r, n, 1) }).collect();
            let pairs = r.range(1, 2.max(n / 2));
            for _ in 0..pairs {
                let (x, y) = (r.usize(n), r.usize(n));
                let (i, j) = (r.usize(n), r.usize(n));
                let ax = if r.chance(1, 3) { not(at(x)) } else { at(x) };
                let ay = if r.chance(1, 3) { F::And(Box::new(at(y)), Box::new(at(y + 1))) } else { at(y) };
                let mk = |k: u64, a: F, b: F| match k {
                    0 => F::Imp(Box::new(a), Box::new(b)),
                    1 => F::And(Box::new(a), Box::new(b)),
                    2 => F::Or(Box::new(a), Box::new(b)),
                    3 => F::Xor(Box::new(a), Box::new(b)),
                    _ => F::Iff(Box::new(a), Box::new(b)),
                };
                let k = r.below(8).min(4) ^ 0; // implication weighted (0 appears via the min below)
                let k = if r.chance(1, 2) { 0 } else { k };
                v[i] = mk(k, ax.clone(), ay.clone());
                v[j] = mk(k, ay, ax);
            }
            v
        }
        // propagation chain needing n grounding rounds (random direction, random polarity)
        0 => {
            let rev = r.bool();
            (0..n)
                .map(|i| {
                    let prev = if rev { i + 1 } else { i + n - 1 };
                    let first = if rev { i == n - 1 } else { i == 0 };
                    if first {
                        if r.bool() { F::Top } else { F::Bot }
                    } else if r.bool() {
                        at(prev)
                    } else {
                        not(at(prev))
                    }
                })
                .collect()
        }
        // self support
        1 => (0..n).map(|i| if r.chance(2, 3) { at(i) } else { gen_f(r, n, 1) }).collect(),
        // attack cycle (odd or even)
        2 => (0..n).map(|i| not(at(i + 1))).collect(),
        // false-before-true dependencies
        3 => (0..n)
            .map(|i| {
                if i == 0 {
                    F::Bot
                } else {
                    F::Or(Box::new(not(at(i - 1))), Box::new(gen_f(r, n, 1)))
                }
            })
            .collect(),
        // conditions that become constant only under grounding
        4 => (0..n)
            .map(|i| {
                if i == 0 {
                    F::Top
                } else {
                    F::And(Box::new(at(0)), Box::new(F::Or(Box::new(at(i)), Box::new(not(at(i))))))
                }
            })
            .collect(),
        // all decided
        5 => (0..n).map(|_| if r.bool() { F::Top } else { F::Bot }).collect(),
        // many two-valued models: xor / iff webs
        6 => (0..n)
            .map(|i| {
                if r.bool() {
                    F::Iff(Box::new(at(i)), Box::new(at(i + 1)))
                } else {
                    F::Xor(Box::new(at(i + 1)), Box::new(at(i + 2)))
                }
            })
            .collect(),
        // conjunctive support sets whose cubes conflict with earlier decisions
        _ => (0..n)
            .map(|i| {
                let k = r.range(1, 3.min(n));
                conj((0..k).map(|_| if r.bool() { at(r.usize(n)) } else { not(at(r.usize(n))) }).chain(std::iter::once(at(i))).collect())
            })
            .collect(),
    }
}

const HEUS: [&str; 3] = ["Simple", "MinModMinPathsMaxVarImp", "MinModMaxVarImpMinPaths"];

/// the 16 Boolean functions of two variables, as formulas
fn fn2(k: usize) -> F {
    let a = || Box::new(F::Atom(0));
    let b = || Box::new(F::Atom(1));
    let n = |f: F| F::Not(Box::new(f));
    match k {
        0 => F::Bot,
        1 => F::And(a(), b()),
        2 => F::And(a(), Box::new(n(F::Atom(1)))),
        3 => F::Atom(0),
        4 => F::And(Box::new(n(F::Atom(0))), b()),
        5 => F::Atom(1),
        6 => F::Xor(a(), b()),
        7 => F::Or(a(), b()),
        8 => n(F::Or(a(), b())),
        9 => F::Iff(a(), b()),
        10 => n(F::Atom(1)),
        11 => F::Imp(b(), a()),
        12 => n(F::Atom(0)),
        13 => F::Imp(a(), b()),
        14 => n(F::And(a(), b())),
        _ => F::Top,
    }
}

/// exhaustive small scope (a test, labelled as such): all 256 two-statement ADFs at function level
fn gen_exhaustive2(out: &mut Out) {
    for i in 0..16 {
        for j in 0..16 {
            out.line(&format!("case adf-exh2-{}", i * 16 + j));
            out.line("adf 2");
            out.line(&format!("ac 0 {}", toks(&fn2(i))));
            out.line(&format!("ac 1 {}", toks(&fn2(j))));
            for p in ["native", "hybrid", "hybridpre", "bio"] {
                out.line(&format!("build {p}"));
            }
            for p in ["native", "hybrid", "hybridpre", "bio"] {
                out.line(&format!("grounded {p}"));
                out.line(&format!("complete {p}"));
                out.line(&format!("stable {p}"));
            }
            for p in ["native", "hybrid", "hybridpre"] {
                out.line(&format!("stablepre {p}"));
                out.line(&format!("stmca {p}"));
                out.line(&format!("stmcb {p}"));
            }
            out.line("stablerew native");
            out.line("stablerew bio");
            out.line("stablerew2 bio");
            for h in HEUS {
                out.line(&format!("ng native {h} stable"));
                out.line(&format!("ng native {h} twoval"));
            }
            // every scripted choice sequence of length <= 2 is covered by a handful of seeds
            for seed in 0..6 {
                out.line(&format!("ng native Script:{seed} stable"));
                out.line(&format!("ng hybrid Script:{seed} twoval"));
            }
            out.line("adump native");
        }
    }
}

/// a formula over the given atoms only
fn gen_over(r: &mut Rng, atoms: &[usize], d: u32) -> F {
    fn ren(f: F, atoms: &[usize]) -> F {
        let b = |x: Box<F>| Box::new(ren(*x, atoms));
        match f {
            F::Atom(i) => F::Atom(atoms[i % atoms.len()]),
            F::Not(a) => F::Not(b(a)),
            F::And(x, y) => F::And(b(x), b(y)),
            F::Or(x, y) => F::Or(b(x), b(y)),
            F::Imp(x, y) => F::Imp(b(x), b(y)),
            F::Xor(x, y) => F::Xor(b(x), b(y)),
            F::Iff(x, y) => F::Iff(b(x), b(y)),
            c => c,
        }
    }
    if atoms.is_empty() {
        return if r.bool() { F::Top } else { F::Bot };
    }
    let f = gen_f(r, atoms.len(), d);
    ren(f, atoms)
}

/// WIDE frameworks (more statements than a machine word has bits) whose grounded interpretation
/// decides almost everything: a small undecided core (2-4 statements, at random positions, i.e.
/// also beyond index 63) plus up to two dependents, all other statements are decided by grounding
/// in layers (constants, then formulas over statements of earlier layers). The complete and stable
/// enumerations stay small (<= 3^6 candidates) although n is large.
pub fn gen_wide(r: &mut Rng, n: usize) -> Vec<F> {
    let mut perm: Vec<usize> = (0..n).collect();
    for i in (1..n).rev() {
        perm.swap(i, r.usize(i + 1));
    }
    let c = r.range(2, 4).min(n);
    let d = r.range(0, 2).min(n - c);
    let mut acs: Vec<F> = vec![F::Bot; n];
    let mut decided: Vec<usize> = Vec::new();
    for k in (c + d)..n {
        let idx = perm[k];
        acs[idx] = if decided.len() < 3 || r.chance(1, 4) {
            if r.bool() { F::Top } else { F::Bot }
        } else {
            // a few atoms of earlier layers
            let m = r.range(1, 3);
            let atoms: Vec<usize> = (0..m).map(|_| decided[r.usize(decided.len())]).collect();
            gen_over(r, &atoms, 2)
        };
        decided.push(idx);
    }
    let core: Vec<usize> = perm[..c].to_vec();
    for &idx in &core {
        let mut atoms = core.clone();
        for _ in 0..r.range(0, 3) {
            if !decided.is_empty() {
                atoms.push(decided[r.usize(decided.len())]);
            }
        }
        // mostly shapes that stay undecided under grounding (mutual attack, self support, parity),
        // possibly combined with a decided statement
        let other = core[r.usize(c)];
        let third = core[r.usize(c)];
        let at = |i: usize| Box::new(F::Atom(i));
        let base = match r.below(9) {
            0 | 1 => F::Not(at(other)),
            2 => F::Atom(idx),
            3 => F::Atom(other),
            4 => F::Xor(at(other), at(third)),
            5 => F::Iff(at(other), Box::new(F::Not(at(third)))),
            6 => F::And(Box::new(F::Not(at(other))), at(third)),
            _ => gen_over(r, &atoms, 3),
        };
        acs[idx] = if !decided.is_empty() && r.chance(1, 2) {
            let dec = at(decided[r.usize(decided.len())]);
            match r.below(4) {
                0 => F::And(Box::new(base), dec),
                1 => F::Or(Box::new(base), dec),
                2 => F::And(Box::new(base), Box::new(F::Not(dec))),
                _ => F::Or(Box::new(base), Box::new(F::Not(dec))),
            }
        } else {
            base
        };
    }
    for k in c..(c + d) {
        let idx = perm[k];
        let me = F::Atom(core[r.usize(c)]);
        let other = if decided.is_empty() || r.chance(1, 3) { F::Atom(core[r.usize(c)]) } else { F::Atom(decided[r.usize(decided.len())]) };
        let (a, b) = (Box::new(me), Box::new(other));
        acs[idx] = match r.below(6) {
            0 => F::And(a, b),
            1 => F::Or(a, b),
            2 => F::Xor(a, b),
            3 => F::Imp(a, b),
            4 => F::Not(a),
            _ => F::Iff(a, b),
        };
    }
    acs
}

pub fn gen(r: &mut Rng, cases: usize, size: usize, extra: &[String], out: &mut Out) {
    let maxn = if size == 0 { 6 } else { size };
    let profile = extra.first().map(|s| s.as_str()).unwrap_or("sem");
    if profile == "exh2" {
        gen_exhaustive2(out);
        return;
    }
    for case in 0..cases {
        out.line(&format!("case adf-{profile}-{case}"));
        let (n, acs): (usize, Vec<F>) = if profile == "histwide" {
            let n = r.range(65.min(maxn), maxn);
            (n, gen_wide(r, n))
        } else if profile == "cliwide" {
            let n = r.range(65.min(maxn), maxn);
            (n, gen_wide(r, n))
        } else if profile == "presentwide" {
            let n = r.range(65.min(maxn), maxn);
            (n, gen_wide(r, n))
        } else if profile == "wideund" {
            // many UNDECIDED statements (self support, mutual attack, parity): the enumerations are
            // astronomically large, only their first element is asked for
            let n = r.range(30.min(maxn), maxn);
            let at = |i: usize| Box::new(F::Atom(i));
            let acs = (0..n)
                .map(|i| match r.below(5) {
                    0 | 1 => F::Atom(i),
                    2 => F::Not(at(r.usize(n))),
                    3 => F::Xor(at(i), at(r.usize(n))),
                    _ => if r.bool() { F::Top } else { F::Not(at(i)) },
                })
                .collect();
            (n, acs)
        } else if profile == "wider" {
            // more statements than a byte can number (256): anything that narrows a statement index
            let n = r.range(257.min(maxn), maxn);
            (n, gen_wide(r, n))
        } else if profile == "deepund" {
            // 10-12 statements, nothing decided by grounding in most cases, deep conditions rich in xor / iff:
            // the enumerate-and-check routines create thousands of temporary nodes on ONE store
            let n = r.range(10, 12);
            let at = |i: usize| Box::new(F::Atom(i));
            let acs = (0..n)
                .map(|i| {
                    let f = gen_f(r, n, 5);
                    match r.below(4) {
                        0 => F::Xor(at(i), Box::new(f)),
                        1 => F::Iff(at((i + 1) % n), Box::new(f)),
                        2 => F::Xor(Box::new(f), at((i + 2) % n)),
                        _ => f,
                    }
                })
                .collect();
            (n, acs)
        } else if profile == "many" {
            // a small core plus k independent mutual-attack pairs: the core's candidates times 2^k, so
            // that thresholds on the NUMBER of candidates / models (dozens to hundreds) are crossed
            let c = r.range(2, 4);
            let k = r.range(3, 5);
            let n = c + 2 * k;
            let mut acs: Vec<F> = if r.chance(1, 2) { gen_family(r, c) } else { (0..c).map(|_| gen_f(r, c, 2)).collect() };
            for j in 0..k {
                let x = c + 2 * j;
                acs.push(F::Not(Box::new(F::Atom(x + 1))));
                acs.push(F::Not(Box::new(F::Atom(x))));
            }
            (n, acs)
        } else if profile == "parity" {
            // the parity frameworks are built by the request itself (ngparity); the case's own framework is trivial
            (1, vec![F::Top])
        } else if profile == "wide" {
            let n = if r.chance(3, 4) { r.range(65.min(maxn), maxn) } else { r.range(8.min(maxn), maxn) };
            (n, gen_wide(r, n))
        } else if profile == "large" {
            let n = r.range(maxn / 2, maxn);
            (n, (0..n).map(|_| { let d = r.range(5, 11) as u32; gen_f(r, n, d) }).collect())
        } else if case % 97 == 0 && profile != "hist" {
            // the two pre-study instances
            let a = F::Atom;
            if r.bool() {
                (3, vec![a(2), F::And(Box::new(a(1)), Box::new(a(0))), a(2)])
            } else {
                (3, vec![a(0), a(1), a(2)])
            }
        } else {
            let n = r.range(1, maxn);
            if r.chance(2, 5) {
                (n, gen_family(r, n))
            } else {
                let d = r.range(1, 4) as u32;
                (n, (0..n).map(|_| gen_f(r, n, d)).collect())
            }
        };
        out.line(&format!("adf {n}"));
        for (i, f) in acs.iter().enumerate() {
            out.line(&format!("ac {i} {}", toks(f)));
        }
        match profile {
            "sem" => {
                for p in ["native", "hybrid", "hybridpre", "bio"] {
                    out.line(&format!("build {p}"));
                }
                let mut reqs: Vec<String> = Vec::new();
                for p in ["native", "hybrid", "hybridpre", "bio"] {
                    reqs.push(format!("grounded {p}"));
                    reqs.push(format!("complete {p}"));
                    reqs.push(format!("stable {p}"));
                }
                for p in ["native", "hybrid", "hybridpre"] {
                    reqs.push(format!("stablepre {p}"));
                }
                reqs.push("stablerew native".into());
                reqs.push("stablerew bio".into());
                reqs.push("stablerew2 bio".into());
                // random order: the answers must not depend on what was computed before
                for i in (1..reqs.len()).rev() {
                    reqs.swap(i, r.usize(i + 1));
                }
                for q in reqs {
                    out.line(&q);
                }
                out.line("adump native");
            }
            "count" => {
                for p in ["native", "hybrid", "hybridpre"] {
                    out.line(&format!("build {p}"));
                    if r.bool() {
                        out.line(&format!("stmca {p}"));
                        out.line(&format!("stmcb {p}"));
                    } else {
                        out.line(&format!("stmcb {p}"));
                        out.line(&format!("stmca {p}"));
                    }
                    out.line(&format!("adump {p}"));
                }
            }
            "ng" => {
                if case == 0 {
                    // many-model framework (1024 stable models): the iterator entry point and both
                    // channel variants must deliver all of them and come back
                    out.line("ngbig 10");
                }
                for p in ["native", "hybrid"] {
                    out.line(&format!("build {p}"));
                }
                for h in HEUS {
                    out.line(&format!("ng native {h} stable"));
                    out.line(&format!("ng native {h} twoval"));
                }
                for _ in 0..4 {
                    let mode = if r.bool() { "stable" } else { "twoval" };
                    let p = if r.chance(1, 4) { "hybrid" } else { "native" };
                    out.line(&format!("ng {p} Script:{} {mode}", r.below(1 << 30)));
                }
                for _ in 0..3 {
                    let mode = if r.bool() { "stable" } else { "twoval" };
                    out.line(&format!("ng native Rand:{} {mode}", r.below(1 << 30)));
                }
                out.line(&format!("ngch native {} stable", HEUS[r.usize(3)]));
                out.line(&format!("ngch native Script:{} twoval", r.below(1 << 30)));
                out.line("adump native");
            }
            "deep" => {
                let mode = ["naive", "hybrid", "biodivine"][r.usize(3)];
                out.line(&format!("clideep neg {} {mode}", r.range(50, 400)));
                out.line(&format!("clideep and {} {mode}", r.range(50, 300)));
                out.line(&format!("clideep wide {} {mode}", r.range(100, 1500)));
                if case == 0 {
                    out.line("clideep neg 100000 naive");
                    out.line("clideep and 100000 biodivine");
                }
            }
            "wideund" => {
                for p in ["native", "hybrid", "bio"] {
                    out.line(&format!("build {p}"));
                    out.line(&format!("grounded {p}"));
                }
                for p in ["native", "hybrid", "bio"] {
                    out.line(&format!("completefirst {p}"));
                }
                out.line("adump native");
            }
            "deepund" => {
                for p in ["native", "hybrid"] {
                    out.line(&format!("build {p}"));
                }
                out.line("stable native");
                out.line("stable hybrid");
                out.line("stablepre native");
                out.line("adump native");
            }
            "many" => {
                for p in ["native", "hybrid", "hybridpre"] {
                    out.line(&format!("build {p}"));
                }
                let mut reqs: Vec<String> = vec!["stable native".into(), "stmca native".into(), "stmcb native".into(), "stmca hybrid".into(),
                    "stmcb hybridpre".into(), "ng native Simple stable".into(), "ng native MinModMaxVarImpMinPaths twoval".into()];
                for i in (1..reqs.len()).rev() {
                    reqs.swap(i, r.usize(i + 1));
                }
                for q in reqs {
                    out.line(&q);
                }
                out.line("adump native");
            }
            "parity" => {
                // s0: not s1; s1: not s0; a chain s2: s0, s3: s2, ...; last: exclusive or of s0 and the chain:
                // few nodes, but path counts around 2^(n-2) - arithmetic on the counts meets the word size.
                // Exactly two two-valued models, both stable, known by construction.
                for h in HEUS {
                    let chain = r.range(40.min(maxn.saturating_sub(3)), maxn.saturating_sub(3));
                    out.line(&format!("ngparity {chain} {h} {}", ["stable", "twoval", "iter"][r.usize(3)]));
                }
            }
            "wide" | "wider" => {
                for p in ["native", "hybrid", "hybridpre", "bio"] {
                    out.line(&format!("build {p}"));
                }
                let mut reqs: Vec<String> = Vec::new();
                for p in ["native", "hybrid", "hybridpre", "bio"] {
                    reqs.push(format!("grounded {p}"));
                    reqs.push(format!("complete {p}"));
                    reqs.push(format!("stable {p}"));
                }
                reqs.push("stablepre native".into());
                reqs.push("stmca native".into());
                reqs.push("stmcb hybrid".into());
                reqs.push("ng native Simple stable".into());
                reqs.push("ng hybrid MinModMinPathsMaxVarImp twoval".into());
                for i in (1..reqs.len()).rev() {
                    reqs.swap(i, r.usize(i + 1));
                }
                for q in reqs {
                    out.line(&q);
                }
                out.line("adump native");
            }
            "large" => {
                for p in ["native", "hybrid", "hybridpre"] {
                    out.line(&format!("build {p}"));
                }
                out.line("adump native");
            }
            "cli" | "cliwide" => {
                let modes = ["naive", "biodivine", "hybrid"];
                let all_flags = ["grd", "com", "stm", "stmpre", "stmrew", "stmrew2", "stmca", "stmcb", "stmng", "twoval"];
                let heus = ["-", "Simple", "MinModMinPathsMaxVarImp", "MinModMaxVarImpMinPaths"];
                for k in (if profile == "cli" { 0..6 } else { 2..5 }) {
                    let mut perm: Vec<usize> = (0..2 * n).collect();
                    for i in (1..perm.len()).rev() {
                        perm.swap(i, r.usize(i + 1));
                    }
                    let mode = modes[r.usize(3)];
                    let sort = ["none", "lx", "an"][r.usize(3)];
                    // single flags (judged against the specification) and flag sets (section order)
                    let flags: Vec<&str> = if k < 4 {
                        vec![all_flags[r.usize(all_flags.len())]]
                    } else {
                        all_flags.iter().copied().filter(|_| r.chance(2, 5)).collect()
                    };
                    // wide frameworks: the single-formula rewriting built at call time (--stmrew2: the conjunction of
                    // all equivalences statement <-> condition in statement order) can need minutes and gigabytes beyond
                    // about 100 statements in the library-based arms; that is a resource matter, not a statement of C15,
                    // and a slow run must not be mistaken for a hang (DESIGN 12.6)
                    let flags: Vec<&str> = if profile == "cliwide" && mode != "naive" { flags.into_iter().filter(|f| *f != "stmrew2").collect() } else { flags };
                    let flags_s = if flags.is_empty() { "-".to_string() } else { flags.join("+") };
                    out.line(&format!(
                        "cli {mode} {sort} {flags_s} {} {} {} {}",
                        heus[r.usize(4)],
                        perm.iter().map(|x| x.to_string()).collect::<Vec<_>>().join(","),
                        r.below(1 << 30),
                        r.below(1 << 30)
                    ));
                }
                if profile == "cliwide" {
                    continue;
                }
                out.line(&format!("clibad {} {} {}", modes[r.usize(3)], r.usize(6), r.below(1 << 30)));
                out.line(&format!("clicount {}", ["naive", "hybrid"][r.usize(2)]));
                if case % 10 == 0 {
                    out.line(&format!("cliexport {}", r.below(1 << 30)));
                }
                if case == 0 {
                    // nesting depth: moderate depth must work, the recorded finding D12 is probed
                    out.line("clibig hybrid twoval");
                    out.line("clideep neg 400 naive");
                    out.line("clideep and 300 hybrid");
                    out.line("clideep neg 100000 naive");
                    out.line("clideep and 100000 biodivine");
                    out.line("clideep wide 1500 naive");
                    // probe of the recorded finding D6 (quoted label with a character biodivine rejects)
                    out.line("cliq hybrid");
                    out.line("cliq biodivine");
                    out.line("cliq naive");
                }
            }
            "present" | "presentwide" => {
                // metamorphic presentations of the same framework: fact order x sorting x naming x layout
                for _ in 0..(if profile == "present" { 5 } else { 2 }) {
                    let mut perm: Vec<usize> = (0..2 * n).collect();
                    for i in (1..perm.len()).rev() {
                        perm.swap(i, r.usize(i + 1));
                    }
                    let sort = ["none", "lx", "an"][r.usize(3)];
                    out.line(&format!(
                        "present {} {sort} {} {}",
                        perm.iter().map(|x| x.to_string()).collect::<Vec<_>>().join(","),
                        r.below(1 << 30),
                        r.below(1 << 30)
                    ));
                }
            }
            _ => {
                // "hist": random call histories on one object, then probes compared with a fresh object
                let p = ["native", "hybrid", "hybridpre"][r.usize(3)];
                out.line(&format!("build {p}"));
                let calls = r.range(2, 10);
                let menu = ["grounded", "complete", "stable", "stablepre", "stmca", "stmcb", "ngS", "ngA", "ngB", "ngScript", "extra", "counts", "facets"];
                let emit = |r: &mut Rng, out: &mut Out, c: &str| match c {
                    "ngS" => out.line(&format!("ng {p} Simple stable")),
                    "ngA" => out.line(&format!("ng {p} MinModMinPathsMaxVarImp twoval")),
                    "ngB" => out.line(&format!("ng {p} MinModMaxVarImpMinPaths stable")),
                    "ngScript" => out.line(&format!("ng {p} Script:{} stable", r.below(1 << 20))),
                    "extra" => out.line(&format!("extraformula {p} {}", toks(&gen_f(r, n, 3)))),
                    "counts" => out.line(&format!("counts {p}")),
                    c => out.line(&format!("{c} {p}")),
                };
                for _ in 0..calls {
                    let c = menu[r.usize(menu.len())];
                    emit(r, out, c);
                }
                // probes: the same calls on a freshly built twin must give the same canonical answers
                out.line(&format!("build {p}fresh"));
                for c in ["grounded", "complete", "stable", "stmca", "ngS", "ngB"] {
                    let line_old = match c {
                        "ngS" => format!("ng {p} Simple stable"),
                        "ngB" => format!("ng {p} MinModMaxVarImpMinPaths stable"),
                        c => format!("{c} {p}"),
                    };
                    out.line(&line_old);
                    out.line(&line_old.replace(&format!(" {p}"), &format!(" {p}fresh")));
                }
                out.line(&format!("memo {p}"));
                // determinism: the same search twice on the used object and once on the twin must list
                // the same interpretations in the same ORDER (nothing may depend on a hash map's iteration
                // order, an address or the time); C11.ng_order_history_independent says the order does not even
                // depend on the node table
                out.line(&format!("detrepro {p} {} {}", HEUS[r.usize(3)], if r.bool() { "stable" } else { "twoval" }));
                // LAST (the random search leaves its own nodes on the used object): a seeded Rand run
                // must be reproducible on the used object and equal a twin's, whatever happened before
                let mode = if r.bool() { "stable" } else { "twoval" };
                if r.chance(1, 3) {
                    // an unseeded random run first: seeding afterwards must still take effect
                    out.line(&format!("randrepro {p} {} {mode} warm", r.below(1 << 30)));
                } else {
                    out.line(&format!("randrepro {p} {} {mode} cold", r.below(1 << 30)));
                }
            }
        }
    }
}

// ------------------------------------------------------------------------------------------------

pub fn tfu(v: &[Term]) -> String {
    v.iter()
        .map(|t| if !t.is_truth_value() { 'u' } else if t.is_true() { 'T' } else { 'F' })
        .collect()
}

pub fn vec_s(v: &[Term]) -> String {
    if v.is_empty() {
        return "[]".into();
    }
    v.iter().map(|t| t.value().to_string()).collect::<Vec<_>>().join(" ")
}

pub fn vecs_s(vs: &[Vec<Term>]) -> String {
    if vs.is_empty() {
        "-".into()
    } else {
        vs.iter().map(|v| vec_s(v)).collect::<Vec<_>>().join(" | ")
    }
}

pub fn set_s(vs: &[Vec<Term>]) -> String {
    let mut xs: Vec<String> = vs.iter().map(|v| tfu(v)).collect();
    xs.sort();
    if xs.is_empty() {
        "-".into()
    } else {
        xs.join(" ")
    }
}

pub fn seq_s(vs: &[Vec<Term>]) -> String {
    if vs.is_empty() {
        "-".into()
    } else {
        vs.iter().map(|v| tfu(v)).collect::<Vec<_>>().join(" ")
    }
}

static TRACE: Mutex<Vec<Vec<Term>>> = Mutex::new(Vec::new());
static CALLS: AtomicU64 = AtomicU64::new(0);
static SCRIPT_SEED: AtomicU64 = AtomicU64::new(0);

fn splitmix(x: u64) -> u64 {
    let mut z = x.wrapping_add(0x9E3779B97F4A7C15);
    z = (z ^ (z >> 30)).wrapping_mul(0xBF58476D1CE4E5B9);
    z = (z ^ (z >> 27)).wrapping_mul(0x94D049BB133111EB);
    z ^ (z >> 31)
}

/// scripted custom heuristic: a PRNG-chosen (undecided statement, value) per call; logs what it was shown
fn script_heu(_adf: &Adf, interp: &[Term]) -> Option<(Var, Term)> {
    TRACE.lock().unwrap().push(interp.to_vec());
    let time = CALLS.fetch_add(1, Ordering::SeqCst);
    let und: Vec<usize> = interp.iter().enumerate().filter(|(_, t)| !t.is_truth_value()).map(|(i, _)| i).collect();
    if und.is_empty() {
        return None;
    }
    let r = splitmix(SCRIPT_SEED.load(Ordering::SeqCst).wrapping_add(time.wrapping_mul(0x2545F4914F6CDD1D)));
    let k = (r % und.len() as u64) as usize;
    let b = (r >> 33) & 1 == 1;
    Some((Var(und[k]), if b { Term::TOP } else { Term::BOT }))
}

#[derive(Default)]
pub struct Exec {
    n: usize,
    acs: Vec<F>,
    native: Vec<(String, Adf)>,
    bio: Option<BdAdf>,
}

impl Exec {
    fn names(&self) -> Vec<String> {
        (0..self.n).map(|i| format!("x{i}")).collect()
    }

    fn source(&self) -> &'static str {
        let names = self.names();
        let mut txt = String::new();
        for nm in &names {
            txt += &format!("s({nm}).");
        }
        for (i, f) in self.acs.iter().enumerate() {
            txt += &format!("ac({},{}).", names[i], text(f, &names));
        }
        Box::leak(txt.into_boxed_str())
    }

    /// the parser borrows its input for its whole life, so text and parser are leaked (small, per case)
    fn parser(&self) -> Option<&'static AdfParser<'static>> {
        let parser: &'static AdfParser<'static> = Box::leak(Box::new(AdfParser::default()));
        if self.n == 0 {
            return Some(parser);
        }
        let src = self.source();
        let ok = parser.parse()(src).is_ok();
        if ok {
            Some(parser)
        } else {
            None
        }
    }

    fn adf(&mut self, p: &str) -> Option<&mut Adf> {
        self.native.iter_mut().find(|(k, _)| k == p).map(|(_, a)| a)
    }

    fn build(&mut self, p: &str, out: &mut Out) {
        let base = p.strip_suffix("fresh").unwrap_or(p);
        let parser = match self.parser() {
            Some(x) => x,
            None => {
                out.line("= parse-error");
                return;
            }
        };
        self.native.retain(|(k, _)| k != p);
        match base {
            "native" => {
                let adf = Adf::from_parser(parser);
                out.line(&format!("= {}", vec_s(&adf.ac)));
                if self.n <= 7 {
                    let tts: Vec<String> = adf.ac.iter().map(|t| truth_table(&adf.bdd, *t, self.n).to_string()).collect();
                    out.line(&format!("~ {}", if tts.is_empty() { "[]".into() } else { tts.join(" ") }));
                } else {
                    // beyond truth-table size: validated by isoCheck against the bridged stores instead
                    out.line("~ large");
                }
                self.native.push((p.to_string(), adf));
            }
            "hybrid" | "hybridpre" => {
                let bd = BdAdf::from_parser(parser);
                let adf = bd.hybrid_step_opt(base == "hybridpre");
                out.line("= built");
                // the bridged store is handed to the model (verified validators: wfCheck, isoCheck)
                out.line(&format!("adopt {p} {} {}", dump_nodes(&adf.bdd), vec_s(&adf.ac).replace(' ', ",")));
                out.line("~ wf=true iso=true");
                self.native.push((p.to_string(), adf));
            }
            "bio" => {
                self.bio = Some(BdAdf::from_parser(parser));
                out.line("= built");
            }
            _ => out.line("= bad-request"),
        }
    }

    pub fn exec(&mut self, ws: &[&str], l: &str, out: &mut Out) -> bool {
        match ws[0] {
            "adf" if ws.len() == 2 => {
                self.n = ws[1].parse().unwrap_or(0);
                self.acs = vec![F::Bot; self.n];
                self.native.clear();
                self.bio = None;
                out.line(l);
                true
            }
            "ac" if ws.len() >= 3 => {
                out.line(l);
                let mut pos = 2;
                if let (Ok(i), Some(f)) = (ws[1].parse::<usize>(), parse_toks(ws, &mut pos)) {
                    if i < self.n {
                        self.acs[i] = f;
                    }
                }
                true
            }
            "adopt" | "presented" | "ordercheck" | "clirun" | "clicheck" | "clibadrun" => true,
            "ngbig" if ws.len() == 2 => {
                out.line(l);
                out.flush();
                let k: usize = ws[1].parse().unwrap_or(1);
                let r = catch_unwind(AssertUnwindSafe(|| {
                    let mut txt = String::new();
                    for i in 0..k {
                        txt += &format!("s(a{i}).s(b{i}).");
                    }
                    for i in 0..k {
                        txt += &format!("ac(a{i},neg(b{i})).ac(b{i},neg(a{i})).");
                    }
                    let src: &'static str = Box::leak(txt.into_boxed_str());
                    let parser: &'static AdfParser<'static> = Box::leak(Box::new(AdfParser::default()));
                    parser.parse()(src).ok()?;
                    let mut adf = Adf::from_parser(parser);
                    let it: Vec<Vec<Term>> = adf.stable_nogood(Heuristic::Simple).collect();
                    let mut d = it.clone();
                    d.sort();
                    d.dedup();
                    let (s1, r1) = crossbeam_channel::unbounded();
                    adf.stable_nogood_channel(Heuristic::MinModMinPathsMaxVarImp, s1);
                    let ch = r1.iter().count();
                    let (s2, r2) = crossbeam_channel::unbounded();
                    adf.two_val_nogood_channel(Heuristic::MinModMaxVarImpMinPaths, s2);
                    let tv = r2.iter().count();
                    // the same through a bounded channel whose consumer is slower than the search
                    // (on a smaller object of the same shape: 2^(k-3) models are enough to meet a full channel)
                    let kb = k.saturating_sub(3).max(1);
                    let mut txtb = String::new();
                    for i in 0..kb {
                        txtb += &format!("s(a{i}).s(b{i}).");
                    }
                    for i in 0..kb {
                        txtb += &format!("ac(a{i},neg(b{i})).ac(b{i},neg(a{i})).");
                    }
                    let srcb: &'static str = Box::leak(txtb.into_boxed_str());
                    let parserb: &'static AdfParser<'static> = Box::leak(Box::new(AdfParser::default()));
                    parserb.parse()(srcb).ok()?;
                    let mut adfb = Adf::from_parser(parserb);
                    let bd = slow_consumer(2, |s| adfb.stable_nogood_channel(Heuristic::Simple, s));
                    let mut bdd = bd.clone();
                    bdd.sort();
                    bdd.dedup();
                    Some(format!("count={} distinct={} channel={ch} twoval={tv} bounded={} bounded-distinct={}", it.len(), d.len(), bd.len(), bdd.len()))
                }));
                match r {
                    Ok(Some(x)) => out.line(&format!("~ {x}")),
                    Ok(None) => out.line("~ bad-request"),
                    Err(_) => out.line("~ panic"),
                }
                true
            }
            "ngparity" if ws.len() == 4 => {
                out.line(l);
                out.flush();
                let chain: usize = ws[1].parse().unwrap_or(1);
                let heu = ws[2].to_string();
                let mode = ws[3].to_string();
                let r = catch_unwind(AssertUnwindSafe(|| {
                    let n = chain + 3;
                    let mut txt = String::new();
                    for i in 0..n {
                        txt += &format!("s(s{i}).");
                    }
                    txt += "ac(s0,neg(s1)).ac(s1,neg(s0)).";
                    for i in 0..chain {
                        txt += &format!("ac(s{},s{}).", 2 + i, if i == 0 { 0 } else { 1 + i });
                    }
                    let mut par = format!("s{}", chain + 1);
                    for m in (1..=chain).rev() {
                        let v = if m == 1 { 0 } else { m };
                        par = format!("xor(s{v},{par})");
                    }
                    txt += &format!("ac(s{},{par}).", n - 1);
                    let src: &'static str = Box::leak(txt.into_boxed_str());
                    let parser: &'static AdfParser<'static> = Box::leak(Box::new(AdfParser::default()));
                    parser.parse()(src).ok()?;
                    let mut adf = Adf::from_parser(parser);
                    let h = match heu.as_str() {
                        "Simple" => Heuristic::Simple,
                        "MinModMinPathsMaxVarImp" => Heuristic::MinModMinPathsMaxVarImp,
                        _ => Heuristic::MinModMaxVarImpMinPaths,
                    };
                    let vs: Vec<Vec<Term>> = match mode.as_str() {
                        "iter" => adf.stable_nogood(h).collect(),
                        "twoval" => {
                            let (s, r) = crossbeam_channel::unbounded();
                            adf.two_val_nogood_channel(h, s);
                            r.iter().collect()
                        }
                        _ => {
                            let (s, r) = crossbeam_channel::unbounded();
                            adf.stable_nogood_channel(h, s);
                            r.iter().collect()
                        }
                    };
                    let mut xs: Vec<String> = vs.iter().map(|v| tfu(v)).collect();
                    xs.sort();
                    Some(xs.join(" "))
                }));
                match r {
                    Ok(Some(x)) => out.line(&format!("~ {x}")),
                    Ok(None) => out.line("~ bad-request"),
                    Err(_) => out.line("~ panic"),
                }
                true
            }
            "cli" if ws.len() == 8 => {
                out.line(l);
                out.flush();
                let r = catch_unwind(AssertUnwindSafe(|| self.cli(ws[1], ws[2], ws[3], ws[4], ws[5], ws[6], ws[7])));
                match r {
                    Ok(Some(lines)) => {
                        for x in lines {
                            out.line(&x);
                        }
                    }
                    Ok(None) => out.line("= bad-request"),
                    Err(_) => out.line("= panic"),
                }
                true
            }
            "clibad" if ws.len() == 4 => {
                out.line(l);
                out.flush();
                match catch_unwind(AssertUnwindSafe(|| self.clibad(ws[1], ws[2], ws[3]))) {
                    Ok(Some(lines)) => {
                        for x in lines {
                            out.line(&x);
                        }
                    }
                    Ok(None) => out.line("~ bad-request"),
                    Err(_) => out.line("~ panic"),
                }
                true
            }
            "clicount" if ws.len() == 2 => {
                // `--counter nai`: (counter-models, models) of every condition, printed before the semantics
                out.line(l);
                out.flush();
                let r = catch_unwind(AssertUnwindSafe(|| {
                    let n = self.n;
                    if n == 0 {
                        return None;
                    }
                    let names = self.names();
                    let mut txt = String::new();
                    for nm in &names {
                        txt += &format!("s({nm}).");
                    }
                    for (i, f) in self.acs.iter().enumerate() {
                        txt += &format!("ac({},{}).", names[i], text(f, &names));
                    }
                    let file = tmp_file("cnt.adf");
                    std::fs::write(&file, &txt).ok()?;
                    let (code, stdout) = run_cli(&["--lib", ws[1], "--counter", "nai", file.to_str()?]);
                    // "ModelCounts { cmodels: 1, models: 1 } …"
                    let mut nums: Vec<String> = Vec::new();
                    for part in stdout.split("ModelCounts").skip(1) {
                        let digits: Vec<String> = part
                            .split(|c: char| !c.is_ascii_digit())
                            .filter(|x| !x.is_empty())
                            .map(|x| x.to_string())
                            .collect();
                        if digits.len() >= 2 {
                            nums.push(format!("{},{}", digits[0], digits[1]));
                        }
                    }
                    Some(format!("exit={code} counts={}", if nums.is_empty() { "-".to_string() } else { nums.join(" ") }))
                }));
                match r {
                    Ok(Some(x)) => out.line(&format!("= {x}")),
                    Ok(None) => out.line("= bad-request"),
                    Err(_) => out.line("= panic"),
                }
                true
            }
            "cliexport" if ws.len() == 2 => {
                out.line(l);
                out.flush();
                match catch_unwind(AssertUnwindSafe(|| self.cliexport())) {
                    Ok(Some(xs)) => {
                        for x in xs {
                            out.line(&x);
                        }
                    }
                    Ok(None) => out.line("~ bad-request"),
                    Err(_) => out.line("~ panic"),
                }
                true
            }
            "cliq" if ws.len() == 2 => {
                out.line(l);
                out.flush();
                let file = tmp_file("q.adf");
                let _ = std::fs::write(&file, "s(\"a&b\").s(c).ac(\"a&b\",c(v)).ac(c,\"a&b\").");
                let (code, stdout) = run_cli(&["--lib", ws[1], "--grd", file.to_str().unwrap_or("")]);
                out.line(&format!("~ exit={code} {}", stdout.trim_end().replace(' ', "_")));
                true
            }
            "clibig" if ws.len() == 3 => {
                // ten self-supporting statements: 1024 two-valued models, all of which must be printed
                out.line(l);
                out.flush();
                let mut text = String::new();
                for i in 0..10 {
                    text += &format!("s(p{i}).");
                }
                for i in 0..10 {
                    text += &format!("ac(p{i},p{i}).");
                }
                let file = tmp_file("big.adf");
                let _ = std::fs::write(&file, text);
                let flag = format!("--{}", ws[2]);
                let (code, stdout) = run_cli(&["--lib", ws[1], &flag, file.to_str().unwrap_or("")]);
                let _ = std::fs::remove_file(&file);
                let lines: Vec<&str> = stdout.lines().filter(|x| !x.trim().is_empty()).collect();
                let mut sorted = lines.clone();
                sorted.sort_unstable();
                sorted.dedup();
                let wellformed = lines.iter().all(|ln| {
                    let toks: Vec<&str> = ln.split_whitespace().collect();
                    toks.len() == 10 && toks.iter().enumerate().all(|(i, t)| *t == format!("T(p{i})") || *t == format!("F(p{i})"))
                });
                out.line(&format!("~ exit={code} lines={} distinct={} wellformed={}", lines.len(), sorted.len(), wellformed as u8));
                out.line("# case adf n=10 big=1");
                true
            }
            "clideep" if ws.len() == 4 => {
                // a condition nested `depth` levels deep, through the real binary (a stack overflow
                // aborts the process, so this cannot run inside the harness)
                out.line(l);
                out.flush();
                let depth: usize = ws[2].parse().unwrap_or(0);
                fn bal(lo: usize, hi: usize) -> String {
                    if hi - lo == 1 {
                        format!("x{lo}")
                    } else {
                        let m = (lo + hi) / 2;
                        format!("and({},{})", bal(lo, m), bal(m, hi))
                    }
                }
                let text = match ws[1] {
                    // `depth` statements, x0 <- balanced conjunction of all others (nesting depth ~ log),
                    // all others facts: a diagram with `depth - 1` LEVELS; everything is true
                    "wide" if depth >= 2 => {
                        let mut t = String::new();
                        for i in 0..depth {
                            t += &format!("s(x{i}).");
                        }
                        t += &format!("ac(x0,{}).", bal(1, depth));
                        for i in 1..depth {
                            t += &format!("ac(x{i},c(v)).");
                        }
                        t
                    }
                    "neg" => format!("s(a).ac(a,{}a{}).", "neg(".repeat(depth), ")".repeat(depth)),
                    _ => format!("s(a).s(b).ac(b,c(v)).ac(a,{}a{}).", "and(b,".repeat(depth), ")".repeat(depth)),
                };
                let file = tmp_file("deep.adf");
                let _ = std::fs::write(&file, text);
                let (code, stdout) = run_cli(&["--lib", ws[3], "--grd", file.to_str().unwrap_or("")]);
                let _ = std::fs::remove_file(&file);
                if ws[1] == "wide" {
                    let toks: Vec<&str> = stdout.split_whitespace().collect();
                    let all_t = toks.iter().all(|t| t.starts_with("T("));
                    out.line(&format!("~ exit={code} statements={} all-true={}", toks.len(), all_t as u8));
                } else {
                    out.line(&format!("~ exit={code} {}", stdout.trim_end().replace(' ', "_")));
                }
                out.line(&format!("# case adf deep={depth} shape={}", ws[1]));
                true
            }
            "present" if ws.len() == 5 => {
                out.line(l);
                out.flush();
                let r = catch_unwind(AssertUnwindSafe(|| self.present(ws[1], ws[2], ws[3], ws[4])));
                match r {
                    Ok(Some(lines)) => {
                        for x in lines {
                            out.line(&x);
                        }
                    }
                    Ok(None) => out.line("= bad-request"),
                    Err(_) => out.line("= panic"),
                }
                true
            }
            "build" if ws.len() == 2 => {
                out.line(l);
                out.flush();
                let p = ws[1].to_string();
                if catch_unwind(AssertUnwindSafe(|| self.build(&p, out))).is_err() {
                    out.line("= panic");
                }
                true
            }
            "grounded" | "complete" | "stable" | "stablepre" | "stablerew" | "stablerew2" | "stmca" | "stmcb"
                if ws.len() == 2 =>
            {
                out.line(l);
                out.flush();
                let n = self.n;
                let r = catch_unwind(AssertUnwindSafe(|| self.semantics(ws[0], ws[1])));
                match r {
                    Ok(Some((eq, sp))) => {
                        out.line(&format!("= {eq}"));
                        out.line(&format!("~ {sp}"));
                    }
                    Ok(None) => out.line("= bad-request"),
                    Err(_) => {
                        out.line("= panic");
                        out.line("~ panic");
                    }
                }
                let _ = n;
                true
            }
            "ng" | "ngch" if ws.len() == 4 => {
                out.line(l);
                out.flush();
                let r = catch_unwind(AssertUnwindSafe(|| self.ng(ws[0] == "ngch", ws[1], ws[2], ws[3] == "stable")));
                match r {
                    Ok(Some((eq, sp))) => {
                        out.line(&format!("= {eq}"));
                        out.line(&format!("~ {sp}"));
                    }
                    Ok(None) => out.line("= bad-request"),
                    Err(_) => {
                        out.line("= panic");
                        out.line("~ panic");
                    }
                }
                true
            }
            "adump" if ws.len() == 2 => {
                out.line(l);
                let s = match self.adf(ws[1]) {
                    Some(a) => dump_nodes(&a.bdd),
                    None => "bad-request".into(),
                };
                out.line(&format!("= {s}"));
                if let Some(a) = self.adf(ws[1]) {
                    let s = dump_nodes(&a.bdd);
                    out.line(&format!("wfcheck {s}"));
                    out.line("~ true");
                    let nn = a.bdd.nodes.len();
                    let n = self.n;
                    // input distribution for the evidence (computed on an object of its own)
                    let mut extra = String::new();
                    if n <= 7 {
                        if let Some(parser) = self.parser() {
                            if let Ok(st) = catch_unwind(AssertUnwindSafe(|| {
                                let mut f = Adf::from_parser(parser);
                                let g = f.grounded();
                                let u = g.iter().filter(|t| !t.is_truth_value()).count();
                                let c = f.complete().count();
                                let s = f.stable().count();
                                format!(" grd_undecided={u} complete={c} stable={s}")
                            })) {
                                extra = st;
                            }
                        }
                    }
                    out.line(&format!("# case adf n={n} nodes={nn}{extra}"));
                }
                true
            }
            "extraformula" if ws.len() >= 3 => {
                out.line(l);
                let mut pos = 2;
                let f = parse_toks(ws, &mut pos);
                let r = catch_unwind(AssertUnwindSafe(|| {
                    let f = f?;
                    let a = self.adf(ws[1])?;
                    Some(build_formula(&mut a.bdd, &f))
                }));
                match r {
                    Ok(Some(t)) => out.line(&format!("= {}", t.value())),
                    Ok(None) => out.line("= bad-request"),
                    Err(_) => out.line("= panic"),
                }
                true
            }
            "counts" if ws.len() == 2 => {
                out.line(l);
                let r = catch_unwind(AssertUnwindSafe(|| {
                    let a = self.adf(ws[1])?;
                    let c = a.formulacounts(false);
                    Some(c.iter().map(|m| format!("{},{}", m.cmodels, m.models)).collect::<Vec<_>>().join(" "))
                }));
                match r {
                    Ok(Some(s)) => out.line(&format!("= {}", if s.is_empty() { "-".into() } else { s })),
                    Ok(None) => out.line("= bad-request"),
                    Err(_) => out.line("= panic"),
                }
                true
            }
            "facets" if ws.len() == 2 => {
                out.line(l);
                let r = catch_unwind(AssertUnwindSafe(|| {
                    let a = self.adf(ws[1])?;
                    let ac = a.ac.clone();
                    let c = a.facet_count(&ac);
                    Some(c.iter().map(|(m, (cfc, fc))| format!("{},{},{},{}", m.cmodels, m.models, cfc, fc)).collect::<Vec<_>>().join(" "))
                }));
                match r {
                    Ok(Some(s)) => out.line(&format!("= {}", if s.is_empty() { "-".into() } else { s })),
                    Ok(None) => out.line("= bad-request"),
                    Err(_) => out.line("= panic"),
                }
                true
            }
            "memo" if ws.len() == 2 => {
                #[cfg(adf_obdd_verif)]
                {
                    let n = self.n;
                    if n > 7 {
                        if let Some(a) = self.adf(ws[1]) {
                            out.line(&format!("# case adf n={n} nodes={}", a.bdd.nodes.len()));
                        }
                    }
                    // the audit works on truth tables: up to 7 statements
                    if let Some(a) = self.adf(ws[1]).filter(|_| n <= 7) {
                        let t = dump_nodes(&a.bdd);
                        let m = crate::fam_bdd::dump_tables(&a.bdd);
                        out.line(&format!("memocheckn {n} {t} {m}"));
                        out.line("= audit ok");
                        out.line(&format!("# case adf n={n} nodes={}", a.bdd.nodes.len()));
                    }
                }
                let _ = l;
                true
            }
            "memocheckn" => true,
            "completefirst" if ws.len() == 2 => {
                out.line(l);
                out.flush();
                // on an object of its own (the lazily evaluated filter leaves nodes behind)
                let p = ws[1].to_string();
                let r = catch_unwind(AssertUnwindSafe(|| -> Option<String> {
                    let parser = self.parser()?;
                    let first = match p.as_str() {
                        "bio" => BdAdf::from_parser(parser).complete().next(),
                        "hybrid" => BdAdf::from_parser(parser).hybrid_step_opt(false).complete().next(),
                        _ => Adf::from_parser(parser).complete().next(),
                    };
                    Some(first.map(|v| tfu(&v)).unwrap_or("-".into()))
                }));
                match r {
                    Ok(Some(s)) => out.line(&format!("~ first={s}")),
                    Ok(None) => out.line("~ bad-request"),
                    Err(_) => out.line("~ panic"),
                }
                true
            }
            "detrepro" if ws.len() == 4 => {
                out.line(l);
                out.flush();
                let r = catch_unwind(AssertUnwindSafe(|| self.detrepro(ws[1], ws[2], ws[3] == "stable")));
                match r {
                    Ok(Some(s)) => out.line(&format!("~ {s}")),
                    Ok(None) => out.line("~ bad-request"),
                    Err(_) => out.line("~ panic"),
                }
                true
            }
            "randrepro" if ws.len() == 5 => {
                out.line(l);
                out.flush();
                let r = catch_unwind(AssertUnwindSafe(|| self.randrepro(ws[1], ws[2], ws[3] == "stable", ws[4] == "warm")));
                match r {
                    Ok(Some(s)) => out.line(&format!("~ {s}")),
                    Ok(None) => out.line("~ bad-request"),
                    Err(_) => out.line("~ panic"),
                }
                true
            }
            _ => false,
        }
    }

    /// labels, text and variable order of one presentation (shared by `present` and `cli`)
    fn presentation(&self, perm: &[usize], sort: &str, lseed: u64, wseed: u64) -> Option<(Vec<String>, String, Vec<usize>)> {
        let n = self.n;
        let mut lr = Rng::new(lseed);
        let mut wr = Rng::new(wseed);
        let pool = ["a", "b", "x", "and", "andy", "or", "c", "neg1", "s", "ac", "iff", "xor", "imp", "10", "9", "2", "02", "B", "a10", "a9", "a2", "Zz", "v", "f",
            // long labels with long common prefixes (orders that look only at a prefix go wrong)
            "argument", "argument1", "argument10", "argument2", "statementA", "statementB", "statement10", "negative", "neg", "cv",
            // words that mean something to an expression parser downstream
            "true", "false", "True", "not", "0", "1"];
        // quoted labels (no blank, no comma, none of the characters biodivine rejects: D6)
        let qpool = ["gr\u{f6}\u{df}e", "it's", "x\\y", "a-b", "p.q", "\u{e4}", "A_1", "z#", "caf\u{e9}", "%"];
        let mut labels: Vec<String> = Vec::new();
        while labels.len() < n {
            let cand = if lr.chance(1, 6) {
                qpool[lr.usize(qpool.len())].to_string()
            } else if lr.chance(1, 4) {
                format!("{}{}", pool[lr.usize(pool.len())], lr.below(30))
            } else {
                pool[lr.usize(pool.len())].to_string()
            };
            if !labels.contains(&cand) {
                labels.push(cand);
            }
        }
        // how a label is written in the file
        let flabels: Vec<String> = labels
            .iter()
            .map(|l| if !l.is_empty() && l.chars().all(|c| c.is_ascii_alphanumeric()) { l.clone() } else { format!("\"{l}\"") })
            .collect();
        let ws = |wr: &mut Rng| -> String {
            match wr.below(5) {
                0 => " ".into(),
                1 => "\n".into(),
                2 => "  \t".into(),
                _ => String::new(),
            }
        };
        let mut txt = String::new();
        for &k in perm {
            if k < n {
                txt += &format!("s({}).{}", flabels[k], ws(&mut wr));
            } else {
                let body = text(&self.acs[k - n], &flabels);
                let body = if wr.bool() { body.replace(',', &format!("{},{}", ws(&mut wr), ws(&mut wr))) } else { body };
                txt += &format!("ac({}{},{}{}).{}", flabels[k - n], ws(&mut wr), ws(&mut wr), body, ws(&mut wr));
            }
        }
        let src: &'static str = Box::leak(txt.clone().into_boxed_str());
        let parser: &'static AdfParser<'static> = Box::leak(Box::new(AdfParser::default()));
        if parser.parse()(src).is_err() {
            return None;
        }
        match sort {
            "lx" => {
                parser.varsort_lexi();
            }
            "an" => {
                parser.varsort_alphanum();
            }
            _ => {}
        }
        let names = parser.var_container().names().read().ok()?.clone();
        let order: Vec<usize> = names.iter().map(|nm| labels.iter().position(|l| l == nm)).collect::<Option<_>>()?;
        Some((labels, txt, order))
    }

    #[allow(clippy::too_many_arguments)]
    fn cli(&mut self, mode: &str, sort: &str, flags: &str, heu: &str, perm: &str, lseed: &str, wseed: &str) -> Option<Vec<String>> {
        let n = self.n;
        let perm_v: Vec<usize> = perm.split(',').filter(|x| !x.is_empty()).map(|x| x.parse().ok()).collect::<Option<_>>()?;
        if perm_v.len() != 2 * n || n == 0 {
            return None;
        }
        let (labels, txt, order) = self.presentation(&perm_v, sort, lseed.parse().ok()?, wseed.parse().ok()?)?;
        let file = tmp_file("in.adf");
        std::fs::write(&file, &txt).ok()?;
        let mut args: Vec<String> = vec!["--lib".into(), mode.into()];
        match sort {
            "lx" => args.push("--lx".into()),
            "an" => args.push("--an".into()),
            _ => {}
        }
        let flag_list: Vec<&str> = if flags == "-" { vec![] } else { flags.split('+').collect() };
        for f in &flag_list {
            args.push(format!("--{f}"));
        }
        if heu != "-" {
            args.push("--heu".into());
            args.push(heu.into());
        }
        args.push(file.to_str()?.to_string());
        let argv: Vec<&str> = args.iter().map(|s| s.as_str()).collect();
        let (code, stdout) = run_cli(&argv);
        // canonical: every printed line mapped back to the ORIGINAL statement order
        let mut canon: Vec<String> = Vec::new();
        let mut wellformed = true; // strict: statements in variable order (compared with the model)
        let mut labelled = true; // what the property states: every statement once, under its own name
        for line in stdout.lines() {
            let mut cs = vec!['?'; n];
            let mut count = 0;
            for item in line.split(' ').filter(|x| !x.is_empty()) {
                let (v, rest) = item.split_at(1);
                let name = rest.strip_prefix('(').and_then(|x| x.strip_suffix(')'));
                match (name.and_then(|nm| labels.iter().position(|l| l == nm)), v) {
                    (Some(i), "T") | (Some(i), "F") | (Some(i), "u") => {
                        if count < n && order[count] != i {
                            wellformed = false; // not printed in variable order
                            if sort == "lx" {
                                labelled = false; // with --lx the reporting order is part of the property
                            }
                        }
                        if cs[i] != '?' {
                            labelled = false;
                        }
                        cs[i] = v.chars().next().unwrap();
                        count += 1;
                    }
                    _ => {
                        wellformed = false;
                        labelled = false;
                    }
                }
            }
            if count != n {
                wellformed = false;
                labelled = false;
            }
            if !line.ends_with(' ') {
                wellformed = false;
            }
            canon.push(cs.into_iter().collect());
        }
        let raw_seq = canon.clone();
        let unordered = flag_list.iter().any(|f| *f == "stmrew" || *f == "stmrew2");
        let mut seq = canon.clone();
        if unordered {
            seq.sort();
        }
        let mut set = canon;
        set.sort();
        let hex = |s: &str| s.bytes().map(|b| format!("{b:02x}")).collect::<String>();
        let j = |v: &[String]| if v.is_empty() { "-".to_string() } else { v.join(",") };
        // stdout exactly as printed, line by line (hex of the bytes of each line without its line break;
        // under the same discipline as `lines=`: a multiset when a rewriting flag is set)
        let mut printed: Vec<String> = stdout.split_terminator('\n').map(|l| if l.is_empty() { "e".to_string() } else { hex(l) }).collect();
        if unordered {
            printed.sort();
        }
        Some(vec![
            "= ran".into(),
            // last field: the exact TEXT of the file handed to the binary (hex of its UTF-8 bytes)
            format!(
                "clirun {mode} {sort} {flags} {heu} {perm} {} {} {}",
                order.iter().map(|x| x.to_string()).collect::<Vec<_>>().join(","),
                labels.iter().map(|l| hex(l)).collect::<Vec<_>>().join(","),
                hex(&txt)
            ),
            format!("= exit={code} wellformed={} lines={} printed={}", wellformed as u8, j(&seq), j(&printed)),
            format!("~ exit={code} set={}", j(&set)),
            // the documented order of the sections is judged by the specification too: the printed
            // lines, in order, are handed over and split into the sections' blocks there
            format!("clicheck {mode} {flags} {code} {} {}", labelled as u8, j(&raw_seq)),
            "~ ok".to_string(),
            format!("# case adf n={n} nodes=9 mode={mode} flags={}", flag_list.len()),
        ])
    }

    /// a definitely malformed file must be rejected: non-zero exit, nothing printed
    fn clibad(&mut self, mode: &str, kind: &str, seed: &str) -> Option<Vec<String>> {
        let n = self.n;
        if n == 0 {
            return None;
        }
        let perm: Vec<usize> = (0..2 * n).collect();
        let (_labels, txt, _order) = self.presentation(&perm, "none", seed.parse().ok()?, 7)?;
        let bad = match kind {
            "0" => txt.trim_end().strip_suffix('.')?.to_string(), // missing terminator
            "1" => format!("{txt} garbage"),                      // trailing garbage
            "2" => txt.replacen(").", ".", 1),                    // unbalanced bracket
            "3" => format!("{txt}ac(zz,and(zz))."),               // wrong arity
            "4" => format!("{txt}ac(zz,nand(zz,zz))."),           // unknown connective
            _ => format!(" {txt}"),                               // leading whitespace
        };
        let file = tmp_file("bad.adf");
        std::fs::write(&file, &bad).ok()?;
        let (code, stdout) = run_cli(&["--lib", mode, "--grd", "--com", "--stm", file.to_str()?]);
        let hex = |s: &str| s.bytes().map(|b| format!("{b:02x}")).collect::<String>();
        let printed: Vec<String> = stdout.split_terminator('\n').map(|l| if l.is_empty() { "e".to_string() } else { hex(l) }).collect();
        Some(vec![
            if code != 0 && stdout.is_empty() {
                "~ rejected".to_string()
            } else {
                format!("~ accepted exit={code} stdout={}", stdout.replace([' ', '\n'], "_"))
            },
            // the exact malformed TEXT handed to the binary (hex of its UTF-8 bytes) with what the binary did:
            // the text-level model (`CliM.runText`) is run on it, so that its rejection branches are executed
            // against the binary (flags are the fixed `--grd --com --stm` of this request)
            format!("clibadrun {mode} {}", hex(&bad)),
            format!("= exit={code} printed={}", if printed.is_empty() { "-".to_string() } else { printed.join(",") }),
        ])
    }

    /// `--export` never overwrites; `--import` of the exported state gives the same answers
    fn cliexport(&mut self) -> Option<Vec<String>> {
        let n = self.n;
        if n == 0 {
            return None;
        }
        let perm: Vec<usize> = (0..2 * n).collect();
        let (_labels, txt, _order) = self.presentation(&perm, "none", 11, 13)?;
        let file = tmp_file("exp.adf");
        std::fs::write(&file, &txt).ok()?;
        let json = tmp_file("exp.json");
        let _ = std::fs::remove_file(&json);
        // bystanders: existing files next to the export path whose names a writer might use for a
        // temporary or backup copy (exp.tmp, exp.json.tmp, exp.bak, exp.json~ ...): none may be touched
        let jstr = json.to_str()?.to_string();
        let stem = jstr.strip_suffix(".json")?.to_string();
        let bystanders: Vec<String> = vec![format!("{stem}.tmp"), format!("{jstr}.tmp"), format!("{stem}.bak"), format!("{jstr}~"), format!("{jstr}.new"), format!("{stem}.part")];
        for b in &bystanders {
            std::fs::write(b, format!("bystander {b}\n")).ok()?;
        }
        let (c1, direct) = run_cli(&["--lib", "naive", "--grd", "--com", "--stm", "--export", json.to_str()?, file.to_str()?]);
        let first = std::fs::read(&json).ok()?;
        // second export onto the existing file of a DIFFERENT framework must leave it untouched
        let other = tmp_file("other.adf");
        std::fs::write(&other, "s(zz).ac(zz,c(v)).").ok()?;
        let (c2, _) = run_cli(&["--lib", "naive", "--grd", "--export", json.to_str()?, other.to_str()?]);
        let second = std::fs::read(&json).ok()?;
        let (c3, imported) = run_cli(&["--lib", "naive", "--import", "--grd", "--com", "--stm", json.to_str()?]);
        // an existing file of length zero, and one with arbitrary other content, are existing files too
        let empty = tmp_file("empty.json");
        std::fs::write(&empty, "").ok()?;
        let (c4, _) = run_cli(&["--lib", "naive", "--grd", "--export", empty.to_str()?, file.to_str()?]);
        let empty_after = std::fs::read(&empty).ok()?;
        let notes = tmp_file("notes.json");
        std::fs::write(&notes, "precious notes\n").ok()?;
        let (c5, _) = run_cli(&["--lib", "naive", "--grd", "--export", notes.to_str()?, file.to_str()?]);
        let notes_after = std::fs::read(&notes).ok()?;
        let mut kept = empty_after.is_empty() && notes_after == b"precious notes\n";
        for b in &bystanders {
            kept = kept && std::fs::read(b).ok() == Some(format!("bystander {b}\n").into_bytes());
            let _ = std::fs::remove_file(b);
        }
        let _ = std::fs::remove_file(&empty);
        let _ = std::fs::remove_file(&notes);
        let verdict = if c1 == 0 && c2 == 0 && c3 == 0 && c4 == 0 && c5 == 0 && first == second && kept && direct == imported && !direct.is_empty() {
            "~ export ok".to_string()
        } else {
            format!(
                "~ export violated exits={c1},{c2},{c3},{c4},{c5} unchanged={} empty-and-foreign-files-kept={kept} same-answers={}",
                first == second,
                direct == imported
            )
        };
        // the input TEXT and the REAL exported file (hex of their bytes) for the model driver: it parses the file with
        // the verified JSON reader, compares the parsed state with the state the text-level CLI model builds from the
        // text, re-prints it in the parsed map orders (must give the file byte for byte) and runs its `--import` arm
        // on the file; the expected answer is the constant line below
        let hex = |b: &[u8]| b.iter().map(|x| format!("{x:02x}")).collect::<String>();
        Some(vec![
            verdict,
            format!("cliexportfile {} {}", hex(txt.as_bytes()), hex(&first)),
            "= parsed=1 names=1 mapping=1 nodes=1 ac=1 cache=1 file=1 import=1".to_string(),
        ])
    }

    /// one presentation of the current framework: permuted facts, sorting, renamed labels, layout
    fn present(&mut self, perm: &str, sort: &str, lseed: &str, wseed: &str) -> Option<Vec<String>> {
        let n = self.n;
        let perm: Vec<usize> = perm.split(',').filter(|x| !x.is_empty()).map(|x| x.parse().ok()).collect::<Option<_>>()?;
        if perm.len() != 2 * n {
            return None;
        }
        let mut lr = Rng::new(lseed.parse().ok()?);
        let mut wr = Rng::new(wseed.parse().ok()?);
        // distinct labels from several classes: plain, keyword-like, numeric (lx and an orders differ)
        let pool = ["a", "b", "x", "and", "andy", "or", "c", "neg1", "s", "ac", "iff", "xor", "imp", "10", "9", "2", "02", "B", "a10", "a9", "a2", "Zz", "v", "f",
            // long labels with long common prefixes (orders that look only at a prefix go wrong)
            "argument", "argument1", "argument10", "argument2", "statementA", "statementB", "statement10", "negative", "neg", "cv",
            // words that mean something to an expression parser downstream
            "true", "false", "True", "not", "0", "1"];
        let mut labels: Vec<String> = Vec::new();
        while labels.len() < n {
            let cand = if lr.chance(1, 4) {
                format!("{}{}", pool[lr.usize(pool.len())], lr.below(30))
            } else {
                pool[lr.usize(pool.len())].to_string()
            };
            if !labels.contains(&cand) {
                labels.push(cand);
            }
        }
        // quoted labels that contain the separator of the format (and collide when concatenated):
        // not together with lexicographic sorting, whose order check receives the labels comma separated
        let history = lr.below(3);
        let comma_labels = sort != "lx" && (2..=6).contains(&n) && lr.chance(1, 5);
        if comma_labels {
            labels = ["a,b", "c", "a", "b,c", "c,", ",a"][..n].iter().map(|x| x.to_string()).collect();
        }
        let flabels: Vec<String> = labels
            .iter()
            .map(|l| if l.chars().all(|c| c.is_ascii_alphanumeric()) { l.clone() } else { format!("\"{l}\"") })
            .collect();
        let ws = |wr: &mut Rng| -> String {
            match wr.below(5) {
                0 => " ".into(),
                1 => "\n".into(),
                2 => "  \t".into(),
                _ => String::new(),
            }
        };
        let mut txt = String::new();
        for &k in &perm {
            if k < n {
                txt += &format!("s({}).{}", flabels[k], ws(&mut wr));
            } else {
                let body = text(&self.acs[k - n], &flabels);
                // blanks are allowed around commas
                let body = if wr.bool() && !comma_labels { body.replace(',', &format!("{},{}", ws(&mut wr), ws(&mut wr))) } else { body };
                txt += &format!("ac({}{},{}{}).{}", flabels[k - n], ws(&mut wr), ws(&mut wr), body, ws(&mut wr));
            }
        }
        let src: &'static str = Box::leak(txt.into_boxed_str());
        let parser: &'static AdfParser<'static> = Box::leak(Box::new(AdfParser::default()));
        if parser.parse()(src).is_err() {
            // a well-formed presentation must be accepted: this is the property's business
            return Some(vec!["= parse-error".into(), "~ rejected".into()]);
        }
        // the parser object may have a history: frameworks built from it before it is sorted, or
        // sorted the other way first
        match history {
            0 => {
                let _ = Adf::from_parser(parser);
                let _ = BdAdf::from_parser(parser);
            }
            1 if sort != "none" => {
                if sort == "lx" {
                    parser.varsort_alphanum();
                } else {
                    parser.varsort_lexi();
                }
                let _ = Adf::from_parser(parser);
                let _ = BdAdf::from_parser(parser);
            }
            _ => {}
        }
        match sort {
            "lx" => {
                parser.varsort_lexi();
            }
            "an" => {
                parser.varsort_alphanum();
            }
            _ => {}
        }
        let names = parser.var_container().names().read().ok()?.clone();
        let order: Vec<usize> = names.iter().map(|nm| labels.iter().position(|l| l == nm)).collect::<Option<_>>()?;
        let mut adf = Adf::from_parser(parser);
        let bio = BdAdf::from_parser(parser);
        let back = |v: &[Term]| -> String {
            // canonical string in ORIGINAL statement order
            let mut cs = vec!['?'; n];
            for (pos, t) in v.iter().enumerate() {
                cs[order[pos]] = if !t.is_truth_value() { 'u' } else if t.is_true() { 'T' } else { 'F' };
            }
            cs.into_iter().collect()
        };
        let set = |vs: &[Vec<Term>]| -> String {
            let mut xs: Vec<String> = vs.iter().map(|v| back(v)).collect();
            xs.sort();
            if xs.is_empty() { "-".into() } else { xs.join(",") }
        };
        let ac = vec_s(&adf.ac);
        let g = adf.grounded();
        let c: Vec<Vec<Term>> = adf.complete().collect();
        let st: Vec<Vec<Term>> = adf.stable().collect();
        let (sd, rc) = crossbeam_channel::unbounded();
        adf.two_val_nogood_channel(Heuristic::Simple, sd);
        let tv: Vec<Vec<Term>> = rc.iter().collect();
        let bg = bio.grounded();
        let bc: Vec<Vec<Term>> = bio.complete().collect();
        let bs: Vec<Vec<Term>> = bio.stable().collect();
        // the single-formula rewriting variants under this presentation (own objects)
        // beyond 64 statements the single-formula rewriting (one conjunction of all equivalences statement <->
        // condition) can need minutes and gigabytes: a resource matter, not a statement of C10 - skipped there,
        // so that a slow run is not mistaken for a hang (DESIGN 12.6)
        let wide = n > 64;
        let (brew, brew0, nrew): (Vec<Vec<Term>>, Vec<Vec<Term>>, Vec<Vec<Term>>) = if wide {
            (Vec::new(), Vec::new(), Vec::new())
        } else {
            let bio2 = BdAdf::from_parser_with_stm_rewrite(parser);
            let brew = bio2.stable_bdd_representation();
            let brew0 = bio.stable_bdd_representation();
            let mut adf2 = Adf::from_parser(parser);
            let nrew = adf2.stable_bdd_representation(&bio2);
            (brew, brew0, nrew)
        };
        let rw = |vs: &[Vec<Term>]| -> String { if wide { "wide".to_string() } else { set(vs) } };
        let mut adf3 = bio.hybrid_step();
        let hpre: Vec<Vec<Term>> = adf3.stable_with_prefilter().collect();
        let hex = |s: &str| s.bytes().map(|b| format!("{b:02x}")).collect::<String>();
        let order_s = order.iter().map(|x| x.to_string()).collect::<Vec<_>>().join(",");
        let perm_s = perm.iter().map(|x| x.to_string()).collect::<Vec<_>>().join(",");
        Some(vec![
            "= ok".into(),
            "~ accepted".into(),
            format!("presented {perm_s} {order_s}"),
            format!("= {} ; {} ; {} ; {} ; {}", ac, vec_s(&g), vecs_s(&c), vecs_s(&st), vecs_s(&tv)),
            format!(
                "~ grounded={} complete={} stable={} twoval={} biogrounded={} biocomplete={} biostable={} biorew={} biorew2={} natrew={} hybpre={}",
                back(&g), set(&c), set(&st), set(&tv), back(&bg), set(&bc), set(&bs), rw(&brew0), rw(&brew), rw(&nrew), set(&hpre)
            ),
            format!(
                "ordercheck {sort} {perm_s} {} {order_s}",
                labels.iter().map(|l| hex(l)).collect::<Vec<_>>().join(",")
            ),
            "~ ok".into(),
            "= declaration-order ok".into(),
            format!("# case adf n={n} nodes={} sort={sort}", adf.bdd.nodes.len()),
        ])
    }

    fn semantics(&mut self, what: &str, p: &str) -> Option<(String, String)> {
        if p == "bio" {
            let bio = self.bio.as_ref()?;
            let (vs, ordered): (Vec<Vec<Term>>, bool) = match what {
                "grounded" => (vec![bio.grounded()], true),
                "complete" => (bio.complete().collect(), true),
                "stable" => (bio.stable().collect(), true),
                "stablerew" => (bio.stable_bdd_representation(), false),
                "stablerew2" => {
                    // the rewriting prepared at construction time
                    let parser = self.parser()?;
                    let b2 = BdAdf::from_parser_with_stm_rewrite(parser);
                    (b2.stable_bdd_representation(), false)
                }
                _ => return None,
            };
            let eq = if ordered { seq_s(&vs) } else { set_s(&vs) };
            let sp = if what == "complete" {
                format!("first={} set={}", vs.first().map(|v| tfu(v)).unwrap_or("-".into()), set_s(&vs))
            } else {
                set_s(&vs)
            };
            return Some((eq, sp));
        }
        if what == "stablerew" {
            // candidate order comes from biodivine, so this runs on its own object (the shared
            // object stays comparable handle for handle) and is compared as a multiset
            let parser = self.parser()?;
            let bd = BdAdf::from_parser(parser);
            let mut a = Adf::from_parser(parser);
            let vs = a.stable_bdd_representation(&bd);
            return Some((set_s(&vs), set_s(&vs)));
        }
        let a = self.adf(p)?;
        let vs: Vec<Vec<Term>> = match what {
            "grounded" => vec![a.grounded()],
            "complete" => a.complete().collect(),
            "stable" => a.stable().collect(),
            "stablepre" => a.stable_with_prefilter().collect(),
            "stmca" => a.stable_count_optimisation_heu_a().collect(),
            "stmcb" => a.stable_count_optimisation_heu_b().collect(),
            _ => return None,
        };
        let sp = if what == "complete" {
            format!("first={} set={}", vs.first().map(|v| tfu(v)).unwrap_or("-".into()), set_s(&vs))
        } else {
            set_s(&vs)
        };
        Some((vecs_s(&vs), sp))
    }

    /// `seed(S); Rand-search` twice on the used object and once on its twin: same answers, same order
    fn detrepro(&mut self, p: &str, heu: &str, stable: bool) -> Option<String> {
        let h = |x: &str| match x {
            "Simple" => Heuristic::Simple,
            "MinModMinPathsMaxVarImp" => Heuristic::MinModMinPathsMaxVarImp,
            _ => Heuristic::MinModMaxVarImpMinPaths,
        };
        let run = |a: &mut Adf| -> Vec<String> {
            let vs: Vec<Vec<Term>> = if stable {
                a.stable_nogood(h(heu)).collect()
            } else {
                let (sd, rc) = crossbeam_channel::unbounded();
                a.two_val_nogood_channel(h(heu), sd);
                rc.iter().collect()
            };
            vs.iter().map(|v| tfu(v)).collect()
        };
        let twin_name = format!("{p}fresh");
        let a = self.adf(p)?;
        let r1 = run(a);
        let r2 = run(a);
        let t = self.adf(&twin_name)?;
        let r3 = run(t);
        Some(format!("deterministic same-object={} twin={}", (r1 == r2) as u8, (r1 == r3) as u8))
    }

    fn randrepro(&mut self, p: &str, seed: &str, stable: bool, warm: bool) -> Option<String> {
        let s: u64 = seed.parse().ok()?;
        let mut bytes = [0u8; 32];
        for (i, b) in bytes.iter_mut().enumerate() {
            *b = (s >> ((i % 8) * 8)) as u8 ^ (i as u8).wrapping_mul(37);
        }
        let run = |a: &mut Adf| -> Vec<Vec<Term>> {
            if stable {
                a.stable_nogood(Heuristic::Rand).collect()
            } else {
                let (sd, rc) = crossbeam_channel::unbounded();
                a.two_val_nogood_channel(Heuristic::Rand, sd);
                rc.iter().collect()
            }
        };
        let twin_name = format!("{p}fresh");
        let a = self.adf(p)?;
        if warm {
            let _ = run(a);
        }
        a.seed(bytes);
        let r1 = run(a);
        a.seed(bytes);
        let r2 = run(a);
        let t = self.adf(&twin_name)?;
        t.seed(bytes);
        let r3 = run(t);
        let seq = |vs: &[Vec<Term>]| vs.iter().map(|v| tfu(v)).collect::<Vec<_>>();
        Some(format!(
            "reproducible same-object={} twin={} set={}",
            (seq(&r1) == seq(&r2)) as u8,
            (seq(&r1) == seq(&r3)) as u8,
            set_s(&r1)
        ))
    }

    fn ng(&mut self, channel: bool, p: &str, heu: &str, stable: bool) -> Option<(String, String)> {
        let nstat = self.n;
        // Rand is not modelled step by step: it runs on its own object
        let mut tmp: Option<Adf> = None;
        if heu.starts_with("Rand:") {
            let parser = self.parser()?;
            tmp = Some(Adf::from_parser(parser));
        }
        let a = match tmp.as_mut() {
            Some(t) => t,
            None => self.adf(p)?,
        };
        TRACE.lock().unwrap().clear();
        CALLS.store(0, Ordering::SeqCst);
        let mut modelled = true;
        let h: Heuristic = if let Some(seed) = heu.strip_prefix("Script:") {
            SCRIPT_SEED.store(seed.parse().ok()?, Ordering::SeqCst);
            Heuristic::Custom(&script_heu)
        } else if let Some(seed) = heu.strip_prefix("Rand:") {
            let s: u64 = seed.parse().ok()?;
            let mut bytes = [0u8; 32];
            bytes[..8].copy_from_slice(&s.to_le_bytes());
            a.seed(bytes);
            modelled = false;
            Heuristic::Rand
        } else {
            match heu {
                "Simple" => Heuristic::Simple,
                "MinModMinPathsMaxVarImp" => Heuristic::MinModMinPathsMaxVarImp,
                "MinModMaxVarImpMinPaths" => Heuristic::MinModMaxVarImpMinPaths,
                _ => return None,
            }
        };
        let vs: Vec<Vec<Term>> = if channel {
            // the capacity is a function of the request (the property holds for every channel the caller hands in):
            // unbounded with the consumer running afterwards, or bounded(1..3) with a consumer on another
            // thread that starts late and is slower than the search, so that sends meet a full channel
            let cap = splitmix(heu.len() as u64 * 31 + nstat as u64 * 7 + stable as u64) % 4;
            if cap == 0 {
                let (s, r) = crossbeam_channel::unbounded();
                if stable {
                    a.stable_nogood_channel(h, s);
                } else {
                    a.two_val_nogood_channel(h, s);
                }
                // the consumer loop ends only if the sender was dropped
                let mut got = Vec::new();
                for m in r {
                    got.push(m);
                }
                got
            } else {
                slow_consumer(cap as usize, |s| {
                    if stable {
                        a.stable_nogood_channel(h, s);
                    } else {
                        a.two_val_nogood_channel(h, s);
                    }
                })
            }
        } else if stable {
            a.stable_nogood(h).collect()
        } else {
            let (s, r) = crossbeam_channel::unbounded();
            a.two_val_nogood_channel(h, s);
            r.iter().collect()
        };
        let trace = TRACE.lock().unwrap().clone();
        let eq = if modelled {
            format!("{} # {}", vecs_s(&vs), vecs_s(&trace))
        } else {
            "-".to_string()
        };
        Some((eq, set_s(&vs)))
    }
}

/// runs `produce` with the sender of a bounded channel while a consumer on another thread starts late
/// and takes the messages slowly; returns what the consumer received until the channel was closed
pub fn slow_consumer<P: FnOnce(crossbeam_channel::Sender<Vec<Term>>)>(cap: usize, produce: P) -> Vec<Vec<Term>> {
    let (s, r) = crossbeam_channel::bounded::<Vec<Term>>(cap);
    std::thread::scope(|sc| {
        let consumer = sc.spawn(move || {
            std::thread::sleep(std::time::Duration::from_millis(3));
            let mut got = Vec::new();
            for m in r {
                got.push(m);
                if got.len() < 64 {
                    std::thread::sleep(std::time::Duration::from_micros(40));
                }
            }
            got
        });
        produce(s);
        consumer.join().unwrap_or_default()
    })
}

pub fn build_formula(bdd: &mut adf_bdd::obdd::Bdd, f: &F) -> Term {
    match f {
        F::Top => Term::TOP,
        F::Bot => Term::BOT,
        F::Atom(i) => bdd.variable(Var(*i)),
        F::Not(a) => {
            let x = build_formula(bdd, a);
            bdd.not(x)
        }
        F::And(a, b) => {
            let x = build_formula(bdd, a);
            let y = build_formula(bdd, b);
            bdd.and(x, y)
        }
        F::Or(a, b) => {
            let x = build_formula(bdd, a);
            let y = build_formula(bdd, b);
            bdd.or(x, y)
        }
        F::Imp(a, b) => {
            let x = build_formula(bdd, a);
            let y = build_formula(bdd, b);
            bdd.imp(x, y)
        }
        F::Xor(a, b) => {
            let x = build_formula(bdd, a);
            let y = build_formula(bdd, b);
            bdd.xor(x, y)
        }
        F::Iff(a, b) => {
            let x = build_formula(bdd, a);
            let y = build_formula(bdd, b);
            bdd.iff(x, y)
        }
    }
}


pub fn tmp_file(name: &str) -> std::path::PathBuf {
    let dir = std::env::var("VERIF_TMP").unwrap_or_else(|_| "/verif/build/tmp".to_string());
    let d = std::path::Path::new(&dir).join(format!("cli-{}", std::process::id()));
    let _ = std::fs::create_dir_all(&d);
    d.join(name)
}

/// runs the real `adf-bdd` binary (path in ADF_BDD_BIN); returns exit code (-1: killed) and stdout
pub fn run_cli(args: &[&str]) -> (i32, String) {
    let bin = std::env::var("ADF_BDD_BIN").unwrap_or_else(|_| "/verif/build/target/repo/debug/adf-bdd".to_string());
    match std::process::Command::new(bin).args(args).env_remove("RUST_LOG").stderr(std::process::Stdio::null()).output() {
        Ok(o) => (o.status.code().unwrap_or(-1), String::from_utf8_lossy(&o.stdout).to_string()),
        Err(_) => (-2, String::new()),
    }
}
