//! Parser family (C08): texts of the documented format and definitely-invalid mutations of them.
//!
//! Requests
//!   `parse <hex of the UTF-8 text | ->`            `= ok names=.. dict=.. acs=.. order=.. tt=.. | error | panic`
//!   `parsecheck <hex text> <error | facts:...>`    `~ <the same rendering of what the real parser did>`
//! The second request carries the generator's ground truth (the facts it pretty-printed, or
//! `error` for a mutation that is outside the grammar); the model driver answers it with the
//! rendering of that ground truth, computed by the specification-level functions.
//!
//! Rendering (identical in `Drv/Parser.lean`): labels as `L<hex of UTF-8>`, formulas in prefix form
//! `T F L.. not(x) and(x,y) or(x,y) imp(x,y) xor(x,y) iff(x,y)`, lists `,`/`;`-separated, `-` if empty.
//!   names  namelist in order                      dict   all entries of the map as label@index, by index
//!   acs    label:formula in file order            order  formula_order (index of each ac's label) | panic
//!   tt     per statement the truth table (hex) of the diagram `Adf::from_parser` stores for it
//!          (bit a = value under the assignment whose bit v is the value of statement v) | panic | skipped
use crate::{rng::Rng, Out};
use adf_bdd::adf::Adf;
use adf_bdd::parser::{AdfParser, Formula};
use std::panic::{catch_unwind, AssertUnwindSafe};

const TT_MAX_VARS: usize = 10;

// ---------------------------------------------------------------------------------------------
// generator side: AST, labels, pretty printer with layout

#[derive(Clone, Debug)]
enum F {
    Top,
    Bot,
    Atom(usize),
    Not(Box<F>),
    Bin(usize, Box<F>, Box<F>),
}
const BIN: [&str; 5] = ["and", "or", "imp", "xor", "iff"];

#[derive(Clone, Debug)]
enum Fact {
    S(usize),
    Ac(usize, F),
}

fn hex(s: &str) -> String {
    if s.is_empty() {
        return "-".to_string();
    }
    s.bytes().map(|b| format!("{b:02x}")).collect()
}
fn unhex(s: &str) -> Option<String> {
    if s == "-" {
        return Some(String::new());
    }
    if s.len() % 2 != 0 {
        return None;
    }
    let mut v = Vec::new();
    let b = s.as_bytes();
    for i in (0..b.len()).step_by(2) {
        v.push(u8::from_str_radix(std::str::from_utf8(&b[i..i + 2]).ok()?, 16).ok()?);
    }
    String::from_utf8(v).ok()
}
fn lab(s: &str) -> String {
    let h: String = s.bytes().map(|b| format!("{b:02x}")).collect();
    format!("L{h}")
}

fn is_bare(l: &str) -> bool {
    !l.is_empty() && l.chars().all(|c| c.is_ascii_alphanumeric())
}

const KEYWORDS: [&str; 25] = [
    "and", "andy", "c", "neg1", "s", "ac", "or", "iff", "xor", "imp", "neg", "v", "f", "cv", "cf", "nega", "orc", "sac", "true", "false", "not",
    "ands", "impl", "xors", "iffy",
];
const QUOTED: [&str; 26] = [
    "",
    " ",
    "a b",
    " a ",
    "a(b)",
    "(",
    ")",
    "))((",
    "a,b",
    ",",
    ".",
    "s(a).",
    "ac(a,c(v)).",
    "and(a,b)",
    "c(v)",
    "neg(x)",
    "a_b",
    "a-b",
    "\t",
    "line\nbreak",
    "\u{e4}\u{f6}\u{fc}",
    "\u{3bb}x",
    "\u{1f600}",
    "x\u{301}",
    "'",
    "\\",
];

/// (label, class)
fn gen_label(r: &mut Rng) -> (String, &'static str) {
    match r.below(10) {
        0..=2 => {
            let n = r.range(1, 4);
            let s: String = (0..n)
                .map(|i| {
                    let k = r.below(if i == 0 { 52 } else { 62 });
                    match k {
                        0..=25 => (b'a' + k as u8) as char,
                        26..=51 => (b'A' + (k - 26) as u8) as char,
                        _ => (b'0' + (k - 52) as u8) as char,
                    }
                })
                .collect();
            (s, "alnum")
        }
        3..=5 => (KEYWORDS[r.usize(KEYWORDS.len())].to_string(), "keyword"),
        6 => {
            let n = r.range(1, 3);
            ((0..n).map(|_| (b'0' + r.below(10) as u8) as char).collect(), "numeric")
        }
        _ => (QUOTED[r.usize(QUOTED.len())].to_string(), "quoted"),
    }
}

fn gen_formula(r: &mut Rng, depth: usize, nlabels: usize) -> F {
    let leaf = depth == 0 || r.chance(3, 10);
    if leaf {
        match r.below(8) {
            0 => F::Top,
            1 => F::Bot,
            _ => F::Atom(r.usize(nlabels)),
        }
    } else {
        match r.below(7) {
            0 | 1 => F::Not(Box::new(gen_formula(r, depth - 1, nlabels))),
            k => F::Bin(
                (k - 2) as usize,
                Box::new(gen_formula(r, depth - 1, nlabels)),
                Box::new(gen_formula(r, depth - 1, nlabels)),
            ),
        }
    }
}

fn ws(r: &mut Rng) -> String {
    match r.below(10) {
        0..=4 => String::new(),
        5 => " ".into(),
        6 => "\n".into(),
        7 => "\t".into(),
        8 => "\r\n".into(),
        _ => {
            let n = r.range(2, 5);
            (0..n).map(|_| [' ', '\t', '\r', '\n'][r.usize(4)]).collect()
        }
    }
}

struct Printer<'a> {
    labels: &'a [String],
    /// 0 = no layout at all, 1 = random blanks where the grammar allows them
    layout: u8,
}
impl Printer<'_> {
    fn ws(&self, r: &mut Rng) -> String {
        if self.layout == 0 {
            String::new()
        } else {
            ws(r)
        }
    }
    fn label(&self, r: &mut Rng, i: usize, out: &mut String) {
        let l = &self.labels[i];
        if is_bare(l) && !r.chance(1, 5) {
            out.push_str(l);
        } else {
            out.push('"');
            out.push_str(l);
            out.push('"');
        }
    }
    fn formula(&self, r: &mut Rng, f: &F, out: &mut String) {
        match f {
            F::Top => out.push_str("c(v)"),
            F::Bot => out.push_str("c(f)"),
            F::Atom(i) => self.label(r, *i, out),
            F::Not(a) => {
                out.push_str("neg(");
                self.formula(r, a, out);
                out.push(')');
            }
            F::Bin(k, a, b) => {
                out.push_str(BIN[*k]);
                out.push('(');
                self.formula(r, a, out);
                out.push_str(&self.ws(r));
                out.push(',');
                out.push_str(&self.ws(r));
                self.formula(r, b, out);
                out.push(')');
            }
        }
    }
    fn fact(&self, r: &mut Rng, f: &Fact, out: &mut String) {
        match f {
            Fact::S(i) => {
                out.push_str("s(");
                self.label(r, *i, out);
                out.push_str(").");
            }
            Fact::Ac(i, f) => {
                out.push_str("ac(");
                self.label(r, *i, out);
                out.push_str(&self.ws(r));
                out.push(',');
                out.push_str(&self.ws(r));
                self.formula(r, f, out);
                out.push_str(").");
            }
        }
        out.push_str(&self.ws(r));
    }
}

fn render_f(labels: &[String], f: &F) -> String {
    match f {
        F::Top => "T".into(),
        F::Bot => "F".into(),
        F::Atom(i) => lab(&labels[*i]),
        F::Not(a) => format!("not({})", render_f(labels, a)),
        F::Bin(k, a, b) => format!("{}({},{})", BIN[*k], render_f(labels, a), render_f(labels, b)),
    }
}

/// the generator's ground truth, as the facts it is about to print
fn render_facts(labels: &[String], facts: &[Fact]) -> String {
    let v: Vec<String> = facts
        .iter()
        .map(|f| match f {
            Fact::S(i) => format!("s:{}", lab(&labels[*i])),
            Fact::Ac(i, f) => format!("a:{}:{}", lab(&labels[*i]), render_f(labels, f)),
        })
        .collect();
    format!("facts:{}", v.join(";"))
}

struct Valid {
    text: String,
    labels: Vec<String>,
    facts: Vec<Fact>,
    class: String,
}

fn gen_valid(r: &mut Rng, maxn: usize) -> Valid {
    let n = r.range(1, maxn);
    let mut labels: Vec<String> = Vec::new();
    let mut classes: Vec<&'static str> = Vec::new();
    while labels.len() < n {
        let (l, c) = gen_label(r);
        if !labels.contains(&l) {
            labels.push(l);
            if !classes.contains(&c) {
                classes.push(c);
            }
        }
    }
    // one extra label that is (mostly) not declared: conditions for / atoms of undeclared labels
    let undeclared = r.chance(1, 12);
    let natoms = if undeclared {
        let (l, _) = gen_label(r);
        if !labels.contains(&l) {
            labels.push(l);
        }
        labels.len()
    } else {
        n
    };
    let mut facts: Vec<Fact> = Vec::new();
    for i in 0..n {
        facts.push(Fact::S(i));
        if r.chance(1, 10) {
            facts.push(Fact::S(i)); // declared twice
        }
        if !r.chance(1, 10) {
            let d = r.range(0, 4);
            facts.push(Fact::Ac(i, gen_formula(r, d, natoms)));
            if r.chance(1, 12) {
                let d = r.range(0, 2);
                facts.push(Fact::Ac(i, gen_formula(r, d, natoms))); // condition given twice
            }
        }
    }
    if undeclared && r.chance(1, 2) {
        facts.push(Fact::Ac(labels.len() - 1, gen_formula(r, 1, natoms)));
    }
    // fact order: as is (s before its ac), all s first, or fully shuffled
    match r.below(3) {
        0 => {}
        1 => {
            let (mut a, b): (Vec<Fact>, Vec<Fact>) = facts.into_iter().partition(|f| matches!(f, Fact::S(_)));
            a.extend(b);
            facts = a;
        }
        _ => {
            for i in (1..facts.len()).rev() {
                facts.swap(i, r.usize(i + 1));
            }
        }
    }
    let p = Printer { labels: &labels, layout: if r.chance(1, 4) { 0 } else { 1 } };
    let mut text = String::new();
    for f in &facts {
        p.fact(r, f, &mut text);
    }
    classes.sort_unstable();
    Valid { text, labels, facts, class: classes.join("+") }
}

// ---------------------------------------------------------------------------------------------
// malformed stream: mutations that leave the grammar for certain

/// byte positions of the text that are outside quoted labels (the quotes themselves excluded);
/// all structural characters are ASCII, so byte positions are character boundaries there
fn outside(text: &str) -> Vec<bool> {
    let mut inq = false;
    text.bytes()
        .map(|b| {
            if b == b'"' {
                inq = !inq;
                false
            } else {
                !inq
            }
        })
        .collect()
}

/// byte positions at which a fact begins (the first one, and every one whose preceding
/// non-blank byte is a terminator outside quotes)
fn fact_starts(text: &str) -> Vec<usize> {
    let o = outside(text);
    let b = text.as_bytes();
    let mut v = Vec::new();
    let mut after_dot = true;
    for i in 0..b.len() {
        if !o[i] {
            after_dot = false;
            continue;
        }
        if b[i].is_ascii_whitespace() {
            continue;
        }
        if after_dot && text.is_char_boundary(i) {
            v.push(i);
        }
        after_dot = b[i] == b'.';
    }
    v
}

fn positions(text: &str, pred: impl Fn(u8) -> bool) -> Vec<usize> {
    let o = outside(text);
    text.bytes().enumerate().filter(|(i, b)| o[*i] && pred(*b)).map(|(i, _)| i).collect()
}

fn is_kw_char(b: u8) -> bool {
    b.is_ascii_alphanumeric()
}

/// Every mutation below yields a text outside the grammar; the reason is given at each case.
/// Returns (text, kind).
fn mutate(r: &mut Rng, v: &Valid) -> (String, &'static str) {
    let t = &v.text;
    let b = t.as_bytes();
    for _ in 0..50 {
        match r.below(17) {
            0 => {
                // drop one bracket outside quotes: brackets outside quoted labels are balanced in
                // every text of the grammar (C08.accepted_balanced), after the deletion they are not
                let ps = positions(t, |c| c == b'(' || c == b')');
                if ps.is_empty() {
                    continue;
                }
                let p = ps[r.usize(ps.len())];
                return (format!("{}{}", &t[..p], &t[p + 1..]), "drop-bracket");
            }
            1 => {
                // insert one bracket outside quotes: unbalanced for the same reason
                let o = outside(t);
                // positions that are certainly outside a quoted label: in front of a character that
                // is outside, or at the end of the text
                let ps: Vec<usize> = (0..=b.len()).filter(|&i| i == b.len() || o[i]).collect();
                let p = ps[r.usize(ps.len())];
                let c = if r.bool() { "(" } else { ")" };
                return (format!("{}{}{}", &t[..p], c, &t[p..]), "insert-bracket");
            }
            2 => {
                // drop the terminator of the last fact: an accepted text ends in `.` and blanks
                // (C08.accepted_ends_with_dot)
                let ps = positions(t, |c| c == b'.');
                let p = *ps.last().unwrap();
                return (format!("{}{}", &t[..p], &t[p + 1..]), "drop-last-terminator");
            }
            3 => {
                // drop the terminator of an inner fact: `)` closing a fact must be followed by `.`
                let ps = positions(t, |c| c == b'.');
                if ps.len() < 2 {
                    continue;
                }
                let p = ps[r.usize(ps.len() - 1)];
                return (format!("{}{}", &t[..p], &t[p + 1..]), "drop-inner-terminator");
            }
            4 => {
                // trailing garbage that is not a fact
                let g = ["wee", "x", " wee", "s(a)", ")", "(", ",", ".", "ac(a,b)", "\"", "s", "%", "s(a). x", "\u{e4}", "c(v)."];
                return (format!("{}{}", t, g[r.usize(g.len())]), "trailing-garbage");
            }
            5 => {
                // leading blank: a file starts with the tag `s` or `ac`
                let g = [" ", "\n", "\t", "\r\n", "  "];
                return (format!("{}{}", g[r.usize(g.len())], t), "leading-whitespace");
            }
            6 => {
                // wrong arity of a connective: replace one `KW(` group's top-level argument list.
                // one argument too few: delete a top-level comma together with the argument after it;
                // realised textually as: delete from a comma (outside quotes) to the bracket closing its group
                let ps = positions(t, |c| c == b',');
                if ps.is_empty() {
                    continue;
                }
                let p = ps[r.usize(ps.len())];
                let o = outside(t);
                let mut depth = 0i32;
                let mut q = p + 1;
                while q < b.len() {
                    if o[q] && b[q] == b'(' {
                        depth += 1;
                    } else if o[q] && b[q] == b')' {
                        if depth == 0 {
                            break;
                        }
                        depth -= 1;
                    }
                    q += 1;
                }
                // `KW(x)` with a binary KW or `ac(x)`: the group now has no top-level comma
                return (format!("{}{}", &t[..p], &t[q..]), "arity-too-few");
            }
            7 => {
                // one argument too many: duplicate `,arg` in front of a closing bracket
                let ps = positions(t, |c| c == b')');
                let p = ps[r.usize(ps.len())];
                let extra = [",c(v)", ",a", " , x", ",\"q\""];
                return (format!("{}{}{}", &t[..p], extra[r.usize(extra.len())], &t[p..]), "arity-too-many");
            }
            8 => {
                // unknown connective / wrong case: `(` may only follow s, ac, c, neg, and, or, imp, xor, iff
                let ps = positions(t, |c| c == b'(');
                let p = ps[r.usize(ps.len())];
                let mut st = p;
                while st > 0 && is_kw_char(b[st - 1]) {
                    st -= 1;
                }
                let kw = &t[st..p];
                let repl = match kw {
                    "s" => ["S", "st", "statement", "x"][r.usize(4)],
                    "ac" => ["AC", "Ac", "a", "acc"][r.usize(4)],
                    "c" => ["C", "const", "k", "cc"][r.usize(4)],
                    "neg" => ["not", "NEG", "ne", "negg"][r.usize(4)],
                    _ => ["nand", "AND", "And", "equiv", "nor", "implies", "xo", "if"][r.usize(8)],
                };
                return (format!("{}{}{}", &t[..st], repl, &t[p..]), "unknown-connective");
            }
            9 => {
                // blank where the grammar has none: after `(`, before `)`, before `(`, before the terminator
                let ps = positions(t, |c| c == b'(' || c == b')' || c == b'.');
                let p = ps[r.usize(ps.len())];
                let at = if b[p] == b'(' && r.bool() { p + 1 } else { p };
                let g = [" ", "\n", "\t"][r.usize(3)];
                return (format!("{}{}{}", &t[..at], g, &t[at..]), "misplaced-whitespace");
            }
            10 => {
                // no fact at all
                return (["", " ", "\n", "  \n"][r.usize(4)].to_string(), "empty");
            }
            11 => {
                // drop one quote: the number of `"` is even in every text of the grammar
                let ps: Vec<usize> = b.iter().enumerate().filter(|(_, c)| **c == b'"').map(|(i, _)| i).collect();
                if ps.is_empty() {
                    continue;
                }
                let p = ps[r.usize(ps.len())];
                return (format!("{}{}", &t[..p], &t[p + 1..]), "drop-quote");
            }
            12 => {
                // comma replaced by a blank / doubled
                let ps = positions(t, |c| c == b',');
                if ps.is_empty() {
                    continue;
                }
                let p = ps[r.usize(ps.len())];
                let repl = if r.bool() { " " } else { ",," };
                return (format!("{}{}{}", &t[..p], repl, &t[p + 1..]), "comma");
            }
            13 => {
                // character that may not occur in an unquoted label, put into one
                let ps: Vec<usize> =
                    positions(t, |c| c == b')').into_iter().filter(|&p| p > 0 && is_kw_char(b[p - 1])).collect();
                if ps.is_empty() {
                    continue;
                }
                let p = ps[r.usize(ps.len())];
                let g = ["_", "-", "\u{e4}", "'", "+", "\u{3bb}"][r.usize(6)];
                return (format!("{}{}{}", &t[..p], g, &t[p..]), "illegal-label-char");
            }
            14 => {
                // terminator doubled or replaced
                let ps = positions(t, |c| c == b'.');
                let p = ps[r.usize(ps.len())];
                let repl = ["..", ";", ",", ":"][r.usize(4)];
                return (format!("{}{}{}", &t[..p], repl, &t[p + 1..]), "bad-terminator");
            }
            15 => {
                // constant with a wrong argument
                let bad = ["c(t)", "c()", "c(V)", "c(vf)", "c(\"v\")", "c(1)"][r.usize(6)];
                if let Some(p) = t.find("c(v)").or_else(|| t.find("c(f)")) {
                    if outside(t)[p] && (p == 0 || !is_kw_char(b[p - 1])) {
                        return (format!("{}{}{}", &t[..p], bad, &t[p + 4..]), "bad-constant");
                    }
                }
                continue;
            }
            _ => {
                // an empty argument: `neg()`, `and(,x)`, `s()`
                let ps = positions(t, |c| c == b'(');
                let p = ps[r.usize(ps.len())];
                let o = outside(t);
                let mut depth = 0i32;
                let mut q = p + 1;
                while q < b.len() {
                    if o[q] && b[q] == b'(' {
                        depth += 1;
                    } else if o[q] && (b[q] == b')' || b[q] == b',' && depth == 0) {
                        if depth == 0 {
                            break;
                        }
                        depth -= 1;
                    }
                    q += 1;
                }
                return (format!("{}{}", &t[..p + 1], &t[q..]), "empty-argument");
            }
        }
    }
    (format!("{} wee", t), "trailing-garbage")
}

/// single-character deletion / insertion / replacement without ground truth (model decides)
fn fuzz(r: &mut Rng, v: &Valid) -> String {
    let cs: Vec<char> = v.text.chars().collect();
    let alphabet = ['(', ')', ',', '.', '"', ' ', '\n', 's', 'a', 'c', 'v', 'f', 'n', 'x', '1', '_', '\u{e4}'];
    let mut out: Vec<char> = cs.clone();
    // truncations: anywhere, and in particular right where a formula or label must start
    if !cs.is_empty() && r.chance(1, 3) {
        let after: Vec<usize> = cs.iter().enumerate().filter(|(_, c)| **c == '(' || **c == ',').map(|(i, _)| i + 1).collect();
        let p = if !after.is_empty() && r.bool() { after[r.usize(after.len())] } else { r.usize(cs.len() + 1) };
        let mut t: String = cs[..p].iter().collect();
        if r.chance(1, 4) {
            t.push(if r.bool() { ' ' } else { '\n' });
        }
        return t;
    }
    let k = r.range(1, 2);
    for _ in 0..k {
        if out.is_empty() {
            out.push(alphabet[r.usize(alphabet.len())]);
            continue;
        }
        let p = r.usize(out.len());
        match r.below(3) {
            0 => {
                out.remove(p);
            }
            1 => out.insert(p, alphabet[r.usize(alphabet.len())]),
            _ => out[p] = alphabet[r.usize(alphabet.len())],
        }
    }
    out.into_iter().collect()
}

pub fn gen(r: &mut Rng, cases: usize, size: usize, extra: &[String], out: &mut Out) {
    let maxn = if size == 0 { 6 } else { size };
    let only_valid = extra.iter().any(|e| e == "valid");
    let only_malformed = extra.iter().any(|e| e == "malformed");
    let only_fuzz = extra.iter().any(|e| e == "fuzz");
    for case in 0..cases {
        out.line(&format!("case parser-{case}"));
        let v = gen_valid(r, maxn);
        let pick = r.below(20);
        let kind = if only_valid {
            0
        } else if only_malformed {
            1
        } else if only_fuzz {
            2
        } else if pick < 10 {
            0
        } else if pick < 17 {
            1
        } else {
            2
        };
        match kind {
            0 => {
                out.line(&format!("parse {}", hex(&v.text)));
                out.line(&format!("parsecheck {} {}", hex(&v.text), render_facts(&v.labels, &v.facts)));
                // the same text fed to ONE parser object in several calls, cut where a fact begins
                let starts = fact_starts(&v.text);
                if starts.len() >= 2 && r.chance(1, 2) {
                    let mut cuts: Vec<usize> = Vec::new();
                    for _ in 0..r.range(1, 2) {
                        let c = starts[1 + r.usize(starts.len() - 1)];
                        if !cuts.contains(&c) {
                            cuts.push(c);
                        }
                    }
                    cuts.sort_unstable();
                    let mut chunks: Vec<String> = Vec::new();
                    let mut prev = 0;
                    for c in cuts {
                        chunks.push(hex(&v.text[prev..c]));
                        prev = c;
                    }
                    chunks.push(hex(&v.text[prev..]));
                    out.line(&format!("parsechunks {} {}", render_facts(&v.labels, &v.facts), chunks.join(" ")));
                }
                out.line(&format!(
                    "# case parser kind=valid len={} facts={} labels={}",
                    v.text.len(),
                    v.facts.len(),
                    v.class
                ));
            }
            1 => {
                let (t, m) = mutate(r, &v);
                out.line(&format!("parse {}", hex(&t)));
                out.line(&format!("parsecheck {} error", hex(&t)));
                out.line(&format!(
                    "# case parser kind=malformed len={} facts={} labels={} mut={}",
                    t.len(),
                    v.facts.len(),
                    v.class,
                    m
                ));
            }
            _ => {
                let t = fuzz(r, &v);
                out.line(&format!("parse {}", hex(&t)));
                out.line(&format!("# case parser kind=fuzz len={} facts={} labels={}", t.len(), v.facts.len(), v.class));
            }
        }
    }
}

// ---------------------------------------------------------------------------------------------
// implementation side: what the real parser did with a text

fn render_formula(f: &Formula) -> String {
    match f {
        Formula::Top => "T".into(),
        Formula::Bot => "F".into(),
        Formula::Atom(a) => lab(a),
        Formula::Not(a) => format!("not({})", render_formula(a)),
        Formula::And(a, b) => format!("and({},{})", render_formula(a), render_formula(b)),
        Formula::Or(a, b) => format!("or({},{})", render_formula(a), render_formula(b)),
        Formula::Imp(a, b) => format!("imp({},{})", render_formula(a), render_formula(b)),
        Formula::Xor(a, b) => format!("xor({},{})", render_formula(a), render_formula(b)),
        Formula::Iff(a, b) => format!("iff({},{})", render_formula(a), render_formula(b)),
    }
}

/// a list of Rust `Debug`-formatted string literals `"a", "b\"c"` followed by `] } }` up to the end
fn parse_debug_strings(s: &str) -> Option<Vec<String>> {
    let cs: Vec<char> = s.chars().collect();
    let mut i = 0;
    let mut res = Vec::new();
    loop {
        if i < cs.len() && cs[i] == ']' {
            let rest: String = cs[i..].iter().collect();
            return if rest == "] } }" { Some(res) } else { None };
        }
        if i >= cs.len() || cs[i] != '"' {
            return None;
        }
        i += 1;
        let mut cur = String::new();
        loop {
            if i >= cs.len() {
                return None;
            }
            match cs[i] {
                '"' => {
                    i += 1;
                    break;
                }
                '\\' => {
                    i += 1;
                    match *cs.get(i)? {
                        'n' => cur.push('\n'),
                        't' => cur.push('\t'),
                        'r' => cur.push('\r'),
                        '0' => cur.push('\0'),
                        '\\' => cur.push('\\'),
                        '"' => cur.push('"'),
                        '\'' => cur.push('\''),
                        'u' => {
                            if *cs.get(i + 1)? != '{' {
                                return None;
                            }
                            let mut j = i + 2;
                            let mut v = 0u32;
                            while *cs.get(j)? != '}' {
                                v = v * 16 + cs[j].to_digit(16)?;
                                j += 1;
                            }
                            cur.push(char::from_u32(v)?);
                            i = j;
                        }
                        _ => return None,
                    }
                    i += 1;
                }
                c => {
                    cur.push(c);
                    i += 1;
                }
            }
        }
        res.push(cur);
        if i + 1 < cs.len() && cs[i] == ',' && cs[i + 1] == ' ' {
            i += 2;
        }
    }
}

/// `formulaname` is private; it is read off the derived `Debug` output of the parser object
/// (last field, a `RefCell<Vec<String>>`)
fn formula_names(parser: &AdfParser) -> Option<Vec<String>> {
    let d = format!("{:?}", parser);
    let marker = "formulaname: RefCell { value: [";
    let mut from = 0;
    while let Some(p) = d[from..].find(marker) {
        let start = from + p + marker.len();
        if let Some(v) = parse_debug_strings(&d[start..]) {
            return Some(v);
        }
        from = from + p + 1;
    }
    None
}

fn tt_hex(bits: &[bool]) -> String {
    let mut s = String::new();
    let n = bits.len().div_ceil(4);
    for d in (0..n).rev() {
        let mut v = 0u32;
        for k in 0..4 {
            if bits.get(4 * d + k).copied().unwrap_or(false) {
                v |= 1 << k;
            }
        }
        if v != 0 || !s.is_empty() {
            s.push(char::from_digit(v, 16).unwrap());
        }
    }
    if s.is_empty() {
        "0".into()
    } else {
        s
    }
}

fn join_or_dash(v: Vec<String>, sep: &str) -> String {
    if v.is_empty() {
        "-".into()
    } else {
        v.join(sep)
    }
}

/// runs the real parser on the text and renders everything that can be seen of the result
pub fn observe(text: &str) -> String {
    observe_chunks(&[text])
}

/// the same for a text handed to one parser object in several `parse()` calls
pub fn observe_chunks(chunks: &[&str]) -> String {
    let r = catch_unwind(AssertUnwindSafe(|| {
        let parser = AdfParser::default();
        let mut rest = 0;
        for text in chunks {
            rest = match parser.parse()(text) {
                Ok((rest, ())) => rest.len(),
                Err(_) => return "error".to_string(),
            };
            if rest != 0 && chunks.len() > 1 {
                return "error".to_string();
            }
        }
        let vc = parser.var_container();
        let names: Vec<String> = vc.names().read().expect("names").clone();
        let mut dict: Vec<(usize, String)> =
            vc.mappings().read().expect("dict").iter().map(|(k, v)| (*v, k.clone())).collect();
        dict.sort();
        let mut formulae = Vec::new();
        let mut i = 0;
        while let Some(f) = parser.ac_at(i) {
            formulae.push(render_formula(&f));
            i += 1;
        }
        let fnames = formula_names(&parser);
        let (acs, order) = match &fnames {
            Some(ns) if ns.len() == formulae.len() => {
                let acs = join_or_dash(ns.iter().zip(formulae.iter()).map(|(n, f)| format!("{}:{}", lab(n), f)).collect(), ";");
                let ord: Option<Vec<String>> = ns.iter().map(|n| parser.dict_value(n).map(|v| v.to_string())).collect();
                (acs, ord.map(|o| join_or_dash(o, ",")).unwrap_or_else(|| "panic".into()))
            }
            _ => ("unobservable:".to_string() + &formulae.join(";"), "unobservable".to_string()),
        };
        // what `Adf::from_parser` makes of it (uses the crate-private `formula_order`)
        let n = parser.dict_size();
        let tt = if n > TT_MAX_VARS {
            "skipped".to_string()
        } else {
            match catch_unwind(AssertUnwindSafe(|| {
                let adf = Adf::from_parser(&parser);
                let mut tts = Vec::new();
                for t in adf.ac.iter() {
                    let mut bits = Vec::with_capacity(1 << n);
                    for a in 0..(1usize << n) {
                        let mut cur = *t;
                        let mut steps = 0;
                        while !cur.is_truth_value() && steps <= adf.bdd.nodes.len() {
                            let node = adf.bdd.nodes[cur.value()];
                            let v = node.var().value();
                            cur = if v < 64 && (a >> v) & 1 == 1 { node.hi() } else { node.lo() };
                            steps += 1;
                        }
                        bits.push(cur.is_true());
                    }
                    tts.push(tt_hex(&bits));
                }
                join_or_dash(tts, ",")
            })) {
                Ok(s) => s,
                Err(_) => "panic".to_string(),
            }
        };
        format!(
            "ok names={} dict={} acs={} order={} tt={}{}",
            join_or_dash(names.iter().map(|n| lab(n)).collect(), ","),
            join_or_dash(dict.iter().map(|(v, k)| format!("{}@{}", lab(k), v)).collect(), ","),
            acs,
            order,
            tt,
            if rest > 0 { format!(" rest={rest}") } else { String::new() }
        )
    }));
    r.unwrap_or_else(|_| "panic".to_string())
}

pub fn exec(ws: &[&str], l: &str, out: &mut Out) -> bool {
    match ws[0] {
        "parse" if ws.len() == 2 => {
            out.line(l);
            out.flush();
            match unhex(ws[1]) {
                Some(text) => {
                    let o = observe(&text);
                    out.line(&format!("= {o}"));
                    // "the parser does not panic" is part of the property, whatever the text
                    out.line(if o == "panic" { "~ panic" } else { "~ nopanic" });
                }
                None => out.line("= bad-request"),
            }
            true
        }
        "parsechunks" if ws.len() >= 3 => {
            out.line(l);
            out.flush();
            let texts: Option<Vec<String>> = ws[2..].iter().map(|h| unhex(h)).collect();
            match texts {
                Some(ts) => {
                    let refs: Vec<&str> = ts.iter().map(|s| s.as_str()).collect();
                    let o = observe_chunks(&refs);
                    out.line(&format!("= {o}"));
                    out.line(&format!("~ {o}"));
                }
                None => out.line("= bad-request"),
            }
            true
        }
        "parsecheck" if ws.len() == 3 => {
            out.line(l);
            out.flush();
            match unhex(ws[1]) {
                Some(text) => out.line(&format!("~ {}", observe(&text))),
                None => out.line("~ bad-request"),
            }
            true
        }
        _ => false,
    }
}
