//! Nogood-store family (C18): histories of `add_ng` / `set_dup_elem` on one `NoGoodStore`,
//! queried with `conclusions` and `conclusion_closure`.
//!
//! requests                        implementation's answers
//! `ngnew N`                       -
//! `ngmode None|Equiv|Subsume`     -
//! `ngadd <vec>`                   `= ok`, then `nogoodcheck store <dump>` / `~ ok`
//! `ngconcl <vec>`                 `= conflict` | `= <vec> <update flag>`, then `nogoodcheck concl <vec> <answer>` / `~ ok`
//! `ngclosure <vec>`               `= inconsistent` | `= noupdate` | `= update <vec>`, then `nogoodcheck closure …` / `~ ok`
//! `ngdump`                        `= [bucket0|bucket1|…]`
//! `ngfinish`                      the statistics line of the case
//!
//! `<vec>`: `T`/`F`/`u` per variable, `-` for width 0. The `nogoodcheck` requests hand the
//! implementation's own answer to the executable specification of the model driver, which
//! answers `~ ok` or `~ violated <clauses>`.
use crate::{rng::Rng, Out};
use adf_bdd::datatypes::Term;
use adf_bdd::nogoods::{DuplicateElemination, NoGood, NoGoodStore};
use std::panic::{catch_unwind, AssertUnwindSafe};

const MODES: [&str; 3] = ["None", "Equiv", "Subsume"];

fn show(v: &[u8]) -> String {
    if v.is_empty() {
        "-".to_string()
    } else {
        v.iter().map(|x| match x { 0 => 'F', 1 => 'T', _ => 'u' }).collect()
    }
}

fn parse(w: &str) -> Option<Vec<u8>> {
    if w == "-" {
        return Some(Vec::new());
    }
    w.chars()
        .map(|c| match c {
            'F' => Some(0u8),
            'T' => Some(1),
            'u' => Some(2),
            _ => None,
        })
        .collect()
}

// ------------------------------------------------------------------------------------------
// generator

fn rand_partial(r: &mut Rng, n: usize, num: u64, den: u64) -> Vec<u8> {
    (0..n).map(|_| if r.chance(num, den) { r.below(2) as u8 } else { 2 }).collect()
}

fn positions(v: &[u8], decided: bool) -> Vec<usize> {
    (0..v.len()).filter(|i| (v[*i] != 2) == decided).collect()
}

/// the next nogood of a history: empty, full-length, nested (super-/subset of an earlier one),
/// duplicate, complementary, unit or random
fn gen_nogood(r: &mut Rng, n: usize, pool: &[Vec<u8>]) -> Vec<u8> {
    let kind = r.below(30);
    let base = if pool.is_empty() { None } else { Some(pool[r.usize(pool.len())].clone()) };
    match (kind, base) {
        (0, _) => vec![2; n],
        (1 | 2, _) => (0..n).map(|_| r.below(2) as u8).collect(),
        (3..=6, Some(mut g)) => {
            // a weaker nogood: more literals
            for _ in 0..r.range(1, 2) {
                let u = positions(&g, false);
                if !u.is_empty() {
                    g[u[r.usize(u.len())]] = r.below(2) as u8;
                }
            }
            g
        }
        (7..=10, Some(mut g)) => {
            // a stronger nogood: fewer literals
            for _ in 0..r.range(1, 2) {
                let d = positions(&g, true);
                if !d.is_empty() {
                    g[d[r.usize(d.len())]] = 2;
                }
            }
            g
        }
        (11 | 12, Some(g)) => g,
        (13..=16, Some(mut g)) => {
            // complementary: one literal flipped
            let d = positions(&g, true);
            if !d.is_empty() {
                let p = d[r.usize(d.len())];
                g[p] = 1 - g[p];
            }
            g
        }
        (17 | 18, _) if n > 0 => {
            let mut g = vec![2; n];
            g[r.usize(n)] = r.below(2) as u8;
            g
        }
        _ => {
            let num = r.range(2, 4) as u64;
            rand_partial(r, n, num, 5)
        }
    }
}

/// an interpretation to query: undecided, total, matching / almost matching / complementing an
/// added nogood (with random further decisions), or random
fn gen_interp(r: &mut Rng, n: usize, pool: &[Vec<u8>]) -> Vec<u8> {
    let kind = r.below(16);
    let base = if pool.is_empty() { None } else { Some(pool[r.usize(pool.len())].clone()) };
    let extend = |r: &mut Rng, mut v: Vec<u8>, skip: Option<usize>| -> Vec<u8> {
        let num = r.below(3);
        for i in 0..v.len() {
            if v[i] == 2 && Some(i) != skip && r.chance(num, 5) {
                v[i] = r.below(2) as u8;
            }
        }
        v
    };
    match (kind, base) {
        (0, _) => vec![2; n],
        (1, _) => (0..n).map(|_| r.below(2) as u8).collect(),
        (2, Some(g)) => extend(r, g, None),
        (3..=8, Some(mut g)) => {
            // all but one literal of an added nogood: a unit conclusion is due
            let d = positions(&g, true);
            if d.is_empty() {
                extend(r, g, None)
            } else {
                let p = d[r.usize(d.len())];
                g[p] = 2;
                let keep_open = if r.chance(3, 4) { Some(p) } else { None };
                extend(r, g, keep_open)
            }
        }
        (9, Some(mut g)) => {
            let d = positions(&g, true);
            if !d.is_empty() {
                let p = d[r.usize(d.len())];
                g[p] = 1 - g[p];
            }
            extend(r, g, None)
        }
        _ => {
            let num = r.range(0, 3) as u64;
            rand_partial(r, n, num, 5)
        }
    }
}

/// all vectors over `n` positions with entries F/T/u
fn all_vecs(n: usize) -> Vec<Vec<u8>> {
    let mut vs: Vec<Vec<u8>> = vec![Vec::new()];
    for _ in 0..n {
        vs = vs.into_iter().flat_map(|v| (0..3u8).map(move |x| { let mut w = v.clone(); w.push(x); w })).collect();
    }
    vs
}

/// exhaustive small scope: EVERY sequence of at most `len` nogoods over `n` variables (the empty
/// nogood included) under each duplicate-elimination mode, queried with EVERY interpretation
pub fn gen_exh(n: usize, len: usize, out: &mut Out) {
    let vs = all_vecs(n);
    let mut seqs: Vec<Vec<usize>> = vec![Vec::new()];
    let mut frontier: Vec<Vec<usize>> = vec![Vec::new()];
    for _ in 0..len {
        frontier = frontier.iter().flat_map(|s| (0..vs.len()).map(move |i| { let mut t = s.clone(); t.push(i); t })).collect();
        seqs.extend(frontier.iter().cloned());
    }
    let mut case = 0;
    for mode in MODES {
        for seq in &seqs {
            out.line(&format!("case ngexh-{case}"));
            case += 1;
            out.line(&format!("ngnew {n}"));
            out.line(&format!("ngmode {mode}"));
            for i in seq {
                out.line(&format!("ngadd {}", show(&vs[*i])));
            }
            out.line("ngdump");
            for v in &vs {
                out.line(&format!("ngconcl {}", show(v)));
                out.line(&format!("ngclosure {}", show(v)));
            }
            out.line("ngfinish");
        }
    }
}

pub fn gen(r: &mut Rng, cases: usize, size: usize, out: &mut Out) {
    let maxv = if size == 0 { 6 } else { size.min(10) };
    for case in 0..cases {
        let n = if r.chance(1, 25) { 0 } else { r.range(1.min(maxv), maxv) };
        out.line(&format!("case ng-{case}"));
        out.line(&format!("ngnew {n}"));
        if r.chance(2, 3) {
            out.line(&format!("ngmode {}", MODES[r.usize(3)]));
        }
        let mut pool: Vec<Vec<u8>> = Vec::new();
        let query = |r: &mut Rng, pool: &[Vec<u8>], out: &mut Out| {
            let v = show(&gen_interp(r, n, pool));
            match r.below(3) {
                0 => out.line(&format!("ngconcl {v}")),
                1 => out.line(&format!("ngclosure {v}")),
                _ => {
                    out.line(&format!("ngconcl {v}"));
                    out.line(&format!("ngclosure {v}"));
                }
            }
        };
        let adds = r.range(0, 8);
        for _ in 0..adds {
            if r.chance(1, 5) {
                out.line(&format!("ngmode {}", MODES[r.usize(3)]));
            }
            let g = gen_nogood(r, n, &pool);
            out.line(&format!("ngadd {}", show(&g)));
            pool.push(g);
            if r.chance(1, 2) {
                out.line("ngdump");
            }
            if r.chance(1, 3) {
                query(r, &pool, out);
            }
        }
        out.line("ngdump");
        for _ in 0..r.range(2, 5) {
            query(r, &pool, out);
        }
        out.line("ngfinish");
    }
}

// ------------------------------------------------------------------------------------------
// executor

#[derive(Default)]
pub struct Exec {
    store: Option<NoGoodStore>,
    n: usize,
    mode: usize,
    modes_used: [bool; 3],
    adds: usize,
    switches: usize,
    queries: usize,
    conflicts: usize,
    concluded: usize,
}

fn terms(v: &[u8]) -> Vec<Term> {
    v.iter()
        .enumerate()
        .map(|(i, x)| match x {
            0 => Term::BOT,
            1 => Term::TOP,
            _ => Term(2 + i),
        })
        .collect()
}

fn show_terms(v: &[Term]) -> String {
    show(&v.iter().map(|t| if t.is_truth_value() { t.is_true() as u8 } else { 2 }).collect::<Vec<u8>>())
}

#[cfg(adf_obdd_verif)]
fn dump(store: &NoGoodStore, n: usize) -> (String, usize) {
    let mut stored = 0;
    let buckets: Vec<String> = store
        .verif_dump()
        .iter()
        .map(|bucket| {
            bucket
                .iter()
                .map(|(active, value)| {
                    stored += 1;
                    let width = active.iter().map(|p| *p as usize + 1).max().unwrap_or(0).max(n);
                    let v: Vec<u8> = (0..width as u32)
                        .map(|p| if !active.contains(&p) { 2 } else { value.contains(&p) as u8 })
                        .collect();
                    show(&v)
                })
                .collect::<Vec<_>>()
                .join(",")
        })
        .collect();
    (format!("[{}]", buckets.join("|")), stored)
}

#[cfg(not(adf_obdd_verif))]
fn dump(_store: &NoGoodStore, _n: usize) -> (String, usize) {
    ("no-hook".to_string(), 0)
}

#[cfg(adf_obdd_verif)]
fn closure(store: &NoGoodStore, v: &[Term]) -> String {
    match store.verif_conclusion_closure(v) {
        None => "inconsistent".to_string(),
        Some((_, false)) => "noupdate".to_string(),
        Some((r, true)) => format!("update {}", show_terms(&r)),
    }
}

#[cfg(not(adf_obdd_verif))]
fn closure(_store: &NoGoodStore, _v: &[Term]) -> String {
    "no-hook".to_string()
}

impl Exec {
    /// the interpretation / nogood of a request, if it has the width of the store
    fn vec(&self, w: &str) -> Option<Vec<u8>> {
        parse(w).filter(|v| v.len() == self.n)
    }

    pub fn exec(&mut self, ws: &[&str], l: &str, out: &mut Out) -> bool {
        match ws[0] {
            "ngnew" if ws.len() == 2 => {
                out.line(l);
                match ws[1].parse::<usize>() {
                    Ok(n) if n <= 10 => {
                        *self = Exec::default();
                        self.n = n;
                        self.mode = 1;
                        self.store = Some(NoGoodStore::new(n as u32));
                    }
                    _ => out.line("= bad-request"),
                }
                true
            }
            "nogoodcheck" => true, // regenerated by `ngadd`, `ngconcl`, `ngclosure`
            "ngmode" | "ngadd" | "ngconcl" | "ngclosure" | "ngdump" | "ngfinish" if self.store.is_none() => {
                // no `ngnew` yet: the store of width 0, as in the model driver
                self.n = 0;
                self.mode = 1;
                self.store = Some(NoGoodStore::new(0));
                self.exec(ws, l, out)
            }
            "ngmode" if ws.len() == 2 => {
                out.line(l);
                let store = self.store.as_mut().unwrap();
                match MODES.iter().position(|m| *m == ws[1]) {
                    Some(m) => {
                        store.set_dup_elem(match m {
                            0 => DuplicateElemination::None,
                            1 => DuplicateElemination::Equiv,
                            _ => DuplicateElemination::Subsume,
                        });
                        if self.adds > 0 && m != self.mode {
                            self.switches += 1;
                        }
                        self.mode = m;
                    }
                    None => out.line("= bad-request"),
                }
                true
            }
            "ngadd" if ws.len() == 2 => {
                out.line(l);
                out.flush();
                let Some(g) = self.vec(ws[1]) else {
                    out.line("= bad-request");
                    return true;
                };
                let n = self.n;
                let store = self.store.as_mut().unwrap();
                let ng = NoGood::from_term_vec(&terms(&g));
                let res = catch_unwind(AssertUnwindSafe(|| {
                    store.add_ng(ng);
                    dump(store, n).0
                }));
                self.adds += 1;
                self.modes_used[self.mode] = true;
                match res {
                    Ok(d) => {
                        out.line("= ok");
                        // the stored nogoods are handed to the specification: do they exclude
                        // exactly what the added ones exclude?
                        out.line(&format!("nogoodcheck store {d}"));
                    }
                    Err(_) => {
                        out.line("= panic");
                        out.line("nogoodcheck store panic");
                    }
                }
                out.line("~ ok");
                true
            }
            "ngconcl" | "ngclosure" if ws.len() == 2 => {
                out.line(l);
                out.flush();
                let Some(a) = self.vec(ws[1]) else {
                    out.line("= bad-request");
                    return true;
                };
                let store = self.store.as_ref().unwrap();
                let tv = terms(&a);
                let is_concl = ws[0] == "ngconcl";
                let res = catch_unwind(AssertUnwindSafe(|| {
                    if is_concl {
                        match store.conclusions(&NoGood::from_term_vec(&tv)) {
                            None => "conflict".to_string(),
                            Some(c) => {
                                let mut upd = false;
                                let r = c.update_term_vec(&tv, &mut upd);
                                format!("{} {}", show_terms(&r), upd as u8)
                            }
                        }
                    } else {
                        closure(store, &tv)
                    }
                }));
                let ans = res.unwrap_or_else(|_| "panic".to_string());
                self.queries += 1;
                if ans == "conflict" || ans == "inconsistent" {
                    self.conflicts += 1;
                } else if ans.starts_with("update") || ans.ends_with(" 1") {
                    self.concluded += 1;
                }
                out.line(&format!("= {ans}"));
                out.line(&format!("nogoodcheck {} {} {}", if is_concl { "concl" } else { "closure" }, ws[1], ans));
                out.line("~ ok");
                out.line("= contract ok");
                true
            }
            "ngdump" if ws.len() == 1 => {
                out.line(l);
                let store = self.store.as_ref().unwrap();
                let n = self.n;
                match catch_unwind(AssertUnwindSafe(|| dump(store, n).0)) {
                    Ok(d) => out.line(&format!("= {d}")),
                    Err(_) => out.line("= panic"),
                }
                true
            }
            "ngfinish" if ws.len() == 1 => {
                out.line(l);
                let store = self.store.as_ref().unwrap();
                let n = self.n;
                let stored = catch_unwind(AssertUnwindSafe(|| dump(store, n).1)).unwrap_or(0);
                let used: Vec<&str> = (0..3).filter(|m| self.modes_used[*m]).map(|m| MODES[m]).collect();
                let mode = match used.len() {
                    0 => "-".to_string(),
                    1 => used[0].to_string(),
                    _ => "mixed".to_string(),
                };
                out.line(&format!(
                    "# case ng vars={} nogoods={} stored={} mode={} switches={} queries={} conflicts={} concluded={}",
                    self.n, self.adds, stored, mode, self.switches, self.queries, self.conflicts, self.concluded
                ));
                true
            }
            _ => false,
        }
    }
}
