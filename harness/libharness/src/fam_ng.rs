//! Nogood-store family (C18): histories of `add_ng` / `set_dup_elem` on one `NoGoodStore`,
//! queried with `conclusions` and `conclusion_closure`.
//!
//! requests                        implementation's answers
//! `ngnew N`                       -
//! `ngmode None|Equiv|Subsume`     -
//! `ngadd <vec>`                   `= ok`, then `nogoodcheck store <dump>` / `~ ok`
//! `ngconcl <vec>`                 `= conflict` | `= <vec> <update flag>`, then `nogoodcheck concl <vec> <answer>` / `~ ok`
//! `ngchain <vec>`                 `= <answer 1> ; <answer 2> ; …` (answers as for `ngconcl`): `conclusions` is fed with the
//!                                 OBJECT it returned, at most 3 steps, until conflict / nothing new; one
//!                                 `nogoodcheck concl <input of the step> <answer>` / `~ ok` per step
//! `ngclosure <vec>`               `= inconsistent` | `= noupdate` | `= update <vec>`, then `nogoodcheck closure …` / `~ ok`
//! `ngdump`                        `= [bucket0|bucket1|…]`
//! `ngfinish`                      the statistics line of the case
//!
//! `<vec>`: `T`/`F`/`u` per variable, `-` for width 0. The `nogoodcheck` requests hand the
//! implementation's own answer to the executable specification of the model driver, which
//! answers `~ ok` or `~ violated <clauses>`.
//!
//! Every `NoGood` object (nogood or interpretation) is built by a constructor path chosen from the
//! request text (`obj`): `from_term_vec`, `try_from_pair_iter`, `new_single_nogood` or a
//! `disjunction` of two or three parts - the store must not care where an object comes from.
//! Profiles: default (<= 10 variables), `exh` (exhaustive small scope), `wide` (11-160 variables,
//! positions around the 32/64/128 boundaries and pairs of nogoods congruent modulo 32/64/128).
use crate::{rng::Rng, Out};
use adf_bdd::datatypes::Term;
use adf_bdd::nogoods::{DuplicateElemination, NoGood, NoGoodStore};
use std::panic::{catch_unwind, AssertUnwindSafe};

const MODES: [&str; 3] = ["None", "Equiv", "Subsume"];

fn show(v: &[u8]) -> String {
    if v.is_empty() {
        "-".to_string()
    } else {
        v.iter().map(|x| match x { 0 => 'F', 1 => 'T', _ => 'u' }).collect()
    }
}

fn parse(w: &str) -> Option<Vec<u8>> {
    if w == "-" {
        return Some(Vec::new());
    }
    w.chars()
        .map(|c| match c {
            'F' => Some(0u8),
            'T' => Some(1),
            'u' => Some(2),
            _ => None,
        })
        .collect()
}

// ------------------------------------------------------------------------------------------
// generator

fn rand_partial(r: &mut Rng, n: usize, num: u64, den: u64) -> Vec<u8> {
    (0..n).map(|_| if r.chance(num, den) { r.below(2) as u8 } else { 2 }).collect()
}

fn positions(v: &[u8], decided: bool) -> Vec<usize> {
    (0..v.len()).filter(|i| (v[*i] != 2) == decided).collect()
}

/// the next nogood of a history: empty, full-length, nested (super-/subset of an earlier one),
/// duplicate, complementary, unit or random
fn gen_nogood(r: &mut Rng, n: usize, pool: &[Vec<u8>]) -> Vec<u8> {
    let kind = r.below(30);
    let base = if pool.is_empty() { None } else { Some(pool[r.usize(pool.len())].clone()) };
    match (kind, base) {
        (0, _) => vec![2; n],
        (1 | 2, _) => (0..n).map(|_| r.below(2) as u8).collect(),
        (3..=6, Some(mut g)) => {
            // a weaker nogood: more literals
            for _ in 0..r.range(1, 2) {
                let u = positions(&g, false);
                if !u.is_empty() {
                    g[u[r.usize(u.len())]] = r.below(2) as u8;
                }
            }
            g
        }
        (7..=10, Some(mut g)) => {
            // a stronger nogood: fewer literals
            for _ in 0..r.range(1, 2) {
                let d = positions(&g, true);
                if !d.is_empty() {
                    g[d[r.usize(d.len())]] = 2;
                }
            }
            g
        }
        (11 | 12, Some(g)) => g,
        (13..=16, Some(mut g)) => {
            // complementary: one literal flipped
            let d = positions(&g, true);
            if !d.is_empty() {
                let p = d[r.usize(d.len())];
                g[p] = 1 - g[p];
            }
            g
        }
        (17 | 18, _) if n > 0 => {
            let mut g = vec![2; n];
            g[r.usize(n)] = r.below(2) as u8;
            g
        }
        _ => {
            let num = r.range(2, 4) as u64;
            rand_partial(r, n, num, 5)
        }
    }
}

/// an interpretation to query: undecided, total, matching / almost matching / complementing an
/// added nogood (with random further decisions), or random
fn gen_interp(r: &mut Rng, n: usize, pool: &[Vec<u8>]) -> Vec<u8> {
    let kind = r.below(16);
    let base = if pool.is_empty() { None } else { Some(pool[r.usize(pool.len())].clone()) };
    let extend = |r: &mut Rng, mut v: Vec<u8>, skip: Option<usize>| -> Vec<u8> {
        let num = r.below(3);
        for i in 0..v.len() {
            if v[i] == 2 && Some(i) != skip && r.chance(num, 5) {
                v[i] = r.below(2) as u8;
            }
        }
        v
    };
    match (kind, base) {
        (0, _) => vec![2; n],
        (1, _) => (0..n).map(|_| r.below(2) as u8).collect(),
        (2, Some(g)) => extend(r, g, None),
        (3..=8, Some(mut g)) => {
            // all but one literal of an added nogood: a unit conclusion is due
            let d = positions(&g, true);
            if d.is_empty() {
                extend(r, g, None)
            } else {
                let p = d[r.usize(d.len())];
                g[p] = 2;
                let keep_open = if r.chance(3, 4) { Some(p) } else { None };
                extend(r, g, keep_open)
            }
        }
        (9, Some(mut g)) => {
            let d = positions(&g, true);
            if !d.is_empty() {
                let p = d[r.usize(d.len())];
                g[p] = 1 - g[p];
            }
            extend(r, g, None)
        }
        _ => {
            let num = r.range(0, 3) as u64;
            rand_partial(r, n, num, 5)
        }
    }
}

/// the requests about one interpretation: `ngchain` in a quarter of the queries
fn gen_query(r: &mut Rng, v: &[u8], out: &mut Out) {
    let v = show(v);
    match r.below(8) {
        0 | 1 => out.line(&format!("ngchain {v}")),
        2 | 3 => out.line(&format!("ngconcl {v}")),
        4 | 5 => out.line(&format!("ngclosure {v}")),
        _ => {
            out.line(&format!("ngconcl {v}"));
            out.line(&format!("ngclosure {v}"));
        }
    }
}

/// all vectors over `n` positions with entries F/T/u
fn all_vecs(n: usize) -> Vec<Vec<u8>> {
    let mut vs: Vec<Vec<u8>> = vec![Vec::new()];
    for _ in 0..n {
        vs = vs.into_iter().flat_map(|v| (0..3u8).map(move |x| { let mut w = v.clone(); w.push(x); w })).collect();
    }
    vs
}

/// exhaustive small scope: EVERY sequence of at most `len` nogoods over `n` variables (the empty
/// nogood included) under each duplicate-elimination mode, queried with EVERY interpretation
pub fn gen_exh(n: usize, len: usize, out: &mut Out) {
    let vs = all_vecs(n);
    let mut seqs: Vec<Vec<usize>> = vec![Vec::new()];
    let mut frontier: Vec<Vec<usize>> = vec![Vec::new()];
    for _ in 0..len {
        frontier = frontier.iter().flat_map(|s| (0..vs.len()).map(move |i| { let mut t = s.clone(); t.push(i); t })).collect();
        seqs.extend(frontier.iter().cloned());
    }
    let mut case = 0;
    for mode in MODES {
        for seq in &seqs {
            out.line(&format!("case ngexh-{case}"));
            case += 1;
            out.line(&format!("ngnew {n}"));
            out.line(&format!("ngmode {mode}"));
            for i in seq {
                out.line(&format!("ngadd {}", show(&vs[*i])));
            }
            out.line("ngdump");
            for v in &vs {
                out.line(&format!("ngconcl {}", show(v)));
                out.line(&format!("ngclosure {}", show(v)));
            }
            out.line("ngfinish");
        }
    }
}

pub fn gen(r: &mut Rng, cases: usize, size: usize, out: &mut Out) {
    let maxv = if size == 0 { 6 } else { size.min(10) };
    for case in 0..cases {
        let n = if r.chance(1, 25) { 0 } else { r.range(1.min(maxv), maxv) };
        out.line(&format!("case ng-{case}"));
        out.line(&format!("ngnew {n}"));
        if r.chance(2, 3) {
            out.line(&format!("ngmode {}", MODES[r.usize(3)]));
        }
        let mut pool: Vec<Vec<u8>> = Vec::new();
        let query = |r: &mut Rng, pool: &[Vec<u8>], out: &mut Out| {
            let v = gen_interp(r, n, pool);
            gen_query(r, &v, out);
        };
        let adds = r.range(0, 8);
        for _ in 0..adds {
            if r.chance(1, 5) {
                out.line(&format!("ngmode {}", MODES[r.usize(3)]));
            }
            let g = gen_nogood(r, n, &pool);
            out.line(&format!("ngadd {}", show(&g)));
            pool.push(g);
            if r.chance(1, 2) {
                out.line("ngdump");
            }
            if r.chance(1, 3) {
                query(r, &pool, out);
            }
        }
        out.line("ngdump");
        for _ in 0..r.range(2, 5) {
            query(r, &pool, out);
        }
        out.line("ngfinish");
    }
}

// ------------------------------------------------------------------------------------------
// wide stores

/// positions next to the word boundaries of 32-, 64- and 128-bit folds
const BOUNDARY: [usize; 20] = [30, 31, 32, 33, 34, 62, 63, 64, 65, 66, 94, 95, 96, 97, 98, 126, 127, 128, 129, 130];

fn wide_pos(r: &mut Rng, n: usize, hot: &[usize]) -> usize {
    match r.below(10) {
        0..=5 if !hot.is_empty() => hot[r.usize(hot.len())],
        6 | 7 => {
            let b: Vec<usize> = BOUNDARY.iter().cloned().filter(|p| *p < n).collect();
            if b.is_empty() { r.usize(n) } else { b[r.usize(b.len())] }
        }
        _ => r.usize(n),
    }
}

/// the nogood moved by a multiple of 32 / 64 / 128 positions, values kept (`None` if it does not fit)
fn shifted(r: &mut Rng, g: &[u8]) -> Option<Vec<u8>> {
    let n = g.len();
    let d = positions(g, true);
    if d.is_empty() {
        return None;
    }
    let (lo, hi) = (d[0] as i64, d[d.len() - 1] as i64);
    let mut shifts: Vec<i64> = Vec::new();
    for m in [64i64, 64, 64, 32, 128, 96] {
        for s in [m, -m] {
            if lo + s >= 0 && hi + s < n as i64 {
                shifts.push(s);
            }
        }
    }
    if shifts.is_empty() {
        return None;
    }
    let s = shifts[r.usize(shifts.len())];
    let mut h = vec![2u8; n];
    for p in d {
        h[(p as i64 + s) as usize] = g[p];
    }
    Some(h)
}

/// the next nogood of a wide history: 1-5 literals on hot / boundary / random positions, or a
/// shifted copy (congruent modulo 32 / 64 / 128, equal values), duplicate, super-/subset or
/// complement of an earlier one; rarely the empty nogood
fn gen_wide_nogood(r: &mut Rng, n: usize, hot: &[usize], pool: &[Vec<u8>]) -> Vec<u8> {
    let kind = r.below(40);
    let base = if pool.is_empty() { None } else { Some(pool[r.usize(pool.len())].clone()) };
    match (kind, base) {
        (0, _) => vec![2; n],
        (1..=10, Some(g)) => match shifted(r, &g) {
            Some(h) => h,
            None => g,
        },
        (11..=14, Some(mut g)) => {
            // weaker: more literals (at most 5)
            for _ in 0..r.range(1, 2) {
                if positions(&g, true).len() < 5 {
                    let p = wide_pos(r, n, hot);
                    if g[p] == 2 {
                        g[p] = r.below(2) as u8;
                    }
                }
            }
            g
        }
        (15..=18, Some(mut g)) => {
            // stronger: fewer literals (at least 1)
            let d = positions(&g, true);
            if d.len() > 1 {
                g[d[r.usize(d.len())]] = 2;
            }
            g
        }
        (19..=21, Some(g)) => g,
        (22..=27, Some(mut g)) => {
            let d = positions(&g, true);
            if !d.is_empty() {
                let p = d[r.usize(d.len())];
                g[p] = 1 - g[p];
            }
            g
        }
        _ => {
            let mut g = vec![2u8; n];
            for _ in 0..r.range(1, 5) {
                g[wide_pos(r, n, hot)] = r.below(2) as u8;
            }
            g
        }
    }
}

/// an interpretation for a wide store: as `gen_interp`, but the random further decisions prefer
/// the hot positions (so that conclusions chain) and stay sparse
fn gen_wide_interp(r: &mut Rng, n: usize, hot: &[usize], pool: &[Vec<u8>]) -> Vec<u8> {
    if r.chance(1, 3) {
        return gen_interp(r, n, pool);
    }
    let mut v = match r.below(8) {
        0 => vec![2u8; n],
        1..=4 if !pool.is_empty() => {
            // all but one literal of an added nogood
            let mut g = pool[r.usize(pool.len())].clone();
            let d = positions(&g, true);
            if !d.is_empty() {
                g[d[r.usize(d.len())]] = 2;
            }
            g
        }
        5 if !pool.is_empty() => pool[r.usize(pool.len())].clone(),
        6 if !pool.is_empty() => {
            // the union of two added nogoods (the later one wins on a clash)
            let mut g = pool[r.usize(pool.len())].clone();
            let h = &pool[r.usize(pool.len())];
            for p in positions(h, true) {
                g[p] = h[p];
            }
            g
        }
        _ => vec![2u8; n],
    };
    for _ in 0..r.range(0, 4) {
        let p = wide_pos(r, n, hot);
        if v[p] == 2 {
            v[p] = r.below(2) as u8;
        }
    }
    v
}

/// wide stores (11 <= n <= `size` <= 160): widths around 64 and 128 or random, histories of 2-12
/// nogoods, all three modes with switches, the same requests as the default profile
pub fn gen_wide(r: &mut Rng, cases: usize, size: usize, out: &mut Out) {
    let maxv = if size < 11 { 160 } else { size.min(160) };
    for case in 0..cases {
        let n = match r.below(3) {
            0 => r.range(60, 70),
            1 => r.range(120, 135),
            _ => r.range(11, 160),
        }
        .min(maxv);
        // the variables most literals are drawn from: some at the boundaries, their images
        // modulo 64 / 32 / 128, some random
        let mut hot: Vec<usize> = Vec::new();
        for _ in 0..r.range(4, 8) {
            let p = if r.chance(1, 2) { BOUNDARY[r.usize(BOUNDARY.len())] } else { r.usize(n) };
            for q in [p, p + 64, p % 64, p % 32, p + 32, p + 128] {
                if q < n && r.chance(2, 3) && !hot.contains(&q) {
                    hot.push(q);
                }
            }
        }
        out.line(&format!("case ngwide-{case}"));
        out.line(&format!("ngnew {n}"));
        if r.chance(2, 3) {
            out.line(&format!("ngmode {}", MODES[r.usize(3)]));
        }
        let mut pool: Vec<Vec<u8>> = Vec::new();
        let adds = r.range(2, 12);
        for _ in 0..adds {
            if r.chance(1, 6) {
                out.line(&format!("ngmode {}", MODES[r.usize(3)]));
            }
            let g = gen_wide_nogood(r, n, &hot, &pool);
            out.line(&format!("ngadd {}", show(&g)));
            pool.push(g);
            if r.chance(1, 3) {
                out.line("ngdump");
            }
            if r.chance(1, 3) {
                let v = gen_wide_interp(r, n, &hot, &pool);
                gen_query(r, &v, out);
            }
        }
        out.line("ngdump");
        for _ in 0..r.range(2, 6) {
            let v = gen_wide_interp(r, n, &hot, &pool);
            gen_query(r, &v, out);
        }
        out.line("ngfinish");
    }
}

// ------------------------------------------------------------------------------------------
// executor

#[derive(Default)]
pub struct Exec {
    store: Option<NoGoodStore>,
    n: usize,
    mode: usize,
    modes_used: [bool; 3],
    adds: usize,
    switches: usize,
    queries: usize,
    conflicts: usize,
    concluded: usize,
    chains: usize,
    /// objects built by `from_term_vec`, `try_from_pair_iter`, `new_single_nogood`, `disjunction`
    built: [usize; 4],
}

fn terms(v: &[u8]) -> Vec<Term> {
    v.iter()
        .enumerate()
        .map(|(i, x)| match x {
            0 => Term::BOT,
            1 => Term::TOP,
            _ => Term(2 + i),
        })
        .collect()
}

fn show_terms(v: &[Term]) -> String {
    show(&v.iter().map(|t| if t.is_truth_value() { t.is_true() as u8 } else { 2 }).collect::<Vec<u8>>())
}

/// FNV-1a of the request text: selects the constructor path of the request's object
fn text_hash(s: &str) -> u64 {
    s.bytes().fold(0xcbf29ce484222325u64, |h, b| (h ^ b as u64).wrapping_mul(0x100000001b3))
}

/// the vector with only the listed literals
fn masked(n: usize, ls: &[(usize, bool)]) -> Vec<u8> {
    let mut v = vec![2u8; n];
    for (p, b) in ls {
        v[*p] = *b as u8;
    }
    v
}

/// one part of a disjunction, itself built by one of the three plain constructors
fn part(n: usize, ls: &[(usize, bool)], how: u64) -> NoGood {
    if ls.is_empty() {
        return if how % 2 == 0 { NoGood::default() } else { NoGood::from_term_vec(&terms(&vec![2u8; n])) };
    }
    match how % 3 {
        0 if ls.len() == 1 => NoGood::new_single_nogood(ls[0].0, ls[0].1),
        1 => NoGood::try_from_pair_iter(&mut ls.iter().cloned()).expect("consistent pairs"),
        _ => NoGood::from_term_vec(&terms(&masked(n, ls))),
    }
}

/// The `NoGood` object denoted by the vector `v`, built along a path chosen deterministically from
/// the request text: `from_term_vec`, `try_from_pair_iter` (pairs in ascending, descending or
/// rotated order, possibly with a repeated pair), `new_single_nogood`, or a `disjunction` of two or
/// three parts whose literals partition the vector. Returns the path (index into `Exec::built`).
fn obj(v: &[u8], text: &str) -> (NoGood, usize) {
    let h = text_hash(text);
    let n = v.len();
    let ls: Vec<(usize, bool)> = positions(v, true).into_iter().map(|p| (p, v[p] == 1)).collect();
    match h % 8 {
        0 | 1 => (NoGood::from_term_vec(&terms(v)), 0),
        2 | 3 if !ls.is_empty() => {
            if ls.len() == 1 && h % 8 == 2 {
                return (NoGood::new_single_nogood(ls[0].0, ls[0].1), 2);
            }
            let mut ps = ls.clone();
            match (h >> 8) % 4 {
                0 => {}
                1 => ps.reverse(),
                2 => ps.rotate_left((h >> 16) as usize % ls.len()),
                _ => ps.push(ls[(h >> 16) as usize % ls.len()]),
            }
            (NoGood::try_from_pair_iter(&mut ps.into_iter()).expect("consistent pairs"), 1)
        }
        2 | 3 => (NoGood::from_term_vec(&terms(v)), 0),
        k => {
            // the literals are dealt to 2 or 3 parts: a prefix / suffix split or by position parity
            let parts = if k < 6 { 2 } else { 3 };
            let mut dealt: Vec<Vec<(usize, bool)>> = vec![Vec::new(); parts];
            let cut = if ls.is_empty() { 0 } else { (h >> 8) as usize % (ls.len() + 1) };
            for (i, l) in ls.iter().enumerate() {
                let to = match (h >> 20) % 3 {
                    0 => (i >= cut) as usize + (parts == 3 && i > cut) as usize,
                    1 => (i + (h >> 24) as usize) % parts,
                    _ => (l.0 + (h >> 24) as usize) % parts,
                };
                dealt[to].push(*l);
            }
            if (h >> 30) % 2 == 1 {
                dealt.reverse();
            }
            let mut o = part(n, &dealt[0], h >> 32);
            for (i, d) in dealt.iter().enumerate().skip(1) {
                o.disjunction(&part(n, d, h >> (34 + 2 * i)));
            }
            (o, 3)
        }
    }
}

#[cfg(adf_obdd_verif)]
fn dump(store: &NoGoodStore, n: usize) -> (String, usize) {
    let mut stored = 0;
    let buckets: Vec<String> = store
        .verif_dump()
        .iter()
        .map(|bucket| {
            bucket
                .iter()
                .map(|(active, value)| {
                    stored += 1;
                    let width = active.iter().map(|p| *p as usize + 1).max().unwrap_or(0).max(n);
                    let v: Vec<u8> = (0..width as u32)
                        .map(|p| if !active.contains(&p) { 2 } else { value.contains(&p) as u8 })
                        .collect();
                    show(&v)
                })
                .collect::<Vec<_>>()
                .join(",")
        })
        .collect();
    (format!("[{}]", buckets.join("|")), stored)
}

#[cfg(not(adf_obdd_verif))]
fn dump(_store: &NoGoodStore, _n: usize) -> (String, usize) {
    ("no-hook".to_string(), 0)
}

#[cfg(adf_obdd_verif)]
fn closure(store: &NoGoodStore, v: &[Term]) -> String {
    match store.verif_conclusion_closure(v) {
        None => "inconsistent".to_string(),
        Some((_, false)) => "noupdate".to_string(),
        Some((r, true)) => format!("update {}", show_terms(&r)),
    }
}

#[cfg(not(adf_obdd_verif))]
fn closure(_store: &NoGoodStore, _v: &[Term]) -> String {
    "no-hook".to_string()
}

impl Exec {
    /// the interpretation / nogood of a request, if it has the width of the store
    fn vec(&self, w: &str) -> Option<Vec<u8>> {
        parse(w).filter(|v| v.len() == self.n)
    }

    pub fn exec(&mut self, ws: &[&str], l: &str, out: &mut Out) -> bool {
        match ws[0] {
            "ngnew" if ws.len() == 2 => {
                out.line(l);
                match ws[1].parse::<usize>() {
                    Ok(n) if n <= 160 => {
                        *self = Exec::default();
                        self.n = n;
                        self.mode = 1;
                        self.store = Some(NoGoodStore::new(n as u32));
                    }
                    _ => out.line("= bad-request"),
                }
                true
            }
            "nogoodcheck" => true, // regenerated by `ngadd`, `ngconcl`, `ngchain`, `ngclosure`
            "ngmode" | "ngadd" | "ngconcl" | "ngchain" | "ngclosure" | "ngdump" | "ngfinish" if self.store.is_none() => {
                // no `ngnew` yet: the store of width 0, as in the model driver
                self.n = 0;
                self.mode = 1;
                self.store = Some(NoGoodStore::new(0));
                self.exec(ws, l, out)
            }
            "ngmode" if ws.len() == 2 => {
                out.line(l);
                let store = self.store.as_mut().unwrap();
                match MODES.iter().position(|m| *m == ws[1]) {
                    Some(m) => {
                        store.set_dup_elem(match m {
                            0 => DuplicateElemination::None,
                            1 => DuplicateElemination::Equiv,
                            _ => DuplicateElemination::Subsume,
                        });
                        if self.adds > 0 && m != self.mode {
                            self.switches += 1;
                        }
                        self.mode = m;
                    }
                    None => out.line("= bad-request"),
                }
                true
            }
            "ngadd" if ws.len() == 2 => {
                out.line(l);
                out.flush();
                let Some(g) = self.vec(ws[1]) else {
                    out.line("= bad-request");
                    return true;
                };
                let n = self.n;
                let (ng, how) = obj(&g, l);
                self.built[how] += 1;
                let store = self.store.as_mut().unwrap();
                let res = catch_unwind(AssertUnwindSafe(|| {
                    store.add_ng(ng);
                    dump(store, n).0
                }));
                self.adds += 1;
                self.modes_used[self.mode] = true;
                match res {
                    Ok(d) => {
                        out.line("= ok");
                        // the stored nogoods are handed to the specification: do they exclude
                        // exactly what the added ones exclude?
                        out.line(&format!("nogoodcheck store {d}"));
                    }
                    Err(_) => {
                        out.line("= panic");
                        out.line("nogoodcheck store panic");
                    }
                }
                out.line("~ ok");
                true
            }
            "ngconcl" | "ngclosure" if ws.len() == 2 => {
                out.line(l);
                out.flush();
                let Some(a) = self.vec(ws[1]) else {
                    out.line("= bad-request");
                    return true;
                };
                let tv = terms(&a);
                let is_concl = ws[0] == "ngconcl";
                let (interp, how) = obj(&a, l);
                if is_concl {
                    self.built[how] += 1;
                }
                let store = self.store.as_ref().unwrap();
                let res = catch_unwind(AssertUnwindSafe(|| {
                    if is_concl {
                        match store.conclusions(&interp) {
                            None => "conflict".to_string(),
                            Some(c) => {
                                let mut upd = false;
                                let r = c.update_term_vec(&tv, &mut upd);
                                format!("{} {}", show_terms(&r), upd as u8)
                            }
                        }
                    } else {
                        closure(store, &tv)
                    }
                }));
                let ans = res.unwrap_or_else(|_| "panic".to_string());
                self.queries += 1;
                if ans == "conflict" || ans == "inconsistent" {
                    self.conflicts += 1;
                } else if ans.starts_with("update") || ans.ends_with(" 1") {
                    self.concluded += 1;
                }
                out.line(&format!("= {ans}"));
                out.line(&format!("nogoodcheck {} {} {}", if is_concl { "concl" } else { "closure" }, ws[1], ans));
                out.line("~ ok");
                out.line("= contract ok");
                true
            }
            "ngchain" if ws.len() == 2 => {
                out.line(l);
                out.flush();
                let Some(a) = self.vec(ws[1]) else {
                    out.line("= bad-request");
                    return true;
                };
                let (interp, how) = obj(&a, l);
                self.built[how] += 1;
                let store = self.store.as_ref().unwrap();
                // (input vector, answer) per step; the object of step k+1 is the one step k returned
                let mut steps: Vec<(String, String)> = Vec::new();
                let res = catch_unwind(AssertUnwindSafe(|| {
                    let mut cur = interp;
                    let mut tv = terms(&a);
                    for _ in 0..3 {
                        match store.conclusions(&cur) {
                            None => {
                                steps.push((show_terms(&tv), "conflict".to_string()));
                                break;
                            }
                            Some(c) => {
                                let mut upd = false;
                                let r = c.update_term_vec(&tv, &mut upd);
                                steps.push((show_terms(&tv), format!("{} {}", show_terms(&r), upd as u8)));
                                if !upd {
                                    break;
                                }
                                cur = c;
                                tv = r;
                            }
                        }
                    }
                }));
                if res.is_err() {
                    let input = steps.last().map(|s| s.1.split(' ').next().unwrap().to_string()).unwrap_or(ws[1].to_string());
                    steps.push((input, "panic".to_string()));
                }
                self.queries += 1;
                self.chains += 1;
                if steps.iter().any(|s| s.1 == "conflict") {
                    self.conflicts += 1;
                } else if steps.iter().any(|s| s.1.ends_with(" 1")) {
                    self.concluded += 1;
                }
                out.line(&format!("= {}", steps.iter().map(|s| s.1.as_str()).collect::<Vec<_>>().join(" ; ")));
                for (input, ans) in &steps {
                    out.line(&format!("nogoodcheck concl {input} {ans}"));
                    out.line("~ ok");
                    out.line("= contract ok");
                }
                true
            }
            "ngdump" if ws.len() == 1 => {
                out.line(l);
                let store = self.store.as_ref().unwrap();
                let n = self.n;
                match catch_unwind(AssertUnwindSafe(|| dump(store, n).0)) {
                    Ok(d) => out.line(&format!("= {d}")),
                    Err(_) => out.line("= panic"),
                }
                true
            }
            "ngfinish" if ws.len() == 1 => {
                out.line(l);
                let store = self.store.as_ref().unwrap();
                let n = self.n;
                let stored = catch_unwind(AssertUnwindSafe(|| dump(store, n).1)).unwrap_or(0);
                let used: Vec<&str> = (0..3).filter(|m| self.modes_used[*m]).map(|m| MODES[m]).collect();
                let mode = match used.len() {
                    0 => "-".to_string(),
                    1 => used[0].to_string(),
                    _ => "mixed".to_string(),
                };
                out.line(&format!(
                    "# case ng vars={} nogoods={} stored={} mode={} switches={} queries={} conflicts={} concluded={} chains={} built={}",
                    self.n, self.adds, stored, mode, self.switches, self.queries, self.conflicts, self.concluded, self.chains,
                    self.built.iter().map(|x| x.to_string()).collect::<Vec<_>>().join("/")
                ));
                true
            }
            _ => false,
        }
    }
}
