use crate::{rng::Rng, Out};
pub fn gen(_r: &mut Rng, _cases: usize, _size: usize,  _out: &mut Out) {}
pub fn exec(_ws: &[&str], _l: &str, _out: &mut Out) -> bool { false }
