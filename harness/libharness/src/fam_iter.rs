//! Iterator family (C20): `collect()` of the two public interpretation iterators.
//!
//! `it2 <handles>` / `it3 <handles>` (space separated, possibly none)
//! `= [v1]|[v2]|…`   every yielded vector, in order (compared with the Lean odometer model)
//! `~ count=<n> nodup=<0|1> complete=<0|1> first=<vector or ->`
//!                   the property evaluated on the implementation's output: number of vectors,
//!                   no duplicates, exactly 2^k (3^k) vectors each of which is a completion
//!                   (refinement) of the input; the first vector for the three-valued iterator.
use crate::{rng::Rng, Out};
use adf_bdd::datatypes::adf::{ThreeValuedInterpretationsIterator, TwoValuedInterpretationsIterator};
use adf_bdd::datatypes::Term;
use std::panic::{catch_unwind, AssertUnwindSafe};

const MAX_UNDECIDED: usize = 6;

fn emit_case(n: usize, v: &[usize], out: &mut Out) {
    let s = v.iter().map(|x| x.to_string()).collect::<Vec<_>>().join(" ");
    out.line(&format!("case iter-{n}"));
    out.line(format!("it2 {s}").trim_end());
    out.line(format!("it3 {s}").trim_end());
    // the iterator protocol on a partly consumed iterator: what is left after j steps
    let k = v.iter().filter(|x| **x >= 2).count() as u32;
    let j2 = (n * 7 + 3) % (2usize.pow(k) + 2);
    let j3 = (n * 5 + 1) % (3usize.pow(k) + 2);
    out.line(format!("itc2 {j2} {s}").trim_end());
    out.line(format!("itc3 {j3} {s}").trim_end());
}

/// more undecided positions than a machine word has bits: only a prefix can be looked at
fn emit_big(r: &mut Rng, n: usize, out: &mut Out) {
    let len = r.range(60, 110);
    let v: Vec<usize> = (0..len).map(|i| if r.chance(1, 8) { r.usize(2) } else { 2 + i }).collect();
    let s = v.iter().map(|x| x.to_string()).collect::<Vec<_>>().join(" ");
    out.line(&format!("case iterbig-{n}"));
    out.line(&format!("itp2 {} {s}", r.range(2, 300)));
    out.line(&format!("itp3 {} {s}", r.range(2, 300)));
}

/// `size` < 100: random vectors of length 0..=size (0 → 10), at most 6 undecided entries;
/// `size` = 100+L: every decided/undecided pattern of every length 0..=L (cases ignored).
pub fn gen(r: &mut Rng, cases: usize, size: usize, out: &mut Out) {
    if size >= 100 {
        let maxlen = (size - 100).min(MAX_UNDECIDED);
        let mut n = 0;
        for len in 0..=maxlen {
            for code in 0..3usize.pow(len as u32) {
                let mut c = code;
                let mut v = Vec::with_capacity(len);
                for pos in 0..len {
                    v.push(match c % 3 {
                        0 => 0,
                        1 => 1,
                        _ => 2 + 3 * pos, // distinct residual handles
                    });
                    c /= 3;
                }
                emit_case(n, &v, out);
                n += 1;
            }
        }
        return;
    }
    let maxlen = if size == 0 { 10 } else { size };
    for case in 0..cases {
        let len = r.range(0, maxlen);
        // probability of an undecided entry varies per case, so that all-decided, all-undecided
        // and undecided-at-both-ends patterns occur
        let p = r.below(5);
        let mut v: Vec<usize> = Vec::with_capacity(len);
        let mut und = 0;
        for _ in 0..len {
            let want_und = match p {
                0 => false,
                4 => true,
                _ => r.chance(p, 4),
            };
            if want_und && und < MAX_UNDECIDED {
                und += 1;
                // residual handles: small, repeated, and large ones
                v.push(match r.below(4) {
                    0 => 2,
                    1 => 3,
                    2 => r.range(2, 40),
                    _ => r.range(1000, 100000),
                });
            } else {
                v.push(r.usize(2));
            }
        }
        // force the ends to be undecided now and then
        if len > 0 && r.chance(1, 4) && und < MAX_UNDECIDED && v[0] < 2 {
            v[0] = 2 + r.usize(9);
            und += 1;
        }
        if len > 1 && r.chance(1, 4) && und < MAX_UNDECIDED && v[len - 1] < 2 {
            v[len - 1] = 2 + r.usize(9);
        }
        emit_case(case, &v, out);
        if case % 10 == 0 {
            emit_big(r, case, out);
        }
    }
}

fn show(v: &[Term]) -> String {
    format!("[{}]", v.iter().map(|t| t.value().to_string()).collect::<Vec<_>>().join(","))
}

fn show_all(vs: &[Vec<Term>]) -> String {
    if vs.is_empty() {
        "none".to_string()
    } else {
        vs.iter().map(|v| show(v)).collect::<Vec<_>>().join("|")
    }
}

fn is_completion(w: &[Term], v: &[Term]) -> bool {
    w.len() == v.len()
        && w.iter().zip(v.iter()).all(|(a, b)| if b.is_truth_value() { a == b } else { a.is_truth_value() })
}

fn is_refinement(w: &[Term], v: &[Term]) -> bool {
    w.len() == v.len()
        && w.iter().zip(v.iter()).all(|(a, b)| if b.is_truth_value() { a == b } else { a == b || a.is_truth_value() })
}

fn spec_line(outv: &[Vec<Term>], expected: u128, ok: impl Fn(&[Term]) -> bool, first: bool) -> String {
    let mut sorted: Vec<&Vec<Term>> = outv.iter().collect();
    sorted.sort();
    let nodup = sorted.windows(2).all(|w| w[0] != w[1]);
    let complete = outv.len() as u128 == expected && outv.iter().all(|w| ok(w));
    format!(
        "count={} nodup={} complete={} first={}",
        outv.len(),
        nodup as u8,
        complete as u8,
        if first { outv.first().map(|v| show(v)).unwrap_or_else(|| "none".to_string()) } else { "-".to_string() }
    )
}

/// `itp2|itp3 <N> <handles>`: the first N yielded vectors (any number of undecided positions)
/// `itc2|itc3 <j> <handles>`: size_hint and count() after j calls of next()
fn exec_proto(ws: &[&str], l: &str, out: &mut Out) -> bool {
    let three = ws[0].ends_with('3');
    let prefix = ws[0].starts_with("itp");
    out.line(l);
    out.flush();
    let num: Option<usize> = ws.get(1).and_then(|x| x.parse().ok());
    let parsed: Option<Vec<Term>> = ws.iter().skip(2).map(|s| s.parse::<usize>().ok().map(Term)).collect();
    let (Some(num), Some(v)) = (num, parsed) else {
        out.line("~ bad-request");
        return true;
    };
    let res = catch_unwind(AssertUnwindSafe(|| -> String {
        if prefix {
            let outv: Vec<Vec<Term>> = if three {
                ThreeValuedInterpretationsIterator::new(&v).take(num).collect()
            } else {
                TwoValuedInterpretationsIterator::new(&v).take(num).collect()
            };
            let mut sorted: Vec<&Vec<Term>> = outv.iter().collect();
            sorted.sort();
            let distinct = sorted.windows(2).all(|w| w[0] != w[1]);
            let members = outv.iter().all(|w| if three { is_refinement(w, &v) } else { is_completion(w, &v) });
            format!(
                "prefix count={} distinct={} members={} first-is-input={}",
                outv.len(),
                distinct as u8,
                members as u8,
                if three { (outv.first() == Some(&v)) as u8 } else { 1 }
            )
        } else {
            let (hint, count) = if three {
                let mut it = ThreeValuedInterpretationsIterator::new(&v);
                for _ in 0..num {
                    if it.next().is_none() {
                        break;
                    }
                }
                (it.size_hint(), it.count())
            } else {
                let mut it = TwoValuedInterpretationsIterator::new(&v);
                for _ in 0..num {
                    if it.next().is_none() {
                        break;
                    }
                }
                (it.size_hint(), it.count())
            };
            let hint_ok = hint.0 <= count && hint.1.map(|h| count <= h).unwrap_or(true);
            format!("remaining={count} hint-consistent={}", hint_ok as u8)
        }
    }));
    match res {
        Ok(s) => out.line(&format!("~ {s}")),
        Err(_) => out.line("~ panic"),
    }
    let k = v.iter().filter(|t| !t.is_truth_value()).count();
    out.line(&format!("# case iter kind={} len={} undecided={} yielded={}", ws[0], v.len(), k, num));
    true
}

pub fn exec(ws: &[&str], l: &str, out: &mut Out) -> bool {
    if matches!(ws[0], "itp2" | "itp3" | "itc2" | "itc3") {
        return exec_proto(ws, l, out);
    }
    let three = match ws[0] {
        "it2" => false,
        "it3" => true,
        _ => return false,
    };
    out.line(l);
    out.flush();
    let parsed: Option<Vec<Term>> = ws[1..].iter().map(|s| s.parse::<usize>().ok().map(Term)).collect();
    let Some(v) = parsed else {
        out.line("= bad-request");
        out.line("~ bad-request");
        return true;
    };
    let k = v.iter().filter(|t| !t.is_truth_value()).count() as u32;
    // a runaway iterator must not exhaust memory: one element more than any correct answer has
    let cap = 3usize.pow(k.min(12)) + 1;
    let res = catch_unwind(AssertUnwindSafe(|| -> Vec<Vec<Term>> {
        if three {
            ThreeValuedInterpretationsIterator::new(&v).take(cap).collect()
        } else {
            TwoValuedInterpretationsIterator::new(&v).take(cap).collect()
        }
    }));
    match res {
        Ok(outv) => {
            out.line(&format!("= {}", show_all(&outv)));
            let line = if three {
                spec_line(&outv, 3u128.pow(k), |w| is_refinement(w, &v), true)
            } else {
                spec_line(&outv, 2u128.pow(k), |w| is_completion(w, &v), false)
            };
            out.line(&format!("~ {line}"));
            out.line(&format!(
                "# case iter kind={} len={} undecided={} yielded={}",
                ws[0],
                v.len(),
                k,
                outv.len()
            ));
        }
        Err(_) => {
            out.line("= panic");
            out.line("~ panic");
        }
    }
    true
}
