//! Diagram-store family (C06, C07, C11-C13): operation sequences on one shared `Bdd`.
use crate::{rng::Rng, Out};
use adf_bdd::datatypes::{Term, Var};
use adf_bdd::obdd::Bdd;
use std::panic::{catch_unwind, AssertUnwindSafe};

/// long operation sequences over many variables on a bounded pool of diagrams: stores with
/// hundreds of thousands of nodes and memo entries. The specification side follows the functions
/// on a SAMPLE of assignments (a sub-cube: `free` variables range, the others are fixed by `base`).
pub fn gen_big(r: &mut Rng, cases: usize, size: usize, out: &mut Out) {
    let maxv = if size == 0 { 16 } else { size };
    for case in 0..cases {
        let nv = r.range(maxv.saturating_sub(1).max(8), maxv);
        let base = r.below(1 << nv);
        let mut vs: Vec<usize> = (0..nv).collect();
        for i in (1..vs.len()).rev() {
            vs.swap(i, r.usize(i + 1));
        }
        let free: Vec<usize> = vs.iter().take(6).copied().collect();
        out.line(&format!("case bddbig-{case}"));
        out.line(&format!(
            "newbig {nv} {base} {}",
            free.iter().map(|v| v.to_string()).collect::<Vec<_>>().join(",")
        ));
        let mut len = 2usize;
        for v in 0..nv {
            out.line(&format!("var {v}"));
            len += 1;
        }
        let nops = r.range(380, 520);
        let pool = 40usize;
        for _ in 0..nops {
            let pick = |r: &mut Rng| len - 1 - r.usize(pool.min(len - 2));
            let a = pick(r);
            let b = pick(r);
            match r.below(16) {
                0 => out.line(&format!("var {}", r.usize(nv))),
                1 => out.line(&format!("not #{a}")),
                2..=4 => out.line(&format!("and #{a} #{b}")),
                5..=7 => out.line(&format!("or #{a} #{b}")),
                8 => out.line(&format!("imp #{a} #{b}")),
                9 | 10 => out.line(&format!("iff #{a} #{b}")),
                11..=14 => out.line(&format!("xor #{a} #{b}")),
                _ => {
                    // restrictions that stay inside the sampled sub-cube
                    let v = r.usize(nv);
                    let c = if free.contains(&v) { r.below(2) } else { (base >> v) & 1 };
                    out.line(&format!("restrict #{a} {v} {c}"));
                }
            }
            len += 1;
        }
        out.line("finish");
    }
}

/// few variables with LARGE, sparse indices (around 32, 64, 128, 256, 65 536 and 2^32): the
/// sampled mode of `newbig` with exactly these variables free is a complete truth-table oracle
pub fn gen_sparse(r: &mut Rng, cases: usize, out: &mut Out) {
    let hot: [u64; 22] = [
        0, 1, 30, 31, 32, 33, 62, 63, 64, 65, 66, 127, 128, 129, 255, 256, 257, 65535, 65536, 65537, 1 << 31, (1 << 32) + 1,
    ];
    for case in 0..cases {
        let k = r.range(2, 7);
        let mut vars: Vec<u64> = Vec::new();
        while vars.len() < k {
            let c = hot[r.usize(hot.len())];
            if !vars.contains(&c) {
                vars.push(c);
            }
        }
        vars.sort_unstable();
        let n = vars[k - 1] + 1 + r.below(3);
        out.line(&format!("case bddsparse-{case}"));
        out.line(&format!("newbig {n} 0 {}", vars.iter().map(|v| v.to_string()).collect::<Vec<_>>().join(",")));
        let mut len = 2usize;
        // variables are created in random order
        let mut order = vars.clone();
        for i in (1..order.len()).rev() {
            order.swap(i, r.usize(i + 1));
        }
        for v in order.iter().take(r.range(1, k)) {
            out.line(&format!("var {v}"));
            len += 1;
        }
        for _ in 0..r.range(4, 40) {
            let pick = |r: &mut Rng| if len > 4 && r.chance(2, 3) { len - 1 - r.usize(4.min(len)) } else { r.usize(len) };
            let a = pick(r);
            let b = pick(r);
            match r.below(16) {
                0 | 1 => out.line(&format!("var {}", vars[r.usize(k)])),
                2 | 3 => out.line(&format!("not #{a}")),
                4 | 5 => out.line(&format!("and #{a} #{b}")),
                6 | 7 => out.line(&format!("or #{a} #{b}")),
                8 => out.line(&format!("imp #{a} #{b}")),
                9 | 10 => out.line(&format!("iff #{a} #{b}")),
                11 | 12 => out.line(&format!("xor #{a} #{b}")),
                13 => out.line(&format!("const {}", r.below(2))),
                _ => {
                    if r.chance(1, 5) {
                        // a variable no diagram depends on (restricted to its base value)
                        out.line(&format!("restrict #{a} {} 0", vars[r.usize(k)] + 3));
                    } else {
                        out.line(&format!("restrict #{a} {} {}", vars[r.usize(k)], r.below(2)));
                    }
                }
            }
            len += 1;
        }
        for a in 0..len {
            out.line(&format!("q #{a}"));
        }
        out.line("finish");
    }
}

/// exhaustive small scope: EVERY sequence of `len` operations over `nv` variables (operands: any
/// earlier result or a terminal), each followed by the audit of `finish`
pub fn gen_exh(nv: usize, len: usize, out: &mut Out) {
    fn options(nv: usize, h: usize) -> Vec<String> {
        let mut o = Vec::new();
        for v in 0..nv {
            o.push(format!("var {v}"));
        }
        for a in 0..h {
            o.push(format!("not #{a}"));
            for b in 0..h {
                for op in ["and", "or", "imp", "iff", "xor"] {
                    o.push(format!("{op} #{a} #{b}"));
                }
            }
            for v in 0..nv {
                for c in 0..2 {
                    o.push(format!("restrict #{a} {v} {c}"));
                }
            }
        }
        o
    }
    fn rec(nv: usize, len: usize, cur: &mut Vec<String>, case: &mut usize, out: &mut Out) {
        if cur.len() == len {
            out.line(&format!("case bddexh-{}", *case));
            *case += 1;
            out.line(&format!("new {nv}"));
            for l in cur.iter() {
                out.line(l);
            }
            out.line("finish");
            return;
        }
        for o in options(nv, 2 + cur.len()) {
            cur.push(o);
            rec(nv, len, cur, case, out);
            cur.pop();
        }
    }
    let mut case = 0;
    rec(nv, len, &mut Vec::new(), &mut case, out);
}

pub fn gen(r: &mut Rng, cases: usize, size: usize, out: &mut Out) {
    let maxv = if size == 0 { 6 } else { size };
    for case in 0..cases {
        let nv = r.range(2.min(maxv), maxv);
        out.line(&format!("case bdd-{case}"));
        out.line(&format!("new {nv}"));
        let nops = r.range(3, 40);
        let mut len = 2usize; // history: #0 = bot, #1 = top
        // operand choice biased towards recent results so that diagrams grow
        let pick = |r: &mut Rng, len: usize| -> usize {
            if len > 4 && r.chance(2, 3) {
                len - 1 - r.usize(4.min(len))
            } else {
                r.usize(len)
            }
        };
        // most cases start by creating (some of) the variables, in random order
        if r.chance(4, 5) {
            let mut vs: Vec<usize> = (0..nv).collect();
            for i in (1..vs.len()).rev() {
                vs.swap(i, r.usize(i + 1));
            }
            let k = r.range(1, nv);
            for v in vs.iter().take(k) {
                out.line(&format!("var {v}"));
                len += 1;
            }
        }
        for _ in 0..nops {
            let a = pick(r, len);
            let b = pick(r, len);
            match r.below(16) {
                0 | 1 => out.line(&format!("var {}", r.usize(nv))),
                2 | 3 => out.line(&format!("not #{a}")),
                4 | 5 => out.line(&format!("and #{a} #{b}")),
                6 | 7 => out.line(&format!("or #{a} #{b}")),
                8 => out.line(&format!("imp #{a} #{b}")),
                9 | 10 => out.line(&format!("iff #{a} #{b}")),
                11 | 12 => out.line(&format!("xor #{a} #{b}")),
                13 => out.line(&format!("const {}", r.below(2))),
                _ => out.line(&format!("restrict #{a} {} {}", r.usize(nv), r.below(2))),
            }
            len += 1;
        }
        for a in 0..len {
            out.line(&format!("q #{a}"));
            if r.chance(1, 2) {
                out.line(&format!("cubes #{a} {} {}", r.below(2), r.usize(nv)));
            }
        }
        // a few impact queries; in one case of twelve several hundred on the same store, drawn from a small pool
        // so that the same query comes back after hundreds of others (anything that keeps per-node marks,
        // counters or rounds between queries)
        let many = r.chance(1, 12);
        let pool: Vec<String> = (0..if many { 40 } else { 3 })
            .map(|_| {
                let k = if many { r.range(1, 2) } else { r.range(1, 6) };
                let list: Vec<String> = (0..k).map(|_| format!("#{}", r.usize(len))).collect();
                format!("impact {} {}", r.usize(k), list.join(" "))
            })
            .collect();
        // random order: a query returns after a RANDOM number of others (gaps of every length, also exact
        // multiples of small counter periods)
        let reps = if many { r.range(1200, 1600) } else { pool.len() };
        for i in 0..reps {
            let j = if many { r.usize(pool.len()) } else { i % pool.len() };
            out.line(&pool[j]);
        }
        out.line("finish");
    }
}

pub fn dump_nodes(bdd: &Bdd) -> String {
    bdd.nodes
        .iter()
        .map(|n| format!("{},{},{}", n.var().value(), n.lo().value(), n.hi().value()))
        .collect::<Vec<_>>()
        .join(";")
}

/// truth table of a handle by walking the real node table; bit `a` = value under the
/// assignment whose bit `v` is the value of variable `v`
pub fn truth_table(bdd: &Bdd, t: Term, nv: usize) -> u128 {
    let mut tt = 0u128;
    for a in 0..(1u128 << nv) {
        let mut cur = t;
        let mut steps = 0;
        while !cur.is_truth_value() {
            let n = bdd.nodes[cur.value()];
            let v = n.var().value();
            cur = if v < 128 && (a >> v) & 1 == 1 { n.hi() } else { n.lo() };
            steps += 1;
            if steps > bdd.nodes.len() {
                break;
            }
        }
        if cur.is_true() {
            tt |= 1 << a;
        }
    }
    tt
}

/// value of a handle on the sampled sub-cube: bit `s` = value under the assignment in which
/// free variable `free[j]` has bit `j` of `s` and every other variable its bit of `base`
pub fn sample_table(bdd: &Bdd, t: Term, base: u64, free: &[usize]) -> u128 {
    let mut tt = 0u128;
    for s in 0..(1u128 << free.len()) {
        let mut cur = t;
        let mut steps = 0;
        while !cur.is_truth_value() {
            let n = bdd.nodes[cur.value()];
            let v = n.var().value();
            let bit = match free.iter().position(|f| *f == v) {
                Some(j) => (s >> j) & 1 == 1,
                None => v < 64 && (base >> v) & 1 == 1,
            };
            cur = if bit { n.hi() } else { n.lo() };
            steps += 1;
            if steps > bdd.nodes.len() {
                break;
            }
        }
        if cur.is_true() {
            tt |= 1 << s;
        }
    }
    tt
}

#[derive(Default)]
pub struct Exec {
    bdd: Option<Bdd>,
    hist: Vec<Term>,
    nv: usize,
    /// sampled mode (`newbig`): base assignment and free variables
    big: Option<(u64, Vec<usize>)>,
}

fn idx(s: &str) -> Option<usize> {
    s.strip_prefix('#')?.parse().ok()
}

impl Exec {
    fn h(&self, s: &str) -> Option<Term> {
        self.hist.get(idx(s)?).copied()
    }

    pub fn exec(&mut self, ws: &[&str], l: &str, out: &mut Out) -> bool {
        match ws[0] {
            "new" if ws.len() == 2 => {
                self.bdd = Some(Bdd::new());
                self.hist = vec![Term::BOT, Term::TOP];
                self.nv = ws[1].parse().unwrap_or(0);
                self.big = None;
                out.line(l);
                true
            }
            "newbig" if ws.len() == 4 => {
                self.bdd = Some(Bdd::new());
                self.hist = vec![Term::BOT, Term::TOP];
                self.nv = ws[1].parse().unwrap_or(0);
                let base: u64 = ws[2].parse().unwrap_or(0);
                let free: Vec<usize> = ws[3].split(',').filter_map(|x| x.parse().ok()).collect();
                self.big = Some((base, free));
                out.line(l);
                true
            }
            "var" | "not" | "and" | "or" | "imp" | "iff" | "xor" | "restrict" | "const" => {
                out.line(l);
                out.flush();
                let res = catch_unwind(AssertUnwindSafe(|| self.op(ws)));
                match res {
                    Ok(Some(t)) => {
                        self.hist.push(t);
                        out.line(&format!("= {}", t.value()));
                        let bdd = self.bdd.as_ref().unwrap();
                        let big = self.big.clone();
                        match catch_unwind(AssertUnwindSafe(|| match &big {
                            Some((base, free)) => sample_table(bdd, t, *base, free),
                            None => truth_table(bdd, t, self.nv),
                        })) {
                            Ok(tt) => out.line(&format!("~ {tt}")),
                            Err(_) => out.line("~ panic"),
                        }
                    }
                    Ok(None) => {
                        self.hist.push(Term::BOT);
                        out.line("= bad-request");
                        out.line("~ bad-request");
                    }
                    Err(_) => {
                        self.hist.push(Term::BOT);
                        out.line("= panic");
                        out.line("~ panic");
                    }
                }
                true
            }
            "q" if ws.len() == 2 => {
                out.line(l);
                out.flush();
                let r = catch_unwind(AssertUnwindSafe(|| self.query(ws[1])));
                match r {
                    Ok(Some((eq, sp))) => {
                        out.line(&format!("= {eq}"));
                        // sampled mode: counts are compared with the algorithmic model only
                        out.line(&format!("~ {}", if self.big.is_some() { "skipped" } else { &sp }));
                    }
                    Ok(None) => {
                        out.line("= bad-request");
                        out.line("~ bad-request");
                    }
                    Err(_) => {
                        out.line("= panic");
                        out.line("~ panic");
                    }
                }
                true
            }
            "cubes" if ws.len() == 4 => {
                out.line(l);
                out.flush();
                let r = catch_unwind(AssertUnwindSafe(|| {
                    let t = self.h(ws[1])?;
                    let goal = ws[2] == "1";
                    let gv: usize = ws[3].parse().ok()?;
                    let bdd = self.bdd.as_ref()?;
                    let cubes = bdd.interpretations(t, goal, Var(gv), &[], &[]);
                    Some(
                        cubes
                            .iter()
                            .map(|(n, p)| {
                                format!(
                                    "{}/{}",
                                    n.iter().map(|v| v.value().to_string()).collect::<Vec<_>>().join(","),
                                    p.iter().map(|v| v.value().to_string()).collect::<Vec<_>>().join(",")
                                )
                            })
                            .collect::<Vec<_>>()
                            .join(";"),
                    )
                }));
                match r {
                    Ok(Some(s)) => {
                        out.line(&format!("= {}", if s.is_empty() { "-" } else { &s }));
                        // the implementation's cubes are handed to the specification-level checker
                        out.line(&format!("cubecheck {} {} {} {}", ws[1], ws[2], ws[3], if s.is_empty() { "-" } else { &s }));
                        out.line("~ ok");
                    }
                    Ok(None) => out.line("= bad-request"),
                    Err(_) => out.line("= panic"),
                }
                true
            }
            "cubecheck" => true, // regenerated by `cubes`
            "impact" if ws.len() >= 3 => {
                out.line(l);
                out.flush();
                let r = catch_unwind(AssertUnwindSafe(|| {
                    let var: usize = ws[1].parse().ok()?;
                    let list: Option<Vec<Term>> = ws[2..].iter().map(|s| self.h(s)).collect();
                    let list = list?;
                    let bdd = self.bdd.as_ref()?;
                    let p = bdd.passive_var_impact(Var(var), &list);
                    let a = bdd.active_var_impact(Var(var), &list);
                    Some(format!("{p} {a}"))
                }));
                match r {
                    Ok(Some(s)) => {
                        out.line(&format!("= {s}"));
                        out.line(&format!("~ {s}"));
                    }
                    Ok(None) => {
                        out.line("= bad-request");
                        out.line("~ bad-request");
                    }
                    Err(_) => {
                        out.line("= panic");
                        out.line("~ panic");
                    }
                }
                true
            }
            "finish" if self.bdd.is_some() => {
                let bdd = self.bdd.as_ref().unwrap();
                let table = dump_nodes(bdd);
                out.line("dump");
                out.line(&format!("= {table}"));
                out.line(&format!("wfcheck {table}"));
                out.line("~ true");
                if let Some((base, free)) = &self.big {
                    out.line("alltt");
                    out.line(&format!(
                        "~ {}",
                        self.hist.iter().map(|t| sample_table(bdd, *t, *base, free).to_string()).collect::<Vec<_>>().join(",")
                    ));
                    #[cfg(adf_obdd_verif)]
                    let memo = {
                        let (_, ite, res, _, _) = bdd.verif_dump_tables();
                        ite.len() + res.len()
                    };
                    #[cfg(not(adf_obdd_verif))]
                    let memo = 0;
                    out.line(&format!(
                        "# case bddbig nodes={} ops={} nv={} memo={}",
                        bdd.nodes.len() - 2,
                        self.hist.len() - 2,
                        self.nv,
                        memo
                    ));
                    return true;
                }
                // partition of the history by implementation handle
                out.line("classes");
                out.line(&format!("~ {}", classes(&self.hist.iter().map(|t| t.value() as u128).collect::<Vec<_>>())));
                // every issued handle re-evaluated at the end: earlier results must not have changed
                out.line("alltt");
                out.line(&format!(
                    "~ {}",
                    self.hist.iter().map(|t| truth_table(bdd, *t, self.nv).to_string()).collect::<Vec<_>>().join(",")
                ));
                #[cfg(adf_obdd_verif)]
                {
                    // the audit of the private tables checks the proofs' INVARIANT on the real object;
                    // it is part of the tie (correspondence channel), not of a property's statement
                    out.line(&format!("memocheck {} {}", table, dump_tables(bdd)));
                    out.line("= audit ok");
                }
                let inner = bdd.nodes.len() - 2;
                out.line(&format!("# case bdd nodes={} ops={} nv={}", inner, self.hist.len() - 2, self.nv));
                true
            }
            "qdeep" if ws.len() == 2 => {
                // counts on a diagram with `k` levels (conjunction of k variables) on a fresh store
                out.line(l);
                out.flush();
                let k: usize = ws[1].parse().unwrap_or(1).max(1);
                let r = catch_unwind(AssertUnwindSafe(|| {
                    let mut b = Bdd::new();
                    let mut t = b.variable(Var(k - 1));
                    for v in (0..k - 1).rev() {
                        let x = b.variable(Var(v));
                        t = b.and(x, t);
                    }
                    let m = b.models(t, false);
                    let p = b.paths(t, false);
                    // a near tie at full scale: x0 and not(x1 and ... and x_{k-1}) has one model fewer than
                    // half of all assignments, its negation one more
                    let (lt, gt) = if k >= 2 && k <= 64 {
                        let x0 = b.variable(Var(0));
                        let mut c = b.variable(Var(k - 1));
                        for v in (1..k - 1).rev() {
                            let x = b.variable(Var(v));
                            c = b.and(x, c);
                        }
                        let nc = b.not(c);
                        let f = b.and(x0, nc);
                        let nf = b.not(f);
                        let mf = b.models(f, false);
                        let mnf = b.models(nf, false);
                        (
                            format!("{}", mf.more_models() as u8),
                            format!("{}", mnf.more_models() as u8),
                        )
                    } else {
                        ("-".to_string(), "-".to_string())
                    };
                    format!(
                        "models {} {} paths {} {} depth {} neartie-more {} {}",
                        m.cmodels, m.models, p.cmodels, p.models, b.max_depth(t), lt, gt
                    )
                }));
                match r {
                    Ok(s) => out.line(&format!("~ {s}")),
                    Err(_) => out.line("~ panic"),
                }
                out.line(&format!("# case bdd levels={k}"));
                true
            }
            "dump" | "wfcheck" | "classes" | "memocheck" | "alltt" => true, // regenerated by `finish`
            _ => false,
        }
    }

    fn op(&mut self, ws: &[&str]) -> Option<Term> {
        let bdd = self.bdd.as_mut()?;
        let h = |s: &str| -> Option<Term> { self.hist.get(idx(s)?).copied() };
        Some(match (ws[0], ws.len()) {
            ("var", 2) => bdd.variable(Var(ws[1].parse().ok()?)),
            ("const", 2) => Bdd::constant(ws[1] == "1"),
            ("not", 2) => bdd.not(h(ws[1])?),
            ("and", 3) => bdd.and(h(ws[1])?, h(ws[2])?),
            ("or", 3) => bdd.or(h(ws[1])?, h(ws[2])?),
            ("imp", 3) => bdd.imp(h(ws[1])?, h(ws[2])?),
            ("iff", 3) => bdd.iff(h(ws[1])?, h(ws[2])?),
            ("xor", 3) => bdd.xor(h(ws[1])?, h(ws[2])?),
            ("restrict", 4) => bdd.restrict(h(ws[1])?, Var(ws[2].parse().ok()?), ws[3] == "1"),
            _ => return None,
        })
    }

    /// all count-like queries on one handle: `=` line as the implementation answers (compared
    /// with the algorithmic model), `~` line normalised to facts about the Boolean function
    fn query(&self, s: &str) -> Option<(String, String)> {
        let t = self.h(s)?;
        let bdd = self.bdd.as_ref()?;
        // the queries share a cache: ask in both orders (depth first for every other handle)
        let depth_first = idx(s).map(|k| k % 2 == 1).unwrap_or(false);
        let d0 = if depth_first { Some(bdd.max_depth(t)) } else { None };
        let pn = bdd.paths(t, false);
        let pm = bdd.paths(t, true);
        let mn = bdd.models(t, false);
        // memoised model counting is documented not to work with adhoccounting without adhoccountmodels
        let exception = cfg!(feature = "adhoccounting") && !cfg!(feature = "adhoccountmodels");
        let mm = if exception { None } else { Some(bdd.models(t, true)) };
        let d = bdd.max_depth(t);
        if let Some(d0) = d0 {
            if d0 != d {
                return Some((format!("depth-unstable {d0} {d}"), format!("depth-unstable {d0} {d}")));
            }
        }
        let mut deps: Vec<usize> = bdd.var_dependencies(t).iter().map(|v| v.value()).collect();
        deps.sort_unstable();
        let deps_s = deps.iter().map(|v| v.to_string()).collect::<Vec<_>>().join(",");
        let mm_s = match mm {
            Some(m) => format!("{} {}", m.cmodels, m.models),
            None => "- -".to_string(),
        };
        let eq = format!(
            "paths {} {} pathsmemo {} {} models {} {} modelsmemo {} depth {} deps [{}] more {}",
            pn.cmodels, pn.models, pm.cmodels, pm.models, mn.cmodels, mn.models, mm_s, d, deps_s,
            mn.more_models() as u8
        );
        // normalised: number of falsifying / satisfying assignments over nv variables
        let sp = if d <= self.nv {
            let f = 1u128 << (self.nv - d);
            // the memoised counters must tell the same numbers (models: outside the documented exception)
            let satmemo = match mm {
                Some(m) => format!("{} {}", m.cmodels as u128 * f, m.models as u128 * f),
                None => "- -".to_string(),
            };
            format!(
                "sat {} {} satmemo {} pathsmemo {} {} paths {} {} depth {} deps [{}] more {}",
                mn.cmodels as u128 * f,
                mn.models as u128 * f,
                satmemo,
                pm.cmodels,
                pm.models,
                pn.cmodels,
                pn.models,
                d,
                deps_s,
                mn.more_models() as u8
            )
        } else {
            format!("depth-exceeds-variables {d}")
        };
        Some((eq, sp))
    }
}

/// canonical rendering of the partition of positions induced by equal keys
pub fn classes(keys: &[u128]) -> String {
    let mut seen: Vec<u128> = Vec::new();
    let mut groups: Vec<Vec<usize>> = Vec::new();
    for (i, k) in keys.iter().enumerate() {
        if let Some(p) = seen.iter().position(|x| x == k) {
            groups[p].push(i);
        } else {
            seen.push(*k);
            groups.push(vec![i]);
        }
    }
    groups
        .iter()
        .map(|g| g.iter().map(|i| i.to_string()).collect::<Vec<_>>().join(","))
        .collect::<Vec<_>>()
        .join("|")
}

#[cfg(adf_obdd_verif)]
pub fn dump_tables(bdd: &Bdd) -> String {
    let (uniq, ite, res, cnt, deps) = bdd.verif_dump_tables();
    let u = uniq
        .iter()
        .map(|(n, t)| format!("{},{},{},{}", n.var().value(), n.lo().value(), n.hi().value(), t.value()))
        .collect::<Vec<_>>()
        .join(";");
    let i = ite
        .iter()
        .map(|((a, b, c), r)| format!("{},{},{},{}", a.value(), b.value(), c.value(), r.value()))
        .collect::<Vec<_>>()
        .join(";");
    let r = res
        .iter()
        .map(|((t, v, b), r)| format!("{},{},{},{}", t.value(), v.value(), *b as u8, r.value()))
        .collect::<Vec<_>>()
        .join(";");
    let c = cnt
        .iter()
        .map(|(t, (m, p, d))| format!("{},{},{},{},{},{}", t.value(), m.cmodels, m.models, p.cmodels, p.models, d))
        .collect::<Vec<_>>()
        .join(";");
    let d = deps
        .iter()
        .map(|v| v.iter().map(|x| x.value().to_string()).collect::<Vec<_>>().join(","))
        .collect::<Vec<_>>()
        .join(";");
    let e = |s: String| if s.is_empty() { "-".to_string() } else { s };
    format!(
        "uniq={} ite={} res={} cnt={} deps={}",
        e(u),
        e(i),
        e(r),
        e(c),
        if cfg!(feature = "variablelist") { e(d) } else { "off".to_string() }
    )
}
