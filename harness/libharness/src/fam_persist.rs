//! Persistence family (C14): one `Adf` object (ordering, diagram store, root handles) lives through
//! a random history of diagram operations and semantics computations; at random points it is sent
//! through `serde_json` + `fix_import`, or through the web service's string DTO +
//! `Bdd::from(nodes)` + `Adf::from((ordering, bdd, ac))`, and then lives on.  A twin that is never
//! exported receives the same requests; `~ twin=1` says that both gave the same answer.
//! Protocol: see `AdfObdd/Drv/Persist.lean`.
use crate::fam_bdd::{dump_nodes, truth_table};
use crate::{rng::Rng, Out};
use adf_bdd::adf::Adf;
use adf_bdd::datatypes::adf::VarContainer;
use adf_bdd::datatypes::{BddNode, Term, Var};
use adf_bdd::obdd::Bdd;
use std::collections::HashMap;
use std::panic::{catch_unwind, AssertUnwindSafe};
use std::sync::{Arc, RwLock};

pub fn gen(r: &mut Rng, cases: usize, size: usize, out: &mut Out) {
    let maxv = if size == 0 { 5 } else { size };
    for case in 0..cases {
        let nv = r.range(2.min(maxv), maxv);
        out.line(&format!("case persist-{case}"));
        // statement labels with everything serde_json has to escape or pass through; chosen without
        // the generator so that the rest of the stream is what it was
        let labels: Vec<String> = (0..nv).map(|i| format!("x{}", hex(&label(case, i)))).collect();
        out.line(&format!("pnew {nv} {}", labels.join(" ")));
        let mut len = 2usize;
        let pick = |r: &mut Rng, len: usize| -> usize {
            if len > 4 && r.chance(2, 3) {
                len - 1 - r.usize(4.min(len))
            } else {
                r.usize(len)
            }
        };
        let trip = |r: &mut Rng, out: &mut Out| {
            out.line(match r.below(5) {
                0 | 1 => "pjson",
                2 | 3 => "prebuild",
                _ => "prebuildstream",
            });
        };
        // a fresh object is a point of its life too
        if r.chance(1, 6) {
            trip(r, out);
        }
        let mut vs: Vec<usize> = (0..nv).collect();
        for i in (1..vs.len()).rev() {
            vs.swap(i, r.usize(i + 1));
        }
        for v in vs.iter().take(r.range(1, nv)) {
            out.line(&format!("pop var {v}"));
            len += 1;
        }
        let phases = r.range(1, 4);
        let mut have_ac = false;
        for _ in 0..phases {
            for _ in 0..r.range(1, 10) {
                let a = pick(r, len);
                let b = pick(r, len);
                match r.below(15) {
                    0 | 1 => out.line(&format!("pop var {}", r.usize(nv))),
                    2 | 3 => out.line(&format!("pop not #{a}")),
                    4 | 5 => out.line(&format!("pop and #{a} #{b}")),
                    6 | 7 => out.line(&format!("pop or #{a} #{b}")),
                    8 => out.line(&format!("pop imp #{a} #{b}")),
                    9 | 10 => out.line(&format!("pop iff #{a} #{b}")),
                    11 | 12 => out.line(&format!("pop xor #{a} #{b}")),
                    _ => out.line(&format!("pop restrict #{a} {} {}", r.usize(nv), r.below(2))),
                }
                len += 1;
            }
            if !have_ac || r.chance(1, 3) {
                let acs: Vec<String> = (0..nv).map(|_| format!("#{}", pick(r, len))).collect();
                out.line(&format!("pac {}", acs.join(" ")));
                have_ac = true;
            }
            // computations before the trip warm the memo tables and grow the node table
            if r.chance(1, 2) {
                out.line(&format!("psem {}", ["grounded", "complete", "stable"][r.usize(3)]));
            }
            trip(r, out);
            if r.chance(1, 5) {
                trip(r, out); // twice in a row
            }
            // life after the trip: queries, restrictions, semantics
            for _ in 0..r.range(1, 4) {
                match r.below(4) {
                    0 => out.line(&format!("pq #{}", pick(r, len))),
                    1 => {
                        out.line(&format!("pop restrict #{} {} {}", pick(r, len), r.usize(nv), r.below(2)));
                        len += 1;
                    }
                    2 => out.line(&format!("psem {}", ["grounded", "complete", "stable"][r.usize(3)])),
                    _ => {
                        out.line(&format!("pop xor #{} #{}", pick(r, len), pick(r, len)));
                        len += 1;
                    }
                }
            }
        }
        for a in 0..len {
            if r.chance(1, 3) {
                out.line(&format!("pq #{a}"));
            }
        }
        out.line("pfinish");
    }
}

struct Obj {
    adf: Adf,
    twin: Adf,
    hist: Vec<Term>,
    nv: usize,
    trips: usize,
    twin_ok: bool,
}

#[derive(Default)]
pub struct Exec {
    o: Option<Obj>,
}

const LABEL_POOL: [&str; 20] = [
    "a",
    "q\"x",
    "back\\slash",
    "tab\there",
    "nl\nx",
    "\u{1}\u{1f}",
    "\u{e9}t\u{e9}",
    "\u{65e5}\u{672c}\u{8a9e}",
    "\u{1f600}",
    "\u{7f}",
    "sp ace",
    "/slash",
    "\u{8}\u{c}\r",
    "{[:,]}",
    "",
    "0",
    "\u{80}\u{7ff}\u{800}\u{ffff}\u{10000}\u{10ffff}",
    "\\u0041",
    "\"",
    "\\",
];

fn label(case: usize, i: usize) -> String {
    let n = LABEL_POOL.len();
    format!("{}{}", LABEL_POOL[(case * 3 + i) % n], if i >= n { i.to_string() } else { String::new() })
}

fn hex(s: &str) -> String {
    s.bytes().map(|b| format!("{b:02x}")).collect()
}

fn unhex(s: &str) -> Option<String> {
    let b = s.as_bytes();
    if b.len() % 2 != 0 {
        return None;
    }
    let mut v = Vec::new();
    for i in (0..b.len()).step_by(2) {
        v.push(u8::from_str_radix(std::str::from_utf8(&b[i..i + 2]).ok()?, 16).ok()?);
    }
    String::from_utf8(v).ok()
}

fn or_dash(v: Vec<String>, sep: &str) -> String {
    if v.is_empty() {
        "-".into()
    } else {
        v.join(sep)
    }
}

/// the persisted state of a real object, maps sorted by value: names, mapping, node table, ac and
/// the unique table (private; read through `serde_json::Value`)
fn canon_state(a: &Adf) -> String {
    let names: Vec<String> = a.ordering.names().read().unwrap().iter().map(|n| format!("x{}", hex(n))).collect();
    let mut map: Vec<(usize, String)> = a.ordering.mappings().read().unwrap().iter().map(|(k, v)| (*v, k.clone())).collect();
    map.sort();
    let v = serde_json::to_value(a).expect("value");
    let num = |x: &serde_json::Value| x.as_u64().expect("number");
    let mut cache: Vec<(u64, u64, u64, u64)> = v["bdd"]["cache"]
        .as_array()
        .expect("cache")
        .iter()
        .map(|e| (num(&e[1]), num(&e[0]["var"]), num(&e[0]["lo"]), num(&e[0]["hi"])))
        .collect();
    cache.sort();
    format!(
        "names {} map {} nodes {} ac {} cache {}",
        or_dash(names, ","),
        or_dash(map.iter().map(|(v, k)| format!("x{}:{}", hex(k), v)).collect(), ","),
        dump_nodes(&a.bdd),
        or_dash(a.ac.iter().map(|t| t.value().to_string()).collect(), ","),
        or_dash(cache.iter().map(|(t, v, l, h)| format!("{v},{l},{h}>{t}")).collect(), ";")
    )
}

/// whitespace before token `i` in variant `k` of the hand-assembled text
fn wsp(k: usize, i: usize) -> &'static str {
    if k == 0 {
        ""
    } else {
        [" ", "", "\n", "\t\r ", "", "  "][i % 6]
    }
}

/// the text of the object assembled token by token in a prescribed order of the two maps (by value,
/// ascending for variant 0, descending otherwise) with the whitespace of the variant between the
/// tokens; strings and numbers are rendered by `serde_json` itself.  The model driver prints the
/// same text from its own state with its own printer: a difference in one byte is a finding.
fn assemble(a: &Adf, k: usize) -> String {
    let js = |s: &str| serde_json::to_string(s).expect("string");
    let mut t: Vec<String> = Vec::new();
    let p = |t: &mut Vec<String>, s: &str| t.push(s.to_string());
    let node = |t: &mut Vec<String>, v: u64, l: u64, h: u64| {
        for (i, (key, x)) in [("var", v), ("lo", l), ("hi", h)].iter().enumerate() {
            t.push(if i == 0 { "{".into() } else { ",".into() });
            t.push(js(key));
            t.push(":".into());
            t.push(x.to_string());
        }
        t.push("}".into());
    };
    let mut map: Vec<(usize, String)> = a.ordering.mappings().read().unwrap().iter().map(|(k, v)| (*v, k.clone())).collect();
    map.sort();
    let v = serde_json::to_value(a).expect("value");
    let num = |x: &serde_json::Value| x.as_u64().expect("number");
    let mut cache: Vec<(u64, u64, u64, u64)> = v["bdd"]["cache"]
        .as_array()
        .expect("cache")
        .iter()
        .map(|e| (num(&e[1]), num(&e[0]["var"]), num(&e[0]["lo"]), num(&e[0]["hi"])))
        .collect();
    cache.sort();
    if k != 0 {
        map.reverse();
        cache.reverse();
    }
    p(&mut t, "{");
    t.push(js("ordering"));
    p(&mut t, ":");
    p(&mut t, "{");
    t.push(js("names"));
    p(&mut t, ":");
    p(&mut t, "[");
    for (i, n) in a.ordering.names().read().unwrap().iter().enumerate() {
        if i > 0 {
            p(&mut t, ",");
        }
        t.push(js(n));
    }
    p(&mut t, "]");
    p(&mut t, ",");
    t.push(js("mapping"));
    p(&mut t, ":");
    p(&mut t, "{");
    for (i, (val, key)) in map.iter().enumerate() {
        if i > 0 {
            p(&mut t, ",");
        }
        t.push(js(key));
        p(&mut t, ":");
        t.push(val.to_string());
    }
    p(&mut t, "}");
    p(&mut t, "}");
    p(&mut t, ",");
    t.push(js("bdd"));
    p(&mut t, ":");
    p(&mut t, "{");
    t.push(js("nodes"));
    p(&mut t, ":");
    p(&mut t, "[");
    for (i, n) in a.bdd.nodes.iter().enumerate() {
        if i > 0 {
            p(&mut t, ",");
        }
        node(&mut t, n.var().value() as u64, n.lo().value() as u64, n.hi().value() as u64);
    }
    p(&mut t, "]");
    p(&mut t, ",");
    t.push(js("cache"));
    p(&mut t, ":");
    p(&mut t, "[");
    for (i, (term, v, l, h)) in cache.iter().enumerate() {
        if i > 0 {
            p(&mut t, ",");
        }
        p(&mut t, "[");
        node(&mut t, *v, *l, *h);
        p(&mut t, ",");
        t.push(term.to_string());
        p(&mut t, "]");
    }
    p(&mut t, "]");
    p(&mut t, "}");
    p(&mut t, ",");
    t.push(js("ac"));
    p(&mut t, ":");
    p(&mut t, "[");
    for (i, x) in a.ac.iter().enumerate() {
        if i > 0 {
            p(&mut t, ",");
        }
        t.push(x.value().to_string());
    }
    p(&mut t, "]");
    p(&mut t, "}");
    let mut s = String::new();
    for (i, tok) in t.iter().enumerate() {
        s.push_str(wsp(k, i));
        s.push_str(tok);
    }
    s.push_str(wsp(k, t.len()));
    s
}

fn fresh(names: Vec<String>) -> Adf {
    let mapping: HashMap<String, usize> = names.iter().enumerate().map(|(i, n)| (n.clone(), i)).collect();
    Adf::from((
        VarContainer::from_parser(Arc::new(RwLock::new(names)), Arc::new(RwLock::new(mapping))),
        Bdd::new(),
        Vec::new(),
    ))
}

fn idx(s: &str) -> Option<usize> {
    s.strip_prefix('#')?.parse().ok()
}

fn apply_op(bdd: &mut Bdd, hist: &[Term], ws: &[&str]) -> Option<Term> {
    let h = |s: &str| -> Option<Term> { hist.get(idx(s)?).copied() };
    Some(match (ws.first().copied()?, ws.len()) {
        ("var", 2) => bdd.variable(Var(ws[1].parse().ok()?)),
        ("const", 2) => Bdd::constant(ws[1] == "1"),
        ("not", 2) => bdd.not(h(ws[1])?),
        ("and", 3) => bdd.and(h(ws[1])?, h(ws[2])?),
        ("or", 3) => bdd.or(h(ws[1])?, h(ws[2])?),
        ("imp", 3) => bdd.imp(h(ws[1])?, h(ws[2])?),
        ("iff", 3) => bdd.iff(h(ws[1])?, h(ws[2])?),
        ("xor", 3) => bdd.xor(h(ws[1])?, h(ws[2])?),
        ("restrict", 4) => bdd.restrict(h(ws[1])?, Var(ws[2].parse().ok()?), ws[3] == "1"),
        _ => return None,
    })
}

/// `serde_json` export, import, documented repair step
fn trip_json(a: &Adf) -> Adf {
    let text = serde_json::to_string(a).expect("serialise");
    let mut r: Adf = serde_json::from_str(&text).expect("deserialise");
    r.fix_import();
    r
}

/// what `server/src/adf.rs` does: `Adf -> SimplifiedAdf` (every number a decimal string), stored
/// (here: through `serde_json`, the server uses BSON), `SimplifiedAdf -> Adf`
fn trip_rebuild(a: &Adf) -> Adf {
    trip_rebuild_from(a, 0)
}

/// the node list as a channel (`Bdd::with_sender`) delivers it: without the two constants
fn trip_rebuild_stream(a: &Adf) -> Adf {
    trip_rebuild_from(a, 2)
}

fn trip_rebuild_from(a: &Adf, skip: usize) -> Adf {
    type Dto = (Vec<String>, HashMap<String, String>, Vec<(String, String, String)>, Vec<String>);
    let dto: Dto = (
        a.ordering.names().read().unwrap().clone(),
        a.ordering.mappings().read().unwrap().iter().map(|(k, v)| (k.clone(), v.to_string())).collect(),
        a.bdd
            .nodes
            .iter()
            .skip(skip)
            .map(|n| (n.var().0.to_string(), n.lo().0.to_string(), n.hi().0.to_string()))
            .collect(),
        a.ac.iter().map(|t| t.0.to_string()).collect(),
    );
    let stored = serde_json::to_string(&dto).expect("store");
    let (names, mapping, nodes, ac): Dto = serde_json::from_str(&stored).expect("load");
    let bdd = Bdd::from(
        nodes
            .into_iter()
            .map(|(v, l, h)| BddNode::new(Var(v.parse().unwrap()), Term(l.parse().unwrap()), Term(h.parse().unwrap())))
            .collect::<Vec<BddNode>>(),
    );
    Adf::from((
        VarContainer::from_parser(
            Arc::new(RwLock::new(names)),
            Arc::new(RwLock::new(mapping.into_iter().map(|(k, v)| (k, v.parse().unwrap())).collect())),
        ),
        bdd,
        ac.into_iter().map(|t| Term(t.parse().unwrap())).collect(),
    ))
}

fn show_vecs(vs: &[Vec<Term>]) -> String {
    if vs.is_empty() {
        "none".into()
    } else {
        vs.iter()
            .map(|v| format!("[{}]", v.iter().map(|t| t.value().to_string()).collect::<Vec<_>>().join(",")))
            .collect::<Vec<_>>()
            .join("|")
    }
}

fn sem(a: &mut Adf, what: &str) -> Option<Vec<Vec<Term>>> {
    Some(match what {
        "grounded" => vec![a.grounded()],
        "complete" => a.complete().collect(),
        "stable" => a.stable().collect(),
        _ => return None,
    })
}

fn query(b: &Bdd, t: Term) -> String {
    let p = b.paths(t, false);
    let m = b.models(t, false);
    let mut deps: Vec<usize> = b.var_dependencies(t).iter().map(|v| v.value()).collect();
    deps.sort_unstable();
    format!(
        "paths {} {} models {} {} depth {} deps [{}]",
        p.cmodels,
        p.models,
        m.cmodels,
        m.models,
        b.max_depth(t),
        deps.iter().map(|v| v.to_string()).collect::<Vec<_>>().join(",")
    )
}

/// the bookkeeping of the round-tripped object against the original's, through the public queries
/// (`var_dependencies`, `paths`, `models`, `max_depth` read `var_deps` / `count_cache` when the
/// features are on) and through the verification hook for the private tables
fn same_as_original(orig: &Adf, new: &Adf) -> String {
    let n = orig.bdd.nodes.len();
    let nodes = orig.bdd.nodes == new.bdd.nodes;
    let ac = orig.ac == new.ac;
    let names = *orig.ordering.names().read().unwrap() == *new.ordering.names().read().unwrap()
        && *orig.ordering.mappings().read().unwrap() == *new.ordering.mappings().read().unwrap();
    let per_term = |f: &dyn Fn(&Bdd, Term) -> String| -> bool {
        new.bdd.nodes.len() == n
            && (0..n).all(|t| {
                catch_unwind(AssertUnwindSafe(|| f(&new.bdd, Term(t)) == f(&orig.bdd, Term(t)))).unwrap_or(false)
            })
    };
    let deps = per_term(&|b, t| {
        let mut d: Vec<usize> = b.var_dependencies(t).iter().map(|v| v.value()).collect();
        d.sort_unstable();
        format!("{d:?}")
    });
    let cnt = per_term(&|b, t| {
        let p = b.paths(t, false);
        let m = b.models(t, false);
        format!("{} {} {} {} {}", p.cmodels, p.models, m.cmodels, m.models, b.max_depth(t))
    });
    #[cfg(adf_obdd_verif)]
    let (uniq, deps, memo) = {
        let (ou, _, _, _, od) = orig.bdd.verif_dump_tables();
        let (nu, ni, nr, _, nd) = new.bdd.verif_dump_tables();
        // private `var_deps` itself (length and contents), not only what the accessor shows
        (ou == nu, deps && od == nd, ni.is_empty() && nr.is_empty())
    };
    #[cfg(not(adf_obdd_verif))]
    let (uniq, memo) = (true, true);
    format!(
        "nodes={} ac={} names={} uniq={} deps={} cnt={} memo-empty={}",
        nodes as u8, ac as u8, names as u8, uniq as u8, deps as u8, cnt as u8, memo as u8
    )
}

impl Exec {
    pub fn exec(&mut self, ws: &[&str], l: &str, out: &mut Out) -> bool {
        match ws[0] {
            "pnew" if ws.len() >= 2 => {
                let nv = ws[1].parse().unwrap_or(0);
                let given: Option<Vec<String>> = ws[2..].iter().map(|w| unhex(w.strip_prefix('x')?)).collect();
                let names: Vec<String> = match given {
                    Some(g) if g.len() == nv => g,
                    _ => (0..nv).map(|i| format!("s{i}")).collect(),
                };
                self.o = Some(Obj {
                    adf: fresh(names.clone()),
                    twin: fresh(names),
                    hist: vec![Term::BOT, Term::TOP],
                    nv,
                    trips: 0,
                    twin_ok: true,
                });
                out.line(l);
                true
            }
            "pmemocheck" => true, // regenerated by the round trips and `pfinish`
            "pjson" if ws.len() > 1 => true, // `pjson text …` / `pjson lean …`: regenerated by `pjson`
            "pop" | "pac" | "psem" | "pq" | "pjson" | "prebuild" | "prebuildstream" | "pfinish" => {
                out.line(l);
                out.flush();
                let Some(o) = self.o.as_mut() else {
                    out.line("= bad-request");
                    return true;
                };
                match ws[0] {
                    "pop" => {
                        let r = catch_unwind(AssertUnwindSafe(|| {
                            let t = apply_op(&mut o.adf.bdd, &o.hist, &ws[1..])?;
                            let tw = apply_op(&mut o.twin.bdd, &o.hist, &ws[1..])?;
                            Some((t, tw))
                        }));
                        match r {
                            Ok(Some((t, tw))) => {
                                o.hist.push(t);
                                out.line(&format!("= {}", t.value()));
                                match catch_unwind(AssertUnwindSafe(|| truth_table(&o.adf.bdd, t, o.nv))) {
                                    Ok(tt) => out.line(&format!("~ {tt}")),
                                    Err(_) => out.line("~ panic"),
                                }
                                o.twin_ok &= t == tw;
                                out.line(&format!("~ twin={}", (t == tw) as u8));
                            }
                            Ok(None) => {
                                o.hist.push(Term::BOT);
                                out.line("= bad-request");
                                out.line("~ bad-request");
                            }
                            Err(_) => {
                                o.hist.push(Term::BOT);
                                out.line("= panic");
                                out.line("~ panic");
                            }
                        }
                    }
                    "pac" => {
                        let ac: Option<Vec<Term>> = ws[1..].iter().map(|s| o.hist.get(idx(s)?).copied()).collect();
                        match ac {
                            Some(ac) => {
                                o.adf.ac = ac.clone();
                                o.twin.ac = ac;
                            }
                            None => out.line("= bad-request"),
                        }
                    }
                    "psem" if ws.len() == 2 => {
                        let r = catch_unwind(AssertUnwindSafe(|| Some((sem(&mut o.adf, ws[1])?, sem(&mut o.twin, ws[1])?))));
                        match r {
                            Ok(Some((a, b))) => {
                                out.line(&format!("= {}", show_vecs(&a)));
                                o.twin_ok &= a == b;
                                out.line(&format!("~ twin={}", (a == b) as u8));
                            }
                            Ok(None) => {
                                out.line("= bad-request");
                                out.line("~ bad-request");
                            }
                            Err(_) => {
                                out.line("= panic");
                                out.line("~ panic");
                            }
                        }
                    }
                    "pq" if ws.len() == 2 => {
                        let Some(t) = idx(ws[1]).and_then(|i| o.hist.get(i).copied()) else {
                            out.line("= bad-request");
                            out.line("~ bad-request");
                            return true;
                        };
                        match catch_unwind(AssertUnwindSafe(|| (query(&o.adf.bdd, t), query(&o.twin.bdd, t)))) {
                            Ok((a, b)) => {
                                out.line(&format!("= {a}"));
                                // normalised to facts about the Boolean function over nv variables
                                let bdd = &o.adf.bdd;
                                let d = bdd.max_depth(t);
                                if d <= o.nv {
                                    let m = bdd.models(t, false);
                                    let p = bdd.paths(t, false);
                                    let f = 1u128 << (o.nv - d);
                                    let mut deps: Vec<usize> = bdd.var_dependencies(t).iter().map(|v| v.value()).collect();
                                    deps.sort_unstable();
                                    out.line(&format!(
                                        "~ sat {} {} paths {} {} depth {} deps [{}]",
                                        m.cmodels as u128 * f,
                                        m.models as u128 * f,
                                        p.cmodels,
                                        p.models,
                                        d,
                                        deps.iter().map(|v| v.to_string()).collect::<Vec<_>>().join(",")
                                    ));
                                } else {
                                    out.line(&format!("~ depth-exceeds-variables {d}"));
                                }
                                o.twin_ok &= a == b;
                                out.line(&format!("~ twin={}", (a == b) as u8));
                            }
                            Err(_) => {
                                out.line("= panic");
                                out.line("~ panic");
                            }
                        }
                    }
                    "pjson" | "prebuild" | "prebuildstream" => {
                        // the text serde_json writes for the object as it is now, and its state
                        let real_text = if ws[0] == "pjson" {
                            catch_unwind(AssertUnwindSafe(|| (serde_json::to_string(&o.adf).expect("serialise"), canon_state(&o.adf)))).ok()
                        } else {
                            None
                        };
                        let r = catch_unwind(AssertUnwindSafe(|| match ws[0] {
                            "pjson" => trip_json(&o.adf),
                            "prebuild" => trip_rebuild(&o.adf),
                            _ => trip_rebuild_stream(&o.adf),
                        }));
                        match r {
                            Ok(new) => {
                                out.line(&format!(
                                    "= T {} ac {} names {}",
                                    dump_nodes(&new.bdd),
                                    new.ac.iter().map(|t| t.value().to_string()).collect::<Vec<_>>().join(","),
                                    new.ordering.names().read().unwrap().len()
                                ));
                                // observable through the public API: property channel; internal
                                // bookkeeping (unique table, memo tables): correspondence channel
                                let v = same_as_original(&o.adf, &new);
                                let (pubf, intf): (Vec<&str>, Vec<&str>) =
                                    v.split(' ').partition(|w| !(w.starts_with("uniq=") || w.starts_with("memo-empty=")));
                                out.line(&format!("= internal {}", intf.join(" ")));
                                out.line(&format!("~ same-as-original {}", pubf.join(" ")));
                                o.adf = new;
                                o.trips += 1;
                                memocheck(&o.adf.bdd, o.nv, out);
                                if let Some((text, state)) = real_text {
                                    text_level(o, &text, &state, out);
                                }
                            }
                            Err(_) => {
                                out.line("= panic");
                                out.line("~ panic");
                            }
                        }
                    }
                    "pfinish" => {
                        let bdd = &o.adf.bdd;
                        out.line(&format!("= {}", dump_nodes(bdd)));
                        out.line(&format!(
                            "~ {}",
                            o.hist.iter().map(|t| truth_table(bdd, *t, o.nv).to_string()).collect::<Vec<_>>().join(",")
                        ));
                        let table = dump_nodes(bdd);
                        out.line(&format!("wfcheck {table}"));
                        out.line("~ true");
                        memocheck(bdd, o.nv, out);
                        out.line(&format!(
                            "# case persist nodes={} ops={} trips={} nv={} twin={}",
                            bdd.nodes.len() - 2,
                            o.hist.len() - 2,
                            o.trips,
                            o.nv,
                            o.twin_ok as u8
                        ));
                    }
                    _ => out.line("= bad-request"),
                }
                true
            }
            _ => false,
        }
    }
}

/// variations of a text serde_json wrote (keys and punctuation outside string literals are found
/// textually: inside a literal every `"` is escaped, so `,"ac":` cannot occur there)
fn alts(text: &str) -> Vec<String> {
    let mut v = Vec::new();
    let body = &text[..text.len() - 1];
    // older exports carry a field that is skipped today
    v.push(text.replacen("},\"ac\":", ",\"count_cache\":{}},\"ac\":", 1));
    if let (Some(i), Some(j)) = (text.rfind(",\"ac\":"), text.find(",\"bdd\":")) {
        // `ac` first, an unknown field with a nested value
        v.push(format!("{{{},\"zz\":[{{}},[1,\"x\"]],{}}}", &body[i + 1..], &text[1..i]));
        // a missing field
        v.push(format!("{}}}", &text[..i]));
        // the struct as an array of its fields
        v.push(format!("[{},{},{}]", &text[12..j], &text[j + 7..i], &body[i + 6..]));
    }
    // a node as an array; an escaped key; outer whitespace
    v.push(text.replacen("{\"var\":18446744073709551614,\"lo\":0,\"hi\":0}", "[18446744073709551614,0,0]", 1));
    v.push(text.replacen("\"ordering\"", "\"\\u006frd\\u0065ring\"", 1));
    v.push(format!(" \n{text}\t\r\n"));
    // rejected: a repeated field, a leading zero, a trailing comma, trailing characters, a
    // number that is no usize, a member of the inner struct repeated
    v.push(format!("{body},\"ac\":[]}}"));
    v.push(text.replacen("\"lo\":0", "\"lo\":00", 1));
    v.push(text.replacen("]},\"ac\"", ",]},\"ac\"", 1));
    v.push(format!("{text} x"));
    v.push(text.replacen("\"lo\":0", "\"lo\":18446744073709551616", 1));
    v.push(text.replacen("\"lo\":0,", "\"lo\":0,\"lo\":0,", 1));
    v
}

/// the TEXT level of the JSON round trip, both directions.
/// `pjson text <hex>`: the text serde_json really wrote, for the verified reader of the model
/// (`Json.parse`): it answers with the state it read (`=`, compared with the real object's state),
/// whether its own printer reproduces the text byte for byte in the order read, and whether the
/// state equals the model's own (`~`).
/// `pjson lean K`: a text assembled in a prescribed order with prescribed whitespace (the model
/// prints the same text with `Json.render`/`Json.toks`; `= text` compares them byte for byte) is read
/// by the REAL `serde_json::from_str::<Adf>` + `fix_import`; the object lives on as the result.
fn text_level(o: &mut Obj, text: &str, state: &str, out: &mut Out) {
    out.line(&format!("pjson text {}", hex(text)));
    out.line(&format!("= state {state}"));
    out.line("~ reprint=1 model=1");
    if o.trips % 4 == 1 {
        // what else serde's derived visitors accept (fields in another order, unknown fields,
        // structs as arrays, escaped keys, outer whitespace) and what they reject: the model's
        // reader must agree on every one of these texts
        for t in alts(text) {
            out.line(&format!("pjson alt {}", hex(&t)));
            out.flush();
            let r = catch_unwind(AssertUnwindSafe(|| {
                serde_json::from_str::<Adf>(&t).ok().map(|mut a| {
                    a.fix_import();
                    canon_state(&a)
                })
            }));
            match r {
                Ok(Some(st)) => out.line(&format!("= state {st}")),
                Ok(None) => out.line("= unreadable"),
                Err(_) => out.line("= panic"),
            }
        }
    }
    for k in 0..2 {
        out.line(&format!("pjson lean {k}"));
        out.flush();
        let r = catch_unwind(AssertUnwindSafe(|| {
            let t = assemble(&o.adf, k);
            let mut r: Adf = serde_json::from_str(&t).expect("deserialise");
            r.fix_import();
            (t, r)
        }));
        match r {
            Ok((t, new)) => {
                out.line(&format!("= text {}", hex(&t)));
                out.line(&format!("= state {}", canon_state(&new)));
                let v = same_as_original(&o.adf, &new);
                let (pubf, intf): (Vec<&str>, Vec<&str>) =
                    v.split(' ').partition(|w| !(w.starts_with("uniq=") || w.starts_with("memo-empty=")));
                out.line(&format!("= internal {}", intf.join(" ")));
                out.line(&format!("~ same-as-original {}", pubf.join(" ")));
                o.adf = new;
                o.trips += 1;
            }
            Err(_) => {
                out.line("= panic");
                out.line("~ panic");
            }
        }
    }
}

/// every private table of the real object audited against the Boolean functions of its own node
/// table by the checker of the model driver (unique table exact, memo entries true, counts and
/// variable lists right)
#[allow(unused_variables)]
fn memocheck(bdd: &Bdd, nv: usize, out: &mut Out) {
    #[cfg(adf_obdd_verif)]
    {
        let exc = cfg!(feature = "adhoccounting") && !cfg!(feature = "adhoccountmodels");
        out.line(&format!(
            "pmemocheck {} {} {} {}",
            nv,
            exc as u8,
            dump_nodes(bdd),
            crate::fam_bdd::dump_tables(bdd)
        ));
        out.line("= audit ok");
    }
}
