//! Streaming family (C19): producer → relay → receiver over crossbeam channels.
//!
//! Schedule control: the producer `Bdd` lives on its own thread and sends into a ZERO-capacity
//! channel, so it blocks inside `Bdd::node` at every single node creation until the harness takes
//! the message.  The harness forwards messages one by one into the relay's (unbounded) channel
//! (`sdeliver K`) and polls in between, so every cut of the message stream can be placed before
//! every poll, deterministically, while the producer is really suspended in mid-operation.
//!
//! snew | screate <op> | sdeliver K | srelaypoll T | spoll T | sprodpoll T | sjoin | sdump
//! ssoak SEED <ops>   free-running two-thread run (producer thread sends into unbounded channels,
//!                    the main thread polls relay and receiver at random handles meanwhile)
//! Answers as documented in `AdfObdd/Drv/Stream.lean`.
use crate::{rng::Rng, Out};

fn op_line(r: &mut Rng, nv: usize, len: usize) -> String {
    let pick = |r: &mut Rng, len: usize| -> usize {
        if len > 4 && r.chance(2, 3) {
            len - 1 - r.usize(4.min(len))
        } else {
            r.usize(len)
        }
    };
    let a = pick(r, len);
    let b = pick(r, len);
    match r.below(15) {
        0 | 1 => format!("var {}", r.usize(nv)),
        2 | 3 => format!("not #{a}"),
        4 | 5 => format!("and #{a} #{b}"),
        6 | 7 => format!("or #{a} #{b}"),
        8 => format!("imp #{a} #{b}"),
        9 | 10 => format!("iff #{a} #{b}"),
        11 | 12 => format!("xor #{a} #{b}"),
        _ => format!("restrict #{a} {} {}", r.usize(nv), r.below(2)),
    }
}

fn target(r: &mut Rng) -> String {
    match r.below(12) {
        0..=3 => "+0".to_string(),              // the very next handle
        4 | 5 => format!("+{}", r.range(1, 4)), // further ahead
        6 | 7 => format!("-{}", r.range(1, 3)), // already present
        8 => "18446744073709551615".to_string(),
        9 => r.usize(3).to_string(),
        _ => r.range(2, 30).to_string(),
    }
}

fn program(r: &mut Rng, nv: usize, nops: usize) -> Vec<String> {
    let mut ops = Vec::new();
    let mut len = 2usize;
    let mut vs: Vec<usize> = (0..nv).collect();
    for i in (1..vs.len()).rev() {
        vs.swap(i, r.usize(i + 1));
    }
    let k = r.range(1, nv);
    for v in vs.iter().take(k) {
        ops.push(format!("var {v}"));
        len += 1;
    }
    for _ in 0..nops {
        ops.push(op_line(r, nv, len));
        len += 1;
    }
    ops
}

/// `size` = number of variables (0 → 5).  Schedules: lockstep (one message, then polls, as in the
/// design spike), random interleaving, burst (whole program first, then cuts), and — every 8th
/// case, or every case when `size >= 100` — a free-running two-thread soak.
pub fn gen(r: &mut Rng, cases: usize, size: usize, out: &mut Out) {
    let soak_only = size >= 100;
    let nv = match size % 100 {
        0 => 5,
        s => s,
    };
    for case in 0..cases {
        out.line(&format!("case stream-{case}"));
        let soak = soak_only || case % 8 == 7;
        let nops = if soak { r.range(10, 60) } else { r.range(2, 14) };
        let prog = program(r, nv.max(2), nops);
        if soak {
            let enc = prog.iter().map(|o| o.replace(' ', ",")).collect::<Vec<_>>().join(";");
            out.line(&format!("ssoak {} {}", r.below(1 << 30), enc));
            continue;
        }
        let mut lines: Vec<String> = Vec::new();
        lines.push("snew".to_string());
        let mode = r.below(3);
        match mode {
            0 => {
                // lockstep: after every operation deliver message by message, poll around each cut
                for o in &prog {
                    lines.push(format!("screate {o}"));
                    let rounds = r.range(0, 4);
                    for _ in 0..rounds {
                        lines.push("sdeliver 1".to_string());
                        if r.chance(3, 4) {
                            lines.push(format!("srelaypoll {}", if r.bool() { "+0".to_string() } else { target(r) }));
                        }
                        if r.chance(3, 4) {
                            lines.push("spoll +1".to_string()); // not there yet
                            lines.push("spoll +0".to_string());
                        }
                        if r.chance(1, 3) {
                            lines.push(format!("spoll {}", target(r)));
                        }
                    }
                }
            }
            1 => {
                // random interleaving of all event kinds
                let mut i = 0;
                while i < prog.len() {
                    match r.below(10) {
                        0..=3 => {
                            lines.push(format!("screate {}", prog[i]));
                            i += 1;
                        }
                        4 | 5 => lines.push(format!("sdeliver {}", r.usize(4))),
                        6 | 7 => lines.push(format!("srelaypoll {}", target(r))),
                        8 => lines.push(format!("spoll {}", target(r))),
                        _ => match r.below(3) {
                            0 => lines.push("sjoin".to_string()),
                            1 => lines.push(format!("sprodpoll {}", target(r))),
                            _ => lines.push("sdump".to_string()),
                        },
                    }
                }
            }
            _ => {
                // burst: the whole program, then cut the stream into random chunks
                for o in &prog {
                    lines.push(format!("screate {o}"));
                }
                for _ in 0..r.range(2, 12) {
                    lines.push(format!("sdeliver {}", r.range(0, 3)));
                    lines.push(format!("srelaypoll {}", target(r)));
                    lines.push(format!("spoll {}", target(r)));
                }
            }
        }
        lines.push("sjoin".to_string());
        if r.chance(1, 2) {
            lines.push("sdump".to_string()); // usually not drained yet
        }
        // drain: everything pending, relay and receiver ask for a handle that never comes
        lines.push("sdeliver 1000000".to_string());
        lines.push("srelaypoll 18446744073709551615".to_string());
        lines.push("spoll 18446744073709551615".to_string());
        lines.push("sdump".to_string());
        // every 5th scheduled case the final receiver goes away in mid-stream (its store and with it
        // the channel end are dropped): the relay must keep mirroring; later receiver polls become relay polls
        if r.chance(1, 5) && lines.len() > 4 {
            let at = r.range(1, lines.len() - 3);
            for l in lines.iter_mut().skip(at) {
                if let Some(rest) = l.strip_prefix("spoll ") {
                    *l = format!("srelaypoll {rest}");
                }
            }
            lines.insert(at, "sdroprecv".to_string());
        }
        for l in &lines {
            out.line(l);
        }
    }
}

#[cfg(not(feature = "frontend"))]
#[derive(Default)]
pub struct Exec {}
#[cfg(not(feature = "frontend"))]
impl Exec {
    pub fn exec(&mut self, _ws: &[&str], _l: &str, _out: &mut Out) -> bool {
        false
    }
}

#[cfg(feature = "frontend")]
pub use imp::Exec;

#[cfg(feature = "frontend")]
mod imp {
    use crate::fam_bdd::dump_nodes;
    use crate::{rng::Rng, Out};
    use adf_bdd::datatypes::{BddNode, Term, Var};
    use adf_bdd::obdd::Bdd;
    use crossbeam_channel::{bounded, select, unbounded, Receiver, Sender};
    use std::collections::VecDeque;
    use std::panic::{catch_unwind, AssertUnwindSafe};

    enum Cmd {
        Op(Vec<String>),
        Poll(usize),
        Len,
        Dump,
        Quit,
    }
    enum Reply {
        Done(Option<Term>), // None = malformed request
        Panic,
        Poll(bool, usize),
        Len(usize),
        Table(Vec<BddNode>),
    }

    fn idx(s: &str) -> Option<usize> {
        s.strip_prefix('#')?.parse().ok()
    }

    pub(super) fn apply_op(bdd: &mut Bdd, hist: &[Term], ws: &[&str]) -> Option<Term> {
        let h = |s: &str| -> Option<Term> { hist.get(idx(s)?).copied() };
        Some(match (ws.first().copied()?, ws.len()) {
            ("var", 2) => bdd.variable(Var(ws[1].parse().ok()?)),
            ("const", 2) => Bdd::constant(ws[1] == "1"),
            ("not", 2) => bdd.not(h(ws[1])?),
            ("and", 3) => bdd.and(h(ws[1])?, h(ws[2])?),
            ("or", 3) => bdd.or(h(ws[1])?, h(ws[2])?),
            ("imp", 3) => bdd.imp(h(ws[1])?, h(ws[2])?),
            ("iff", 3) => bdd.iff(h(ws[1])?, h(ws[2])?),
            ("xor", 3) => bdd.xor(h(ws[1])?, h(ws[2])?),
            ("restrict", 4) => bdd.restrict(h(ws[1])?, Var(ws[2].parse().ok()?), ws[3] == "1"),
            _ => return None,
        })
    }

    fn producer_thread(node_tx: Sender<BddNode>, cmd_rx: Receiver<Cmd>, reply_tx: Sender<Reply>) {
        let mut bdd = Bdd::with_sender(node_tx);
        let mut hist = vec![Term::BOT, Term::TOP];
        while let Ok(cmd) = cmd_rx.recv() {
            let reply = match cmd {
                Cmd::Op(ws) => {
                    let w: Vec<&str> = ws.iter().map(|s| s.as_str()).collect();
                    match catch_unwind(AssertUnwindSafe(|| apply_op(&mut bdd, &hist, &w))) {
                        Ok(Some(t)) => {
                            hist.push(t);
                            Reply::Done(Some(t))
                        }
                        Ok(None) => {
                            hist.push(Term::BOT);
                            Reply::Done(None)
                        }
                        Err(_) => {
                            hist.push(Term::BOT);
                            Reply::Panic
                        }
                    }
                }
                Cmd::Poll(t) => {
                    let f = bdd.recv(Term(t));
                    Reply::Poll(f, bdd.nodes.len())
                }
                Cmd::Len => Reply::Len(bdd.nodes.len()),
                Cmd::Dump => Reply::Table(bdd.nodes.clone()),
                Cmd::Quit => break,
            };
            if reply_tx.send(reply).is_err() {
                break;
            }
        }
    }

    struct Sess {
        cmd_tx: Sender<Cmd>,
        node_rx: Receiver<BddNode>,
        reply_rx: Receiver<Reply>,
        handle: Option<std::thread::JoinHandle<()>>,
        inflight: bool,
        pending: VecDeque<BddNode>,
        /// every node taken from the producer so far, in order
        log: Vec<BddNode>,
        r1tx: Sender<BddNode>,
        r2probe: Sender<BddNode>,
        relay: Bdd,
        recv: Bdd,
        hist: Vec<String>,
        bad: bool,
        /// the final receiver was dropped (`sdroprecv`)
        recv_gone: bool,
    }

    impl Sess {
        fn new() -> Self {
            let (node_tx, node_rx) = bounded::<BddNode>(0);
            let (cmd_tx, cmd_rx) = unbounded::<Cmd>();
            let (reply_tx, reply_rx) = unbounded::<Reply>();
            let handle = std::thread::spawn(move || producer_thread(node_tx, cmd_rx, reply_tx));
            let (r1tx, r1rx) = unbounded::<BddNode>();
            let (r2tx, r2rx) = unbounded::<BddNode>();
            let r2probe = r2tx.clone();
            Sess {
                cmd_tx,
                node_rx,
                reply_rx,
                handle: Some(handle),
                inflight: false,
                pending: VecDeque::new(),
                log: Vec::new(),
                r1tx,
                r2probe,
                relay: Bdd::with_sender_receiver(r2tx, r1rx),
                recv: Bdd::with_receiver(r2rx),
                hist: vec!["0".into(), "1".into()],
                bad: false,
                recv_gone: false,
            }
        }

        fn finish(&mut self, r: Reply) {
            self.inflight = false;
            match r {
                Reply::Done(Some(t)) => self.hist.push(t.value().to_string()),
                Reply::Done(None) => {
                    self.bad = true;
                    self.hist.push("bad".into())
                }
                _ => self.hist.push("panic".into()),
            }
        }

        /// take one event from the suspended / running producer: a node or the end of the operation
        fn pump(&mut self) -> Option<BddNode> {
            select! {
                recv(self.node_rx) -> m => match m {
                    Ok(m) => {
                        self.log.push(m);
                        Some(m)
                    }
                    Err(_) => {
                        // producer thread gone: report, never wait again
                        self.finish(Reply::Panic);
                        None
                    }
                },
                recv(self.reply_rx) -> r => {
                    self.finish(r.unwrap_or(Reply::Panic));
                    None
                }
            }
        }

        /// let the running operation finish; its remaining messages are held back by the harness
        fn join(&mut self) {
            while self.inflight {
                if let Some(n) = self.pump() {
                    self.pending.push_back(n);
                }
            }
        }

        fn deliver(&mut self, k: usize) -> usize {
            let mut n = 0;
            while n < k {
                if let Some(x) = self.pending.pop_front() {
                    self.r1tx.send(x).expect("relay channel");
                    n += 1;
                } else if self.inflight {
                    if let Some(x) = self.pump() {
                        self.r1tx.send(x).expect("relay channel");
                        n += 1;
                    }
                } else {
                    break;
                }
            }
            n
        }

        fn ask(&mut self, c: Cmd) -> Reply {
            self.join();
            if self.cmd_tx.send(c).is_err() {
                return Reply::Panic;
            }
            self.reply_rx.recv().unwrap_or(Reply::Panic)
        }
    }

    impl Drop for Sess {
        fn drop(&mut self) {
            self.join();
            let _ = self.cmd_tx.send(Cmd::Quit);
            if let Some(h) = self.handle.take() {
                let _ = h.join();
            }
        }
    }

    #[derive(Default)]
    pub struct Exec {
        s: Option<Sess>,
    }

    fn resolve(w: &str, len: usize) -> Option<usize> {
        if let Some(d) = w.strip_prefix('+') {
            Some(len + d.parse::<usize>().ok()?)
        } else if let Some(d) = w.strip_prefix('-') {
            Some(len.saturating_sub(d.parse::<usize>().ok()?))
        } else {
            w.parse().ok()
        }
    }

    fn is_prefix(tbl: &[BddNode], log: &[BddNode]) -> bool {
        tbl.len() >= 2
            && tbl[0] == BddNode::bot_node()
            && tbl[1] == BddNode::top_node()
            && tbl.len() - 2 <= log.len()
            && tbl[2..] == log[..tbl.len() - 2]
    }

    fn table(nodes: &[BddNode]) -> String {
        nodes
            .iter()
            .map(|n| format!("{},{},{}", n.var().value(), n.lo().value(), n.hi().value()))
            .collect::<Vec<_>>()
            .join(";")
    }

    impl Exec {
        pub fn exec(&mut self, ws: &[&str], l: &str, out: &mut Out) -> bool {
            match ws[0] {
                "snew" if ws.len() == 1 => {
                    self.s = None; // joins the old producer first
                    self.s = Some(Sess::new());
                    out.line(l);
                    true
                }
                "ssoak" if ws.len() == 3 => {
                    out.line(l);
                    out.flush();
                    soak(ws[1].parse().unwrap_or(0), ws[2], out);
                    true
                }
                "screate" | "sdeliver" | "srelaypoll" | "spoll" | "sprodpoll" | "sjoin" | "sdump" | "sdroprecv" => {
                    out.line(l);
                    out.flush();
                    let Some(s) = self.s.as_mut() else {
                        out.line("= bad-request");
                        return true;
                    };
                    match ws[0] {
                        "screate" => {
                            s.join();
                            let sent = s.cmd_tx.send(Cmd::Op(ws[1..].iter().map(|x| x.to_string()).collect()));
                            if sent.is_ok() {
                                s.inflight = true;
                            } else {
                                s.finish(Reply::Panic);
                            }
                        }
                        "sdroprecv" => {
                            // the receiving store, and with it its end of the channel, is dropped
                            s.recv = Bdd::new();
                            s.recv_gone = true;
                        }
                        "spoll" if s.recv_gone => {
                            out.line("= bad-request");
                            out.line("~ bad-request");
                        }
                        "sdeliver" if ws.len() == 2 => match ws[1].parse::<usize>() {
                            Ok(k) => {
                                let n = s.deliver(k);
                                out.line(&format!("= delivered {n}"));
                            }
                            Err(_) => out.line("= bad-request"),
                        },
                        "srelaypoll" | "spoll" if ws.len() == 2 => {
                            let relay = ws[0] == "srelaypoll";
                            let len = if relay { s.relay.nodes.len() } else { s.recv.nodes.len() };
                            match resolve(ws[1], len) {
                                Some(t) => {
                                    let b = if relay { &mut s.relay } else { &mut s.recv };
                                    match catch_unwind(AssertUnwindSafe(|| b.recv(Term(t)))) {
                                        Ok(found) => {
                                            let tbl = if relay { &s.relay.nodes } else { &s.recv.nodes };
                                            out.line(&format!(
                                                "= {} t={} len={}",
                                                if found { "found" } else { "notfound" },
                                                t,
                                                tbl.len()
                                            ));
                                            out.line(&format!(
                                                "~ prefix={} foundiff={}",
                                                is_prefix(tbl, &s.log) as u8,
                                                (found == (t < tbl.len())) as u8
                                            ));
                                        }
                                        Err(_) => {
                                            out.line("= panic");
                                            out.line("~ panic");
                                        }
                                    }
                                }
                                None => {
                                    out.line("= bad-request");
                                    out.line("~ bad-request");
                                }
                            }
                        }
                        "sprodpoll" if ws.len() == 2 => {
                            let len = match s.ask(Cmd::Len) {
                                Reply::Len(n) => n,
                                _ => 0,
                            };
                            match resolve(ws[1], len) {
                                Some(t) => match s.ask(Cmd::Poll(t)) {
                                    Reply::Poll(found, len2) => {
                                        out.line(&format!(
                                            "= {} t={} len={}",
                                            if found { "found" } else { "notfound" },
                                            t,
                                            len2
                                        ));
                                        out.line(&format!("~ prefix=1 foundiff={}", (found == (t < len2)) as u8));
                                    }
                                    _ => {
                                        out.line("= panic");
                                        out.line("~ panic");
                                    }
                                },
                                None => {
                                    out.line("= bad-request");
                                    out.line("~ bad-request");
                                }
                            }
                        }
                        "sjoin" => {
                            s.join();
                            if s.bad {
                                out.line("= bad-request");
                            } else {
                                out.line(&format!("= hist {}", s.hist.join(" ")));
                            }
                        }
                        "sdump" => {
                            let p = match s.ask(Cmd::Dump) {
                                Reply::Table(t) => t,
                                _ => Vec::new(),
                            };
                            if s.bad {
                                out.line("= bad-request");
                                out.line("~ bad-request");
                            } else {
                                out.line(&format!(
                                    "= P {} R {} V {}",
                                    table(&p),
                                    dump_nodes(&s.relay),
                                    if s.recv_gone { "gone".to_string() } else { dump_nodes(&s.recv) }
                                ));
                                let drained = s.pending.is_empty() && s.r1tx.is_empty() && (s.recv_gone || s.r2probe.is_empty());
                                out.line(&format!(
                                    "~ drained={} relayeq={} recveq={}",
                                    drained as u8,
                                    (s.relay.nodes == p) as u8,
                                    if s.recv_gone { "-".to_string() } else { ((s.recv.nodes == p) as u8).to_string() }
                                ));
                                out.line(&format!(
                                    "# case stream nodes={} msgs={} ops={} relay={} recv={}",
                                    p.len() - 2,
                                    s.log.len(),
                                    s.hist.len() - 2,
                                    s.relay.nodes.len() - 2,
                                    s.recv.nodes.len() - 2
                                ));
                            }
                        }
                        _ => out.line("= bad-request"),
                    }
                    true
                }
                _ => false,
            }
        }
    }

    /// free-running run with a BOUNDED second link: producer thread -> unbounded channel -> relay (polled by the
    /// main thread) -> bounded(2) channel -> final store, which is polled by a third thread that starts late,
    /// so that the relay runs into a full channel. At the end all three tables must be identical.
    fn soak_bounded(seed: u64, ops: Vec<Vec<String>>, out: &mut Out) {
        use std::sync::atomic::{AtomicBool, Ordering};
        use std::sync::Arc;
        let (tx1, rx1) = unbounded::<BddNode>();
        let (tx2, rx2) = bounded::<BddNode>(2);
        let mut relay = Bdd::with_sender_receiver(tx2, rx1);
        let mut r = Rng::new(seed);
        let producer = std::thread::spawn(move || -> Option<Vec<BddNode>> {
            let mut bdd = Bdd::with_sender(tx1);
            let mut hist = vec![Term::BOT, Term::TOP];
            for o in ops.iter() {
                let w: Vec<&str> = o.iter().map(|s| s.as_str()).collect();
                let t = apply_op(&mut bdd, &hist, &w)?;
                hist.push(t);
            }
            Some(bdd.nodes.clone())
        });
        let stop = Arc::new(AtomicBool::new(false));
        let stop2 = stop.clone();
        let consumer = std::thread::spawn(move || -> Bdd {
            let mut recv = Bdd::with_receiver(rx2);
            std::thread::sleep(std::time::Duration::from_millis(3));
            loop {
                let last = stop2.load(Ordering::SeqCst);
                recv.recv(Term(usize::MAX));
                if last {
                    break;
                }
                std::thread::sleep(std::time::Duration::from_micros(100));
            }
            recv
        });
        let mut ok = true;
        let mut polls = 0usize;
        let mut mid = 0usize;
        loop {
            let done = producer.is_finished();
            let len = relay.nodes.len();
            let t = match r.below(3) {
                0 => len,
                1 => len + r.usize(4),
                _ => r.usize(40),
            };
            let found = relay.recv(Term(t));
            polls += 1;
            ok &= found == (t < relay.nodes.len());
            if relay.nodes.len() > 2 && !done {
                mid += 1;
            }
            if done {
                break;
            }
        }
        let Ok(Some(p)) = producer.join() else {
            stop.store(true, Ordering::SeqCst);
            let _ = consumer.join();
            out.line("= bad-request");
            out.line("~ bad-request");
            return;
        };
        ok &= !relay.recv(Term(usize::MAX));
        stop.store(true, Ordering::SeqCst);
        let Ok(recv) = consumer.join() else {
            out.line("= panic");
            out.line("~ panic");
            return;
        };
        let same = relay.nodes == p && recv.nodes == p;
        out.line(&format!("= {}", if same { table(&p) } else { format!("P {} R {} V {}", table(&p), dump_nodes(&relay), dump_nodes(&recv)) }));
        out.line(&format!("~ soak {}", if ok && same { "ok" } else { "violated" }));
        out.line(&format!("# case stream soak=1 bounded=1 nodes={} polls={} midstream={}", p.len() - 2, polls.min(10), mid.min(10)));
    }

    /// free-running run: the producer thread executes the whole program sending into an unbounded
    /// channel; meanwhile the main thread polls relay and receiver at random handles.  Checked at
    /// every poll: answer ↔ handle present, receiver never ahead of the relay; at the end (producer
    /// joined, both channels drained): every intermediate table was a prefix of the final one and
    /// all three tables are identical.
    fn soak(seed: u64, prog: &str, out: &mut Out) {
        let ops: Vec<Vec<String>> = prog
            .split(';')
            .filter(|o| !o.is_empty())
            .map(|o| o.split(',').map(|w| w.to_string()).collect())
            .collect();
        if seed % 3 == 0 {
            return soak_bounded(seed, ops, out);
        }
        let (tx1, rx1) = unbounded::<BddNode>();
        let (tx2, rx2) = unbounded::<BddNode>();
        let mut relay = Bdd::with_sender_receiver(tx2, rx1);
        let mut recv = Bdd::with_receiver(rx2);
        let mut r = Rng::new(seed);
        let yield_every = 1 + r.usize(3);
        let producer = std::thread::spawn(move || -> Option<Vec<BddNode>> {
            let mut bdd = Bdd::with_sender(tx1);
            let mut hist = vec![Term::BOT, Term::TOP];
            for (i, o) in ops.iter().enumerate() {
                let w: Vec<&str> = o.iter().map(|s| s.as_str()).collect();
                let t = apply_op(&mut bdd, &hist, &w)?;
                hist.push(t);
                if i % yield_every == 0 {
                    std::thread::yield_now();
                }
            }
            Some(bdd.nodes.clone())
        });
        let mut ok = true;
        let mut polls = 0usize;
        let mut mid = 0usize; // polls that saw a strictly partial mirror
        let mut snapshots: Vec<(bool, Vec<BddNode>)> = Vec::new();
        loop {
            let done = producer.is_finished();
            let on_relay = r.bool();
            let b = if on_relay { &mut relay } else { &mut recv };
            let len = b.nodes.len();
            let t = match r.below(4) {
                0 => len,
                1 => len + r.usize(4),
                2 => len.saturating_sub(1 + r.usize(2)),
                _ => r.usize(40),
            };
            let found = b.recv(Term(t));
            polls += 1;
            ok &= found == (t < b.nodes.len());
            ok &= recv.nodes.len() <= relay.nodes.len();
            if relay.nodes.len() > 2 && !done {
                mid += 1;
            }
            if polls % 7 == 0 && snapshots.len() < 64 {
                snapshots.push((on_relay, if on_relay { relay.nodes.clone() } else { recv.nodes.clone() }));
            }
            if done {
                break;
            }
        }
        let Ok(Some(p)) = producer.join() else {
            out.line("= bad-request");
            out.line("~ bad-request");
            return;
        };
        // drain
        ok &= !relay.recv(Term(usize::MAX));
        ok &= !recv.recv(Term(usize::MAX));
        for (_, snap) in &snapshots {
            ok &= snap.len() <= p.len() && snap[..] == p[..snap.len()];
        }
        let same = relay.nodes == p && recv.nodes == p;
        out.line(&format!("= {}", if same { table(&p) } else { format!("P {} R {} V {}", table(&p), dump_nodes(&relay), dump_nodes(&recv)) }));
        out.line(&format!("~ soak {}", if ok && same { "ok" } else { "violated" }));
        out.line(&format!(
            "# case stream soak=1 nodes={} polls={} midstream={}",
            p.len() - 2,
            polls.min(10),
            mid.min(10)
        ));
    }
}
