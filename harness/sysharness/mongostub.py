#!/usr/bin/env python3
"""MongoDB wire-protocol (OP_MSG) stub for the web-service checks C16/C17.

Python 3 stdlib only.  It implements what `adf-bdd-server` uses: hello / find (equality
filters) / insert / update ($set with dotted paths, replacement documents, multi) / delete
(limit 0|1) / createIndexes (unique), with hand-rolled BSON.

On top of the database it offers what the checks need:

* a command log: one entry per database command with collection, kind, the issuing filter
  documents, the `$set` keys, the inserted documents' (name, username), the number of matched
  documents and wall-clock interval (`Stub.log`, `Stub.log_since(k)`);
* a hold-back facility: `h = stub.hold('update', 'adf-problems', k=0, key_prefix='acs_per_strategy.')`
  blocks the k-th matching command that arrives after the call *before* it is applied, until
  `h.release()` is called or `seconds` elapse (`h.wait_arrived()` tells when it is blocked);
* `stub.dump()`: a deep copy of all documents of all collections (ObjectIds as hex strings);
* `stub.reset()`: fresh database (unique indexes are kept, like a dropped collection content).

Run standalone for manual experiments:  mongostub.py PORT
"""
import copy
import socket
import struct
import sys
import threading
import time


class ObjectId:
    def __init__(self, b):
        self.b = b

    def __repr__(self):
        return "ObjectId(%s)" % self.b.hex()

    def __eq__(self, o):
        return isinstance(o, ObjectId) and o.b == self.b

    def __hash__(self):
        return hash(self.b)


class Int64(int):
    pass


class DateTime(int):
    pass


# ------------------------------------------------------------------------------------------
# BSON

def dec_cstr(b, i):
    j = b.index(b"\0", i)
    return b[i:j].decode(), j + 1


def dec_doc(b, i=0, as_list=False):
    (ln,) = struct.unpack_from("<i", b, i)
    end = i + ln - 1
    i += 4
    out = [] if as_list else {}
    while i < end:
        t = b[i]
        i += 1
        k, i = dec_cstr(b, i)
        if t == 0x01:
            (v,) = struct.unpack_from("<d", b, i)
            i += 8
        elif t == 0x02:
            (l,) = struct.unpack_from("<i", b, i)
            v = b[i + 4:i + 4 + l - 1].decode()
            i += 4 + l
        elif t == 0x03:
            v, i = dec_doc(b, i)
        elif t == 0x04:
            v, i = dec_doc(b, i, True)
        elif t == 0x05:
            (l,) = struct.unpack_from("<i", b, i)
            v = bytes(b[i + 5:i + 5 + l])
            i += 5 + l
        elif t == 0x07:
            v = ObjectId(bytes(b[i:i + 12]))
            i += 12
        elif t == 0x08:
            v = (b[i] == 1)
            i += 1
        elif t == 0x09:
            (x,) = struct.unpack_from("<q", b, i)
            v = DateTime(x)
            i += 8
        elif t == 0x0A:
            v = None
        elif t == 0x10:
            (v,) = struct.unpack_from("<i", b, i)
            i += 4
        elif t == 0x11:
            (x,) = struct.unpack_from("<q", b, i)
            v = Int64(x)
            i += 8
        elif t == 0x12:
            (x,) = struct.unpack_from("<q", b, i)
            v = Int64(x)
            i += 8
        else:
            raise ValueError("bson type %x" % t)
        if as_list:
            out.append(v)
        else:
            out[k] = v
    return out, end + 1


def enc_val(k, v):
    kb = k.encode() + b"\0"
    if isinstance(v, bool):
        return b"\x08" + kb + (b"\1" if v else b"\0")
    if isinstance(v, float):
        return b"\x01" + kb + struct.pack("<d", v)
    if isinstance(v, DateTime):
        return b"\x09" + kb + struct.pack("<q", int(v))
    if isinstance(v, Int64):
        return b"\x12" + kb + struct.pack("<q", int(v))
    if isinstance(v, int):
        return b"\x10" + kb + struct.pack("<i", v) if -2 ** 31 <= v < 2 ** 31 else b"\x12" + kb + struct.pack("<q", v)
    if isinstance(v, str):
        s = v.encode() + b"\0"
        return b"\x02" + kb + struct.pack("<i", len(s)) + s
    if isinstance(v, dict):
        return b"\x03" + kb + enc_doc(v)
    if isinstance(v, list):
        return b"\x04" + kb + enc_doc({str(i): x for i, x in enumerate(v)})
    if v is None:
        return b"\x0A" + kb
    if isinstance(v, ObjectId):
        return b"\x07" + kb + v.b
    if isinstance(v, bytes):
        return b"\x05" + kb + struct.pack("<i", len(v)) + b"\0" + v
    raise ValueError("enc %r" % (v,))


def enc_doc(d):
    body = b"".join(enc_val(k, v) for k, v in d.items()) + b"\0"
    return struct.pack("<i", len(body) + 4) + body


# ------------------------------------------------------------------------------------------
# database

def match(doc, q):
    for k, v in q.items():
        cur = doc
        for part in k.split("."):
            if isinstance(cur, dict) and part in cur:
                cur = cur[part]
            else:
                cur = KeyError
                break
        if cur is KeyError or cur != v:
            return False
    return True


def set_path(doc, k, v):
    parts = k.split(".")
    cur = doc
    for p in parts[:-1]:
        cur = cur.setdefault(p, {})
    cur[parts[-1]] = v


def plain(v):
    """documents with ObjectIds etc. turned into JSON-able values"""
    if isinstance(v, ObjectId):
        return v.b.hex()
    if isinstance(v, dict):
        return {k: plain(x) for k, x in v.items()}
    if isinstance(v, list):
        return [plain(x) for x in v]
    if isinstance(v, bytes):
        return v.hex()
    if isinstance(v, (Int64, DateTime)):
        return int(v)
    return v


class Hold:
    """one hold-back rule; see Stub.hold"""

    def __init__(self, kind, coll, k, key_prefix, pred, seconds):
        self.kind = kind
        self.coll = coll
        self.k = k
        self.key_prefix = key_prefix
        self.pred = pred
        self.seconds = seconds
        self.seen = 0
        self.arrived = threading.Event()
        self.released = threading.Event()
        self.done = False
        self.entry = None

    def release(self):
        self.released.set()

    def wait_arrived(self, timeout=30.0):
        return self.arrived.wait(timeout)


class Stub:
    def __init__(self, port=27017, host="127.0.0.1"):
        self.port = port
        self.host = host
        self.lock = threading.Lock()
        self.colls = {}
        self.unique = {}
        self.log = []
        self.holds = []
        self.applied = threading.Condition(self.lock)
        self.sock = None
        self.stopping = False
        self.oid_counter = 0

    # --- public API ---------------------------------------------------------------------
    def start(self):
        s = socket.socket()
        s.setsockopt(socket.SOL_SOCKET, socket.SO_REUSEADDR, 1)
        s.bind((self.host, self.port))
        s.listen(64)
        self.sock = s
        t = threading.Thread(target=self._accept, daemon=True)
        t.start()
        return self

    def stop(self):
        self.stopping = True
        try:
            self.sock.close()
        except OSError:
            pass

    def reset(self):
        with self.lock:
            self.colls = {}
            self.log = []
            for h in self.holds:
                h.release()
            self.holds = []

    def dump(self):
        with self.lock:
            return {k: [plain(d) for d in v] for k, v in self.colls.items()}

    def raw(self, coll):
        with self.lock:
            return copy.deepcopy(self.colls.get(coll, []))

    def log_len(self):
        with self.lock:
            return len(self.log)

    def log_since(self, k):
        with self.lock:
            return [dict(e) for e in self.log[k:]]

    def hold(self, kind, coll, k=0, key_prefix=None, pred=None, seconds=None):
        """hold back the k-th (0-based) command of `kind` on collection `coll` (optionally only
        commands one of whose `$set` keys starts with `key_prefix`, or satisfying pred(entry))
        arriving from now on, until released or for `seconds`"""
        h = Hold(kind, coll, k, key_prefix, pred, seconds)
        with self.lock:
            self.holds.append(h)
        return h

    def wait_applied(self, pred, count, timeout=150.0):
        """block until at least `count` applied (not held) log entries satisfy pred"""
        end = time.time() + timeout
        with self.lock:
            while True:
                n = sum(1 for e in self.log if e.get("applied") and pred(e))
                if n >= count:
                    return True
                left = end - time.time()
                if left <= 0:
                    return False
                self.applied.wait(min(left, 0.5))

    # --- server -------------------------------------------------------------------------
    def _accept(self):
        while not self.stopping:
            try:
                c, _ = self.sock.accept()
            except OSError:
                return
            threading.Thread(target=self._serve, args=(c,), daemon=True).start()

    def _coll(self, ns):
        return self.colls.setdefault(ns, [])

    def _entry(self, cmd):
        name = next(iter(cmd))
        e = {"cmd": name, "coll": cmd.get(name) if isinstance(cmd.get(name), str) else None,
             "filters": [], "set_keys": [], "docs": [], "multi": False, "t0": time.time(), "applied": False}
        if name == "find":
            e["filters"] = [plain(cmd.get("filter", {}))]
        elif name == "insert":
            e["docs"] = [{k: plain(v) for k, v in d.items() if k in ("name", "username", "code", "password")}
                         for d in cmd.get("documents", [])]
        elif name == "update":
            for u in cmd.get("updates", []):
                e["filters"].append(plain(u.get("q", {})))
                upd = u.get("u", {})
                if any(k.startswith("$") for k in upd):
                    e["set_keys"] += list(upd.get("$set", {}).keys())
                    e.setdefault("set_vals", {}).update({k: plain(v) for k, v in upd.get("$set", {}).items()})
                    if "username" in upd.get("$set", {}):
                        e["set_username"] = upd["$set"]["username"]
                else:
                    e["replacement"] = {k: plain(v) for k, v in upd.items() if k in ("username", "password")}
                if u.get("multi", False):
                    e["multi"] = True
        elif name == "delete":
            for d in cmd.get("deletes", []):
                e["filters"].append(plain(d.get("q", {})))
                if d.get("limit", 0) == 0:
                    e["multi"] = True
        return e

    def _check_hold(self, e):
        """called with the lock held; returns the Hold that captures this command, if any"""
        for h in self.holds:
            if h.done or h.kind != e["cmd"] or h.coll != e["coll"]:
                continue
            if h.key_prefix is not None and not any(k.startswith(h.key_prefix) for k in e["set_keys"]):
                continue
            if h.pred is not None and not h.pred(e):
                continue
            if h.seen == h.k:
                h.done = True
                h.entry = e
                return h
            h.seen += 1
        return None

    def handle(self, cmd):
        name = next(iter(cmd))
        dbn = cmd.get("$db", "test")
        e = self._entry(cmd)
        with self.lock:
            e["seq"] = len(self.log)
            self.log.append(e)
            h = self._check_hold(e)
        if h is not None:
            e["held"] = True
            h.arrived.set()
            h.released.wait(h.seconds)
        with self.lock:
            r = self._apply(name, dbn, cmd, e)
            e["t1"] = time.time()
            e["applied"] = True
            self.applied.notify_all()
            return r

    def _apply(self, name, dbn, cmd, e):
        if name in ("hello", "isMaster", "ismaster"):
            return {"ismaster": True, "isWritablePrimary": True, "helloOk": True, "maxBsonObjectSize": 16777216,
                    "maxMessageSizeBytes": 48000000, "maxWriteBatchSize": 100000,
                    "localTime": DateTime(int(time.time() * 1000)), "minWireVersion": 0, "maxWireVersion": 17,
                    "readOnly": False, "ok": 1.0}
        if name == "find":
            ns = dbn + "." + cmd["find"]
            c = self._coll(ns)
            res = [d for d in c if match(d, cmd.get("filter", {}))]
            lim = cmd.get("limit", 0)
            if lim:
                res = res[:abs(lim)]
            e["n"] = len(res)
            e["returned"] = [{k: plain(d.get(k)) for k in ("name", "username", "code") if k in d} for d in res]
            return {"cursor": {"firstBatch": res, "id": Int64(0), "ns": ns}, "ok": 1.0}
        if name == "insert":
            ns = dbn + "." + cmd["insert"]
            c = self._coll(ns)
            n = 0
            errs = []
            for i, d in enumerate(cmd["documents"]):
                dup = False
                for key in self.unique.get(ns, []):
                    if any(x.get(key) == d.get(key) for x in c):
                        dup = True
                if dup:
                    errs.append({"index": i, "code": 11000, "errmsg": "E11000 duplicate key error"})
                    break
                c.append(d)
                n += 1
            e["n"] = n
            r = {"n": n, "ok": 1.0}
            if errs:
                r["writeErrors"] = errs
            return r
        if name == "update":
            ns = dbn + "." + cmd["update"]
            c = self._coll(ns)
            n = 0
            nm = 0
            touched = []
            for u in cmd["updates"]:
                for idx, d in enumerate(c):
                    if match(d, u["q"]):
                        n += 1
                        touched.append({k: plain(d.get(k)) for k in ("name", "username") if k in d})
                        upd = u["u"]
                        if any(k.startswith("$") for k in upd):
                            before = enc_doc(d)
                            for k, v in upd.get("$set", {}).items():
                                set_path(d, k, v)
                            if enc_doc(d) != before:
                                nm += 1
                        else:
                            nd = {"_id": d["_id"]}
                            nd.update(upd)
                            dup = [key for key in self.unique.get(ns, [])
                                   if nd.get(key) != d.get(key) and any(x.get(key) == nd.get(key) for x in c)]
                            if dup:
                                e["n"] = n
                                return {"n": 0, "nModified": 0, "ok": 1.0,
                                        "writeErrors": [{"index": 0, "code": 11000, "errmsg": "E11000 duplicate key error"}]}
                            if enc_doc(nd) != enc_doc(d):
                                nm += 1
                            c[idx] = nd
                        if not u.get("multi", False):
                            break
            e["n"] = n
            e["touched"] = touched
            return {"n": n, "nModified": nm, "ok": 1.0}
        if name == "delete":
            ns = dbn + "." + cmd["delete"]
            c = self._coll(ns)
            n = 0
            touched = []
            for dl in cmd["deletes"]:
                keep = []
                k = 0
                for d in c:
                    if match(d, dl["q"]) and (dl.get("limit", 0) == 0 or k < dl["limit"]):
                        k += 1
                        touched.append({x: plain(d.get(x)) for x in ("name", "username") if x in d})
                    else:
                        keep.append(d)
                n += k
                c[:] = keep
            e["n"] = n
            e["touched"] = touched
            return {"n": n, "ok": 1.0}
        if name == "createIndexes":
            ns = dbn + "." + cmd["createIndexes"]
            for ix in cmd["indexes"]:
                if ix.get("unique"):
                    for key in ix["key"].keys():
                        if key not in self.unique.setdefault(ns, []):
                            self.unique[ns].append(key)
            return {"numIndexesBefore": 1, "numIndexesAfter": 2, "createdCollectionAutomatically": True, "ok": 1.0}
        return {"ok": 1.0}

    def _serve(self, conn):
        try:
            while True:
                hdr = b""
                while len(hdr) < 16:
                    x = conn.recv(16 - len(hdr))
                    if not x:
                        return
                    hdr += x
                ln, rid, _rto, op = struct.unpack("<iiii", hdr)
                body = b""
                while len(body) < ln - 16:
                    x = conn.recv(ln - 16 - len(body))
                    if not x:
                        return
                    body += x
                if op != 2013:
                    print("mongostub: unsupported op", op, file=sys.stderr)
                    return
                (flags,) = struct.unpack_from("<I", body, 0)
                i = 4
                cmd = None
                seqs = {}
                end = len(body) - (4 if flags & 1 else 0)
                while i < end:
                    kind = body[i]
                    i += 1
                    if kind == 0:
                        cmd, i = dec_doc(body, i)
                    else:
                        (sz,) = struct.unpack_from("<i", body, i)
                        j = i + 4
                        ident, j = dec_cstr(body, j)
                        docs = []
                        while j < i + sz:
                            d, j = dec_doc(body, j)
                            docs.append(d)
                        seqs[ident] = docs
                        i += sz
                cmd.update(seqs)
                rep = enc_doc(self.handle(cmd))
                out = struct.pack("<I", 0) + b"\0" + rep
                conn.sendall(struct.pack("<iiii", 16 + len(out), rid + 1000000, rid, 2013) + out)
        except Exception:  # a broken connection must not take the stub down
            if not self.stopping:
                import traceback
                traceback.print_exc()
        finally:
            conn.close()


def main():
    port = int(sys.argv[1]) if len(sys.argv) > 1 else 27017
    Stub(port).start()
    print("mongostub listening on", port, flush=True)
    while True:
        time.sleep(3600)


if __name__ == "__main__":
    main()
