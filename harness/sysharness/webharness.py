#!/usr/bin/env python3
"""System harness for the web-service properties C16 / C17 (Python 3 stdlib only).

  webharness.py run --server-bin PATH --seed N --cases K --mode seq|conc|c16|d9|d14|runkey [--scale F] [--out FILE]
  webharness.py exec --server-bin PATH [--out FILE]        (cases with their `http` request lines on stdin)

It starts the MongoDB stub (mongostub.py, in-process) and the REAL `adf-bdd-server` binary inside a
private network namespace (`unshare -n`, loopback only; the server binds 0.0.0.0:8080 fixed).  If
`unshare` is not available it falls back to an exclusive flock on a lock file (--lock).  It generates
request histories from ONE PRNG seed (case k of a run uses seed*100003+k), executes every history on
a fresh stub database and prints the line protocol of DESIGN.md section 3.1:

  case web-<k> mode=<seq|conc|c16|d9|d9b|d9c|d14|runkey> seed=<s>
  http <jar> <METHOD> <path> <fields>          path: the text sent over the wire (problem names percent-encoded as one
                                               segment, see seg(); the model decodes it the way actix does);
                                               fields: `-` (no body), `+` (empty form) or k:hex(v),k:hex(v),...
                                               (`00` = empty string; `raw:` = body sent verbatim, malformed JSON)
  = <status> <cookie-event> <canonical body>   cookie-event: - | set | del; JSON bodies with sorted keys, results
                                               summarised as None | Error:<parse|panic|timeout> | Some[:<ac vectors>];
                                               generated names as ~t<k> (temporary accounts) / ~p<k> (problem names)
  taskfin <jar> <n>                            the blocking part of jar's n-th task is over (scheduled histories)
  taskdone <jar> <n> <task> obs=<class> [adf=<names>|<table>|<ac>]
  = <written|nodoc> <stored summary>           (did the final write find its (name, username) document?)
  ~ ok                                         (mode c16, parse tasks: stored ADF denotes the code / error iff unparseable)
  runcheck <task> <running_tasks>   ~ ok       (mode c16: the ended task is not listed as running)
  result <key> <hex code> <adf>     = <sorted ac vectors>   ~ <sorted T/F/u patterns>      (mode c16)
  graphcheck <key> <hex code> <adf> <ac> <graph>   = <fnv64 of the canonical graph>   ~ ok  (mode c16)
  dbcheck users=<name:class,...> problems=<canonical JSON>   ~ ok
  isolation <items>                 ~ ok       items: c/<cmd>/<user name in filter|->/<identities in flight>
                                               and r/<identity>/<problems returned>/<problems found with that identity>
  logins <events>                   ~ ok       R:u:pw U:old:u:pw D:u L:u:pw:status (pw = fnv64 prefix)
  alone <jar>                       ~ <fnv64 of each response to the jar>   (only for jars with a private name space)
  alone! <jar> / stored <key>       ~ ...      (scheduled D9 histories: the specification differs, on purpose)
  # case web-<k> key=val ...                   statistics;   # known D9 reproduced=<0|1> held=<0|1> variant=<...>
  # req ...                                    (mode conc: the requests in start order, for the record only)

`=` lines are compared with the algorithmic Lean model (ServerModel.lean through Drv/Http.lean), `~` lines with
the specification / monitors evaluated by the Lean driver from the data in the request line.

Names: about 30 % of the generated histories (a PRNG of their own decides, so the other histories are the ones the
seed gave before) use the second alphabet USERS_X / PNAMES_X / COLLIDING: names with `/ % ? # & = + : , ;` quotes,
blanks, dots, non-ASCII.  Inside monitor tokens (isolation, logins, dbcheck users=) names are written as tok(name)
(percent-encoded, the identity on the plain alphabet); JSON bodies and messages carry them verbatim.
"""
import argparse
import fcntl
import hashlib
import http.client
import json
import os
import random
import re
import shutil
import subprocess
import sys
import tempfile
import threading
import time
import urllib.parse

HERE = os.path.dirname(os.path.abspath(__file__))
sys.path.insert(0, HERE)
import mongostub  # noqa: E402

PORT = 8080
MONGO_PORT = 27017
COOKIE = "adf-obdd-service-auth"
USERS_NS = "adf-obdd.users"
PROBS_NS = "adf-obdd.adf-problems"

STRATEGIES = ["Ground", "Complete", "Stable", "StableCountingA", "StableCountingB", "StableNogood"]
STRAT_KEY = {"Ground": "ground", "Complete": "complete", "Stable": "stable", "StableCountingA": "stable_counting_a",
             "StableCountingB": "stable_counting_b", "StableNogood": "stable_nogood"}
KEY_STRAT = {v: k for k, v in STRAT_KEY.items()}

PARSE_ERR = "ADF could not be parsed, double check your input!"
HANDLER_400 = (
    "Username and Password need to be set!", "Invalid email or password", "Invalid username or password",
    "You are logged in as a temporary user", "Either a file or the code has to be provided.",
    "The ADF problem has not been parsed yet.", "The ADF problem could not be parsed.")


def hx(s):
    return s.encode().hex() if s != "" else "00"  # "00" marks the empty string (no NUL ever occurs)


def unhx(h):
    return "" if h == "00" else bytes.fromhex(h).decode()


def seg(name):
    """a name as ONE path segment on the wire: every byte outside A-Z a-z 0-9 - . _ ~ percent-encoded (RFC 3986);
    the identity on the names of the plain alphabets and on the canonical names ~t<k> / ~p<k>"""
    return urllib.parse.quote(name, safe="")


def tok(name):
    """a name inside a protocol token (monitor lines: isolation, logins, dbcheck users=): reversible, free of white
    space and of the separators / : , + = used there; the name `-` is escaped (a bare `-` means "none").  The
    identity on the names of the plain alphabets and on the generated names."""
    if name == "-":
        return "%2D"
    return "".join(chr(b) if (48 <= b <= 57 or 65 <= b <= 90 or 97 <= b <= 122 or b in (45, 95, 46, 126)) else "%%%02X" % b
                   for b in name.encode())


def fnv64(s):
    h = 0xcbf29ce484222325
    for b in s.encode():
        h ^= b
        h = (h * 0x100000001b3) & 0xFFFFFFFFFFFFFFFF
    return "%016x" % h


# ----------------------------------------------------------------------------------------------
# server + stub

class Rig:
    def __init__(self, server_bin):
        self.server_bin = server_bin
        self.stub = mongostub.Stub(MONGO_PORT).start()
        self.wd = tempfile.mkdtemp(prefix="webharness-")
        os.makedirs(os.path.join(self.wd, "assets"))
        with open(os.path.join(self.wd, "assets", "index.html"), "w") as f:
            f.write("<html>index</html>")
        self.proc = None
        self.logf = None
        self.start_server()

    def start_server(self):
        self.logf = open(os.path.join(self.wd, "server.log"), "ab")
        env = dict(os.environ, MONGODB_URI="mongodb://127.0.0.1:%d" % MONGO_PORT, RUST_BACKTRACE="0")
        self.proc = subprocess.Popen([self.server_bin], cwd=self.wd, env=env, stdout=self.logf, stderr=self.logf)
        for _ in range(400):
            if self.proc.poll() is not None:
                raise RuntimeError("server exited with %s: %s" % (self.proc.returncode, self.tail_log()))
            try:
                c = http.client.HTTPConnection("127.0.0.1", PORT, timeout=1)
                c.connect()
                c.close()
                return
            except OSError:
                time.sleep(0.025)
        raise RuntimeError("server did not open port %d: %s" % (PORT, self.tail_log()))

    def tail_log(self):
        try:
            with open(os.path.join(self.wd, "server.log"), "rb") as f:
                return f.read()[-1500:].decode("utf-8", "replace")
        except OSError:
            return ""

    def ensure(self):
        if self.proc.poll() is not None:
            self.start_server()

    def close(self):
        try:
            if self.proc and self.proc.poll() is None:
                self.proc.terminate()
                try:
                    self.proc.wait(5)
                except subprocess.TimeoutExpired:
                    self.proc.kill()
        finally:
            self.stub.stop()
            if self.logf:
                self.logf.close()
            shutil.rmtree(self.wd, ignore_errors=True)


class Jar:
    def __init__(self, name):
        self.name = name
        self.cookie = None      # raw "name=value"
        self.ident = None       # harness bookkeeping: account named in the cookie (real name)
        self.ntasks = 0


def multipart(fields):
    b = "----webharness" + hashlib.sha1(repr(fields).encode()).hexdigest()[:16]
    out = b""
    for k, v in fields:
        out += ("--" + b + "\r\n").encode()
        if k == "file":
            out += b'Content-Disposition: form-data; name="file"; filename="f.adf"\r\nContent-Type: text/plain\r\n\r\n'
        else:
            out += ('Content-Disposition: form-data; name="%s"\r\n\r\n' % k).encode()
        out += v.encode() + b"\r\n"
    out += ("--" + b + "--\r\n").encode()
    return out, "multipart/form-data; boundary=" + b


def send(jar, method, path, fields):
    """fields: list of (key, value) or None.  returns (status, body bytes, cookie event)"""
    headers = {}
    body = None
    if path == "/adf/add":
        body, ct = multipart(fields or [])
        headers["Content-Type"] = ct
    elif fields is not None:
        raw = dict(fields).get("raw")
        body = raw.encode() if raw is not None else json.dumps(dict(fields)).encode()
        headers["Content-Type"] = "application/json"
    if jar.cookie:
        headers["Cookie"] = jar.cookie
    c = http.client.HTTPConnection("127.0.0.1", PORT, timeout=200)
    try:
        try:
            c.request(method, path, body=body, headers=headers)
            r = c.getresponse()
            data = r.read()
        except (OSError, http.client.HTTPException) as e:
            # the server dropped the connection (a panicking handler does that)
            return 0, ("#connection-failed " + type(e).__name__).encode(), "-"
        ev = "-"
        for k, v in r.getheaders():
            if k.lower() == "set-cookie" and v.startswith(COOKIE + "="):
                val = v.split(";")[0]
                if val == COOKIE + "=" or "Max-Age=0" in v:
                    jar.cookie = None
                    ev = "del"
                else:
                    jar.cookie = val
                    ev = "set"
        return r.status, data, ev
    finally:
        c.close()


# ----------------------------------------------------------------------------------------------
# canonicalisation

def canon_err(msg):
    if msg == PARSE_ERR:
        return "parse"
    if re.match(r"task \d+ panicked", msg) or "panicked" in msg:
        return "panic"
    if "deadline has elapsed" in msg:
        return "timeout"
    return "other"


def canon_owe(o, detail):
    t = o.get("type")
    if t == "None":
        return "None"
    if t == "Error":
        return "Error:" + canon_err(o.get("content", ""))
    if t == "Some":
        if not detail:
            return "Some"
        return "Some:" + canon_acs(o.get("content", []))
    return "?" + str(t)


def canon_acs(content):
    return ";".join(sorted(",".join(x["ac"]) for x in content))


def canon_task(t):
    return t["type"] if t["type"] == "Parse" else "Solve:" + str(t.get("content"))


def canon_info(info, detail, ren):
    return {"name": ren(info["name"]), "code": info["code"], "parsing_used": info["parsing_used"],
            "acs_per_strategy": {k: canon_owe(v, detail) for k, v in info["acs_per_strategy"].items()},
            "running_tasks": sorted(canon_task(t) for t in info["running_tasks"])}


def cj(obj):
    return json.dumps(obj, sort_keys=True, separators=(",", ":"))


def canon_body(status, data, detail, ren):
    txt = data.decode("utf-8", "replace")
    try:
        obj = json.loads(txt)
    except ValueError:
        obj = None
    if isinstance(obj, list):
        return cj(sorted((canon_info(i, detail, ren) for i in obj), key=cj))
    if isinstance(obj, dict) and "acs_per_strategy" in obj:
        return cj(canon_info(obj, detail, ren))
    if isinstance(obj, dict) and "username" in obj:
        return cj({"username": ren(obj["username"]), "temp": obj.get("temp")})
    txt = re.sub(r'task \d+ panicked with message ".*"', "#panic", txt)
    txt = re.sub(r"task \d+ panicked", "#panic", txt)
    if status == 400 and not txt.startswith(HANDLER_400):
        return "#bad-payload"
    txt = ren(txt)
    return txt.replace("\n", " ").replace("\r", " ")


# ----------------------------------------------------------------------------------------------
# alphabets and generators

USERS = ["alice", "bob", "carol"]
PWS = ["pw-one-111!", "pw-two-222!"]
PNAMES = ["p1", "p2"]
# second alphabet: names with characters that are special somewhere (URL paths, query strings, JSON, the protocol's own
# separators, key concatenations such as "<user>/<problem>").  A history of the special kind draws three user names
# and two problem names from these pools; the COLLIDING sets are built so that <user><sep><problem> coincide for
# different (user, problem) pairs.
USERS_X = ["x", "x/y", "a b", "\u00fc", "a%2Fb", "x:y", "a+b", "x/y/z", "q\"r'", "-", "x.y", "a&b=c", "x?y#z", "50%", "a,b;c",
           "\u4e2d\u6587", "x\\y", " x", "\U0001f600"]
PNAMES_X = ["y/z", "z", "p 1", "p?q", "p#1", "50%", "a+b", "a%2Fb", "\u00fc", ".", "..", "a&b=c", "q\"r'", "add", "solve", "%zz",
            "a;b", "x\\y", "-", "y:z", "z/", "/z", "y//z", "%2F", "%", "\u00e9t\u00e9 1", "p1/solve", "a,b"]
COLLIDING = [(["x", "x/y", "x/y/z"], ["y/z", "z", "z/w"]), (["x", "x/y", "a b"], ["y/z", "z"]),
             (["x", "x%2Fy", "x/y"], ["y%2Fz", "z", "y/z"]), (["x", "x:y", "x y"], ["y:z", "z", "y z"]),
             (["a", "a/", "a//"], ["/b", "b", "//b"]), (["x", "x?y", "x#y"], ["y?z", "z", "y#z"])]
CODES = [
    "s(a).s(b).ac(a,neg(b)).ac(b,neg(a)).",
    "s(a).ac(a,c(v)).",
    "s(a).s(b).s(c).ac(a,c).ac(b,and(b,a)).ac(c,c).",
    "s(x).s(y).ac(x,or(y,neg(y))).ac(y,x).",
    "s(a).ac(a,b).",          # undeclared atom: from_parser panics
    "ac(a,c(v)).",            # acceptance condition of an undeclared statement: panics
    "s(a).ac(a,b",            # does not parse
]


class Gen:
    """request histories as lists of (jar index, method, path, fields|None)"""

    def __init__(self, seed, special=None):
        self.r = random.Random(seed)
        # the choice of the alphabet comes from a PRNG of its own: the histories that stay on the plain alphabet are
        # the ones the same seed produced before the second alphabet existed
        r2 = random.Random(seed * 7919 + 13)
        self.special = (r2.random() < 0.3) if special is None else special
        self.rawpath = 0.0
        self.users, self.pnames = USERS, PNAMES
        if self.special:
            if r2.random() < 0.4:
                us, ps = COLLIDING[r2.randrange(len(COLLIDING))]
                self.users, self.pnames = list(us), list(ps)
            else:
                self.users, self.pnames = r2.sample(USERS_X, 3), r2.sample(PNAMES_X, 2)
            # sometimes a problem name is put into the path WITHOUT the encoding of `/ ? #` (what a careless client
            # does): actix then routes on the raw text (no route: 404 without body; `?`/`#` cut the path)
            self.rawpath = 0.08 if r2.random() < 0.5 else 0.0

    # segments as a client might write them: lower-case hex, needless escapes, a bare `%`, malformed escapes (actix
    # decodes `%%32F` to `%2F` when routing and to `/` in the path parameter)
    WIRE_PROBES = ["y%2fz", "%7A", "%7a", "50%", "%%32F", "%2%46", "y%%32Fz", "%25%32%46", "%2", "%zz", "a%2Bb", "a+b"]

    def seg(self, name):
        if self.rawpath and self.r.random() < self.rawpath:
            if self.r.random() < 0.4:
                return self.pick(self.WIRE_PROBES)
            return urllib.parse.quote(name, safe="/?#+&=;:,'")
        return seg(name)

    def pick(self, xs):
        return xs[self.r.randrange(len(xs))]

    def wpick(self, pairs):
        tot = sum(w for _, w in pairs)
        x = self.r.random() * tot
        for v, w in pairs:
            x -= w
            if x < 0:
                return v
        return pairs[-1][0]

    # -- C17 ------------------------------------------------------------------------------
    def history(self, conc=False, scale=1):
        r = self.r
        njars = r.choice([2, 3, 3])
        private = r.random() < 0.4          # every jar gets its own name space (hypothesis of noninterference)
        n = r.randint(5, 40) * scale
        guess = [{"cred": None, "in": False, "probs": []} for _ in range(njars)]
        out = []
        for _ in range(n):
            j = r.randrange(njars)
            out.append((j,) + self.request(j, guess[j], private))
        # every history ends with the jars looking at their own view
        for j in range(njars):
            out.append((j, "GET", "/users/info", None))
            out.append((j, "GET", "/adf/", None))
        return njars, out

    def user(self, j, private):
        u = self.pick(self.users)
        return u + str(j) if private else u

    def request(self, j, g, private):
        r = self.r
        kinds = [("register", 8), ("login", 8), ("logout", 4), ("info", 4), ("update", 7), ("delacc", 3),
                 ("add", 14), ("solve", 22), ("get", 10), ("list", 6), ("delete", 4), ("bad", 2)]
        if not g["in"]:
            kinds = [("register", 30), ("login", 30), ("add", 12), ("logout", 1), ("info", 2), ("update", 2),
                     ("delacc", 1), ("solve", 2), ("get", 2), ("list", 2), ("delete", 1), ("bad", 1)]
        k = self.wpick(kinds)
        if k == "register":
            u, p = self.user(j, private), self.wpick([(PWS[0], 5), (PWS[1], 4), ("", 1)])
            if r.random() < 0.05:
                u = ""
            g["cred"] = (u, p)
            return ("POST", "/users/register", [("username", u), ("password", p)])
        if k == "login":
            if g["cred"] and r.random() < 0.8:
                u, p = g["cred"]
            else:
                u, p = self.user(j, private), self.pick(PWS)
            if r.random() < 0.08:
                u = "~t1"      # a temporary account's name (known to the harness), cannot log in
            g["in"] = True
            return ("POST", "/users/login", [("username", u), ("password", p)])
        if k == "logout":
            g["in"] = False
            return ("DELETE", "/users/logout", None)
        if k == "info":
            return ("GET", "/users/info", None)
        if k == "update":
            u, p = self.user(j, private), self.wpick([(PWS[0], 5), (PWS[1], 5), ("", 1)])
            g["cred"] = (u, p)
            return ("PUT", "/users/update", [("username", u), ("password", p)])
        if k == "delacc":
            g["in"] = False
            return ("DELETE", "/users/delete", None)
        if k == "add":
            g["in"] = True     # unauthenticated add creates a temporary account
            name = self.wpick([(self.pnames[0], 5), (self.pnames[1], 4), ("", 2)] + [(x, 3) for x in self.pnames[2:]])
            code = self.wpick([(c, 6) for c in CODES[:4]] + [(c, 2) for c in CODES[4:]] + [("", 1)])
            if name:
                g["probs"].append(name)
            parsing = self.wpick([("Naive", 6), ("Hybrid", 6), ("Hybri", 1)])
            f = [("name", name)]
            x = r.random()
            if x < 0.8:
                f.append(("code", code))
            elif x < 0.9:
                f.append(("file", code))
                f.append(("code", self.pick(CODES)))
            # else: neither code nor file
            if r.random() < 0.97:
                f.append(("parsing", parsing))
            return ("POST", "/adf/add", f)
        pn = self.wpick([(self.pnames[0], 6), (self.pnames[1], 4), ("~p1", 1), ("p9", 1)] + [(x, 3) for x in self.pnames[2:]])
        if g["probs"] and r.random() < 0.7:
            pn = g["probs"][-1]
        if self.special:
            pn = self.seg(pn)
        if k == "solve":
            s = self.wpick([(x, 4) for x in STRATEGIES] + [("Nonsense", 1)])
            return ("PUT", "/adf/%s/solve" % pn, [("strategy", s)])
        if k == "get":
            return ("GET", "/adf/" + pn, None)
        if k == "list":
            return ("GET", "/adf/", None)
        if k == "delete":
            return ("DELETE", "/adf/" + pn, None)
        # bad payloads
        return self.pick([("POST", "/users/register", [("username", "alice")]),
                          ("POST", "/users/login", [("raw", "{nonsense")]),
                          ("PUT", "/users/update", [("password", PWS[0])]),
                          ("PUT", "/adf/p1/solve", [("strateg", "Ground")])])

    # -- C16 ------------------------------------------------------------------------------
    LABELS = ["a", "b", "c", "d", "e", "f"]
    ODD_LABELS = ["and", "c", "s", "ac", "neg1", "TOP", "BOT", "7", "orb"]

    def formula(self, labels, depth):
        r = self.r
        x = r.random()
        if depth <= 0 or x < 0.35:
            y = r.random()
            if y < 0.08:
                return "c(v)"
            if y < 0.16:
                return "c(f)"
            return self.pick(labels)
        if x < 0.5:
            return "neg(" + self.formula(labels, depth - 1) + ")"
        op = self.pick(["and", "or", "imp", "xor", "iff", "and", "or"])
        sep = self.pick([",", ", ", " ,", ","])
        return op + "(" + self.formula(labels, depth - 1) + sep + self.formula(labels, depth - 1) + ")"

    ROTATION = ["ok", "garbage", "attack", "undeclared", "wide", "noac", "selfsup", "dupac", "ok", "acundeclared",
                "ws", "dupstmt", "wide", "prestudy", "chain", "garbage"]
    WIDE_LABELS = ["a", "b", "d", "e", "f", "g", "h", "i", "j", "k", "l", "m", "n", "o", "p", "q", "10", "2", "11", "1",
                   "TOP", "BOT", "and", "s", "ac", "x10", "x2"]

    def wide_code(self):
        """11-14 statements (statement indices "10", "11", ... occur): all but at most 4 statements are decided by
        grounding (facts and short formulas over statements decided before), the others form a small undecided
        core (attacks / self-support / dependence on the core), so that the brute-force specification stays small"""
        r = self.r
        n = r.randint(11, 14)
        labels = r.sample(self.WIDE_LABELS, n)
        u = r.randint(0, 4)
        core = labels[:u]
        rest = labels[u:]
        acs = {}
        decided = []
        for l in rest:
            if not decided or r.random() < 0.3:
                f = self.pick(["c(v)", "c(f)"])
            else:
                f = self.formula(r.sample(decided, min(len(decided), 3)), r.randint(0, 2))
            acs[l] = f
            decided.append(l)
        for i, l in enumerate(core):
            others = [x for x in core if x != l]
            kind = self.wpick([("attack", 4), ("self", 2), ("mixed", 3)])
            if kind == "attack" and others:
                f = "neg(%s)" % others[(i + 1) % len(others)] if len(others) > 1 else "neg(%s)" % others[0]
            elif kind == "self" or not others:
                f = self.pick([l, "neg(%s)" % l])
            else:
                f = self.formula(core + r.sample(decided, min(len(decided), 2)), 2)
            acs[l] = f
        order = list(labels)
        r.shuffle(order)
        # the core should often sit at the high indices, where the index strings have two digits
        if core and r.random() < 0.6:
            order = [x for x in order if x not in core] + core
        stm = ["s(%s)." % l for l in order]
        acl = ["ac(%s,%s)." % (l, acs[l]) for l in order]
        if r.random() < 0.3:
            r.shuffle(acl)
        return "".join(stm + acl), n

    def adf_code(self, kind=None):
        r = self.r
        if kind == "wide":
            return self.wide_code()[0], "wide"
        n = r.randint(1, 6)
        pool = list(self.LABELS)
        if r.random() < 0.3:
            pool = pool[:3] + r.sample(self.ODD_LABELS, 3)
        labels = pool[:n]
        r.shuffle(labels)
        if kind is None:
            kind = self.wpick([("ok", 16), ("noac", 2), ("dupac", 2), ("undeclared", 2), ("acundeclared", 1),
                               ("garbage", 2), ("ws", 2), ("dupstmt", 1), ("attack", 3), ("selfsup", 2), ("chain", 2),
                               ("prestudy", 1)])
        stm = ["s(%s)." % l for l in labels]
        acs = ["ac(%s,%s)." % (l, self.formula(labels, r.randint(0, 3))) for l in labels]
        if kind == "attack":      # even attack cycles (2 stable models each), sometimes an odd one (none)
            acs = []
            i = 0
            while i + 1 < len(labels):
                a, b = labels[i], labels[i + 1]
                acs += ["ac(%s,neg(%s))." % (a, b), "ac(%s,neg(%s))." % (b, a)]
                i += 2
            if i < len(labels):
                l = labels[i]
                acs.append("ac(%s,neg(%s))." % (l, l if r.random() < 0.3 or i == 0 else labels[0]))
        if kind == "selfsup":     # self-support and support cycles: grounded all-undecided, stable differs from 2-valued
            acs = ["ac(%s,%s)." % (l, self.pick([l, labels[(i + 1) % len(labels)], "or(%s,neg(%s))" % (l, l)]))
                   for i, l in enumerate(labels)]
        if kind == "chain":       # propagation chain needing n grounding rounds
            acs = ["ac(%s,c(v))." % labels[0]] + ["ac(%s,%s)." % (labels[i], self.pick([labels[i - 1], "neg(%s)" % labels[i - 1]]))
                                                   for i in range(1, len(labels))]
        if kind == "prestudy":
            stm = ["s(a).", "s(b).", "s(c)."]
            acs = self.pick([["ac(a,c).", "ac(b,and(b,a)).", "ac(c,c)."], ["ac(a,a).", "ac(b,b).", "ac(c,c)."]])
            labels = ["a", "b", "c"]
        if kind == "noac" and acs:
            acs.pop(r.randrange(len(acs)))
        if kind == "dupac":
            l = self.pick(labels)
            acs.insert(r.randrange(len(acs) + 1), "ac(%s,%s)." % (l, self.formula(labels, 2)))
        if kind == "undeclared":
            acs.append("ac(%s,and(%s,zz))." % (labels[0], labels[0]))
        if kind == "acundeclared":
            acs.append("ac(zz,%s)." % labels[0])
        if kind == "dupstmt":
            stm.append(stm[0])
        facts = stm + acs if r.random() < 0.6 else [x for pair in zip(stm, acs + [""] * len(stm)) for x in pair if x] + acs[len(stm):]
        sep = "\n" if kind == "ws" else ""
        code = sep.join(facts)
        if kind == "garbage":
            code = self.pick([code[:-1], code + "x", code.replace("(", "", 1), " " + code, code.replace(").", ")", 1),
                              "s(a).ac(a,nand(a,a))."])
        return code, kind

    def c16_history(self, k=None):
        """one user; 1-2 problems, all six strategies in random order, repeated gets"""
        r = self.r
        forced = self.ROTATION[k % len(self.ROTATION)] if k is not None else None
        alice = self.users[0] if self.special else "alice"
        out = [(0, "POST", "/users/register", [("username", alice), ("password", PWS[0])]),
               (0, "POST", "/users/login", [("username", alice), ("password", PWS[0])])]
        stats = []
        for p0 in (["p1"] if r.random() < 0.6 else ["p1", "p2"]):
            code, kind = self.adf_code(forced)
            forced = None
            parsing = self.pick(["Naive", "Hybrid"]) if k is None or p0 != "p1" else ["Naive", "Hybrid"][(k // 8) % 2]
            stats.append((kind, parsing))
            name = self.pnames[0 if p0 == "p1" else 1] if self.special else p0
            pn = seg(name)
            f = [("name", name), ("file" if r.random() < 0.15 else "code", code), ("parsing", parsing)]
            out.append((0, "POST", "/adf/add", f))
            out.append((0, "GET", "/adf/" + pn, None))
            strats = list(STRATEGIES)
            r.shuffle(strats)
            for s in strats:
                out.append((0, "PUT", "/adf/%s/solve" % pn, [("strategy", s)]))
                if r.random() < 0.5:
                    out.append((0, "GET", "/adf/" + pn, None))
                if r.random() < 0.15:
                    out.append((0, "PUT", "/adf/%s/solve" % pn, [("strategy", s)]))   # 409: already solved
            out.append((0, "GET", "/adf/" + pn, None))
        out.append((0, "GET", "/adf/", None))
        return 1, out, stats


# ----------------------------------------------------------------------------------------------
# executing a history

def fields_str(fields):
    if fields is None:
        return "-"
    if not fields:
        return "+"
    return ",".join("%s:%s" % (k, hx(v)) for k, v in fields)


def parse_fields(s):
    if s == "-":
        return None
    if s == "+":
        return []
    out = []
    for kv in s.split(","):
        k, v = kv.split(":", 1)
        out.append((k, unhx(v)))
    return out


def is_task_write(e):
    return e["cmd"] == "update" and e["coll"] == "adf-problems" and \
        any(k == "adf" or k.startswith("acs_per_strategy.") for k in e["set_keys"])


def is_problem_cmd(e):
    return e["coll"] == "adf-problems" and e["cmd"] in ("find", "insert", "update", "delete")


class Names:
    """canonical names of the randomly generated temporary users / problem names"""

    def __init__(self):
        self.real2canon = {}
        self.canon2real = {}
        self.nt = 0
        self.np = 0

    def add_temp(self, real):
        if real not in self.real2canon:
            self.nt += 1
            self.real2canon[real] = "~t%d" % self.nt
            self.canon2real["~t%d" % self.nt] = real

    def add_gen(self, real):
        if real not in self.real2canon:
            self.np += 1
            self.real2canon[real] = "~p%d" % self.np
            self.canon2real["~p%d" % self.np] = real

    def ren(self, s):
        for real, c in self.real2canon.items():
            if real in s:
                s = s.replace(real, c)
        return s

    def real(self, s):
        for c, real in self.canon2real.items():
            if c in s:
                s = s.replace(c, real)
        return s


class Run:
    """the execution of one history (sequential modes)"""

    def __init__(self, rig, out, mode):
        self.rig = rig
        self.stub = rig.stub
        self.out = out
        self.mode = mode
        self.detail = mode in ("c16", "d9b")
        self.names = Names()
        self.jars = {}
        self.accepted = 0          # add/solve requests answered "… started..."
        self.iso = []              # items of the isolation monitor
        self.hashes = []           # every credential string ever stored
        self.plain = set()         # every plaintext password ever sent
        self.responses = {}        # jar -> list of canonical "= …" payloads
        self.pending = []          # tasks spawned and not yet reported done: (jar, n, task, actor, stub-log position)
        self.graphs_seen = set()
        self.used = {}             # jar -> account names it used (canonical), for the `alone` monitor
        self.cred = []             # credential events for the `logins` monitor
        self.stats = {"requests": 0, "status": {}, "tasks": 0, "models": 0, "graphs": 0}

    def emit(self, line):
        self.out.write(line + "\n")

    def rtok(self, name):
        """protocol token of a real name (`-` if there is none)"""
        return tok(self.names.ren(name)) if isinstance(name, str) else "-"

    def jar(self, name):
        if name not in self.jars:
            self.jars[name] = Jar(name)
        return self.jars[name]

    # -- one request -----------------------------------------------------------------------
    def http(self, jname, method, path, fields, wait=True):
        jar = self.jar(jname)
        self.emit("http %s %s %s %s" % (jname, method, path, fields_str(fields)))
        self.stats["requests"] += 1
        for k, v in (fields or []):
            if k == "password" and v:
                self.plain.add(v)
        real_path = self.names.real(path)
        real_fields = None if fields is None else [(k, self.names.real(v) if k == "username" else v) for k, v in fields]
        ident_before = jar.ident
        pos = self.stub.log_len()
        status, data, ev = send(jar, method, real_path, real_fields)
        entries = self.stub.log_since(pos)
        # names the server generated during this request
        req_name = dict(fields or []).get("name")
        for e in entries:
            if e["cmd"] == "insert" and e["coll"] == "users":
                for d in e["docs"]:
                    if d.get("password") is None:
                        self.names.add_temp(d["username"])
                    else:
                        self.hashes.append(d["password"])
            if e["cmd"] == "insert" and e["coll"] == "adf-problems":
                for d in e["docs"]:
                    if req_name is not None and d.get("name") != req_name:
                        self.names.add_gen(d["name"])
            if e["cmd"] == "update" and e["coll"] == "users" and "replacement" in e:
                if e["replacement"].get("password") is not None:
                    self.hashes.append(e["replacement"]["password"])
        # identity bookkeeping follows the cookie events
        if ev == "del":
            jar.ident = None
        elif ev == "set":
            if path == "/users/login" or path == "/users/update":
                jar.ident = self.names.real(dict(fields or []).get("username", "?"))
            elif path == "/adf/add":
                temps = [d["username"] for e in entries if e["cmd"] == "insert" and e["coll"] == "users" for d in e["docs"]]
                jar.ident = temps[0] if temps else "?"
            else:
                jar.ident = "?"
        actor = ident_before if ident_before is not None else (jar.ident if path == "/adf/add" else None)
        mine = self.used.setdefault(jname, set())
        if path in ("/users/register", "/users/login", "/users/update") and "username" in dict(fields or []) \
                and "password" in dict(fields or []) and "raw" not in dict(fields or []):
            mine.add(dict(fields)["username"])
        if path == "/adf/add" and ev == "set" and ident_before is None and jar.ident:
            mine.add(self.names.ren(jar.ident))
        fd = dict(fields or [])
        if "raw" not in fd and fd.get("username") and fd.get("password"):
            pw = fnv64(fd["password"])[:8]
            if path == "/users/register" and status == 200:
                self.cred.append("R:%s:%s" % (tok(fd["username"]), pw))
            elif path == "/users/update" and status == 200:
                self.cred.append("U:%s:%s:%s" % (self.rtok(ident_before), tok(fd["username"]), pw))
            elif path == "/users/login":
                self.cred.append("L:%s:%s:%d" % (tok(fd["username"]), pw, status))
        if path == "/users/delete" and status == 200:
            self.cred.append("D:%s" % self.rtok(ident_before))
        body = canon_body(status, data, self.detail, self.names.ren)
        payload = "%d %s %s" % (status, ev, body)
        self.emit("= " + payload)
        self.responses.setdefault(jname, []).append(payload)
        self.stats["status"][status] = self.stats["status"].get(status, 0) + 1
        self.monitor_request(jname, actor, entries, status, data)
        txt = data.decode("utf-8", "replace")
        if status == 200 and txt in ("Parsing started...", "Solving started..."):
            self.accepted += 1
            task = "Parse" if txt.startswith("Parsing") else "Solve:" + dict(fields or []).get("strategy", "?")
            self.pending.append((jname, jar.ntasks, task, actor, self.stub.log_len()))
            jar.ntasks += 1
            if wait:
                self.wait_tasks()
        if self.detail and status == 200 and method == "GET" and path.startswith("/adf/"):
            self.emit_results(jname, data)
        return status, data

    # -- background tasks ------------------------------------------------------------------
    def wait_tasks(self):
        """wait until every accepted task has issued its final write, then report them"""
        ok = self.stub.wait_applied(is_task_write, self.accepted)
        if not ok:
            self.emit("# task write missing after timeout")
        writes = [e for e in self.stub.log_since(0) if is_task_write(e) and e.get("applied")]
        self.report_tasks(writes)

    def report_tasks(self, writes):
        """match the pending tasks with the applied writes (in write order)"""
        seen = self.__dict__.setdefault("_reported", set())
        for e in writes:
            if e["seq"] in seen:
                continue
            seen.add(e["seq"])
            # the write belongs to the oldest pending task with this (task kind, name, username)
            kind = "Parse" if "adf" in e["set_keys"] else "Solve:" + KEY_STRAT.get(e["set_keys"][0].split(".", 1)[1], "?")
            f = e["filters"][0]
            idx = None
            for i, (jn, n, task, actor, _pos) in enumerate(self.pending):
                if task == kind and actor == f.get("username"):
                    idx = i
                    break
            if idx is None:
                self.emit("# unmatched task write %s %s" % (kind, cj(f)))
                continue
            jn, n, task, actor, _pos = self.pending.pop(idx)
            self.taskdone(jn, n, task, actor, e)

    def taskdone(self, jn, n, task, actor, e):
        self.stats["tasks"] += 1
        vals = e.get("set_vals", {})
        key = "acs_per_strategy.parse_only" if task == "Parse" else e["set_keys"][0]
        owe = vals.get(key, {})
        cls = canon_owe(owe, False)
        line = "taskdone %s %d %s obs=%s" % (jn, n, task, cls)
        adf = vals.get("adf", {})
        if self.detail and task == "Parse" and adf.get("type") == "Some":
            line += " adf=" + canon_adf(adf["content"])
        self.emit(line)
        summary = canon_owe(owe, self.detail)
        self.emit("= %s %s" % ("written" if e.get("n", 0) >= 1 else "nodoc", summary))
        if self.detail and task == "Parse":
            self.emit("~ ok")
        if self.detail:
            # a task that has ended must not be reported as running (asked with the spawning jar's session)
            name = e["filters"][0].get("name")
            jar = self.jars.get(jn)
            if isinstance(name, str) and jar is not None and jar.cookie:
                st, data, _ev = send(jar, "GET", "/adf/" + seg(name), None)
                if st == 200:
                    try:
                        rt = sorted(canon_task(t) for t in json.loads(data.decode())["running_tasks"])
                    except (ValueError, KeyError):
                        rt = ["?"]
                    self.emit("runcheck %s %s" % (task, ",".join(rt) or "-"))
                    self.emit("~ ok")
        # the write is a command issued for the spawning request's identity
        fu = e["filters"][0].get("username")
        self.iso.append("c/update/%s/%s" % (self.rtok(fu), self.rtok(actor) if actor else "-"))

    # -- monitors ---------------------------------------------------------------------------
    def monitor_request(self, jname, actor, entries, status, data):
        ren = self.names.ren
        a = self.rtok(actor) if actor else "-"
        found = set()
        for e in entries:
            if not is_problem_cmd(e) or is_task_write(e):
                continue
            if e["cmd"] == "insert":
                us = [d.get("username") for d in e["docs"]]
            else:
                us = [f.get("username") if isinstance(f.get("username"), str) else None for f in e["filters"]]
            for u in us:
                self.iso.append("c/%s/%s/%s" % (e["cmd"], self.rtok(u), a))
            if e["cmd"] == "find":
                for f in e["filters"]:
                    if f.get("username") == actor:
                        for d in e.get("returned", []):
                            found.add((d.get("name"), d.get("code")))
        probs = []
        try:
            obj = json.loads(data.decode("utf-8", "replace"))
            if isinstance(obj, dict) and "acs_per_strategy" in obj:
                probs = [obj]
            elif isinstance(obj, list):
                probs = [x for x in obj if isinstance(x, dict) and "acs_per_strategy" in x]
        except ValueError:
            pass
        if probs:
            got = ["%s:%s" % (tok(ren(p["name"])), fnv64(p["code"])[:8]) for p in probs]
            own = sorted("%s:%s" % (tok(ren(n)), fnv64(c)[:8]) for n, c in found)
            self.iso.append("r/%s/%s/%s" % (a, ",".join(got) or "-", ",".join(own) or "-"))

    def finish(self, k):
        self.dbcheck()
        self.emit("isolation " + (" ".join(self.iso) if self.iso else "-"))
        self.emit("~ ok")
        self.emit("logins " + (" ".join(self.cred) if self.cred else "-"))
        self.emit("~ ok")

    def dbcheck(self):
        dump = self.stub.dump()
        ren = self.names.ren
        users = []
        for d in dump.get(USERS_NS, []):
            pw = d.get("password")
            if pw is None:
                cls = "null"
            elif not isinstance(pw, str) or not pw.startswith("$argon2"):
                cls = "plain" if pw in self.plain else "other"
            elif any(p in pw for p in self.plain):
                cls = "contains-plain"
            elif self.hashes.count(pw) > 1:
                cls = "argon2-dup"
            else:
                cls = "argon2"
            users.append("%s:%s" % (tok(ren(d.get("username", "?"))), cls))
        probs = []
        for d in dump.get(PROBS_NS, []):
            probs.append({"name": ren(d.get("name", "?")), "username": ren(d.get("username", "?")), "code": d.get("code"),
                          "parsing_used": d.get("parsing_used"),
                          "adf": canon_adf_owe(d.get("adf", {}), self.detail),
                          "acs_per_strategy": {k: canon_owe(v, self.detail) for k, v in d.get("acs_per_strategy", {}).items()}})
        self.emit("dbcheck users=%s problems=%s" % (",".join(users) or "-", cj(probs)))
        self.emit("~ ok")

    def disjoint(self, jname):
        mine = self.used.get(jname, set())
        return not any(mine & v for k, v in self.used.items() if k != jname)

    def alone(self, jname, forced=False):
        if not forced and not self.disjoint(jname):
            return
        digests = ",".join(fnv64(p) for p in self.responses.get(jname, []))
        self.emit("alone%s %s" % ("!" if forced else "", jname))
        self.emit("~ " + (digests or "-"))

    # -- C16 detail --------------------------------------------------------------------------
    def emit_results(self, jname, data):
        try:
            obj = json.loads(data.decode("utf-8", "replace"))
        except ValueError:
            return
        infos = obj if isinstance(obj, list) else [obj]
        docs = self.stub.dump().get(PROBS_NS, [])
        for info in infos:
            if not isinstance(info, dict) or "acs_per_strategy" not in info:
                continue
            doc = None
            for d in docs:
                if d.get("name") == info["name"] and d.get("code") == info["code"]:
                    doc = d
            adf = (doc or {}).get("adf", {})
            if adf.get("type") != "Some":
                continue
            table = canon_adf(adf["content"])
            for key, owe in sorted(info["acs_per_strategy"].items()):
                if owe.get("type") != "Some":
                    continue
                sig = (info["code"], key, cj(owe), table)
                if sig in self.graphs_seen:
                    continue
                self.graphs_seen.add(sig)
                acs = [",".join(x["ac"]) for x in owe["content"]]
                self.stats["models"] += len(acs)
                code = hx(info["code"])
                self.emit("result %s %s %s" % (key, code, table))
                if self.mode != "d9b":
                    self.emit("= " + (";".join(sorted(acs)) or "-"))
                self.emit("~ " + (" ".join(sorted(tfu(x["ac"]) for x in owe["content"])) or "-"))
                for x in owe["content"]:
                    self.stats["graphs"] += 1
                    g = canon_graph(x["graph"])
                    self.emit("graphcheck %s %s %s %s %s" % (key, code, table, ",".join(x["ac"]) or "-", g))
                    if self.mode != "d9b":
                        self.emit("= " + fnv64(g))
                    self.emit("~ ok")


def tfu(ac):
    return "".join("T" if t == "1" else "F" if t == "0" else "u" for t in ac)


def canon_adf(content):
    """names|table|ac of a stored SimplifiedAdf: hex names, var,lo,hi rows"""
    names = ",".join(hx(n) for n in content["ordering"]["names"])
    table = ";".join("%s,%s,%s" % (n["var"], n["lo"], n["hi"]) for n in content["bdd"])
    ac = ",".join(content["ac"])
    return "%s|%s|%s" % (names or "-", table, ac or "-")


def canon_adf_owe(o, detail):
    t = o.get("type")
    if t == "Some":
        return "Some:" + canon_adf(o["content"]) if detail else "Some"
    if t == "Error":
        return "Error:" + canon_err(o.get("content", ""))
    return "None"


def canon_graph(g):
    """nodes=<id:hexlabel:hexroot+hexroot,…>/lo=<a>b,…>/hi=<…>  (sorted by id, edges in listed order)"""
    def num(s):
        return int(s) if s.isdigit() else 1 << 62
    nodes = []
    ids = sorted(set(g["node_labels"].keys()) | set(g["tree_root_labels"].keys()), key=num)
    for i in ids:
        lab = g["node_labels"].get(i)
        roots = g["tree_root_labels"].get(i)
        nodes.append("%s:%s:%s" % (i, hx(lab) if lab is not None else "!", "+".join(hx(r) for r in roots) if roots else ("-" if roots is not None else "!")))
    lo = ",".join("%s>%s" % (a, b) for a, b in g["lo_edges"]) or "-"
    hi = ",".join("%s>%s" % (a, b) for a, b in g["hi_edges"]) or "-"
    return "nodes=%s/lo=%s/hi=%s" % (",".join(nodes) or "-", lo, hi)


# ----------------------------------------------------------------------------------------------
# modes

def stat_line(k, run, extra=""):
    st = run.stats
    sts = " ".join("s%d=%d" % (s, n) for s, n in sorted(st["status"].items()))
    return "# case web-%d requests=%d tasks=%d temps=%d %s%s" % (k, st["requests"], st["tasks"], run.names.nt, sts, extra)


def run_seq_case(rig, out, k, seed, mode, history, njars):
    rig.ensure()
    rig.stub.reset()
    out.write("case web-%d mode=%s seed=%d\n" % (k, mode, seed))
    run = Run(rig, out, mode)
    for (j, method, path, fields) in history:
        run.http("j%d" % j, method, path, fields)
    run.finish(k)
    if mode == "seq":
        for j in range(njars):
            run.alone("j%d" % j)
    return run


def used_names(history, j):
    s = set()
    for (jj, _m, path, fields) in history:
        if jj == j and fields:
            u = dict(fields).get("username")
            if u is not None and path.startswith("/users/"):
                s.add(u)
    return s


def run_conc_case(rig, out, k, seed, history, njars):
    """several jars at once; only monitors are printed"""
    rig.ensure()
    rig.stub.reset()
    out.write("case web-%d mode=conc seed=%d\n" % (k, seed))
    stub = rig.stub
    names = Names()
    per_jar = {j: [h for h in history if h[0] == j] for j in range(njars)}
    jars = {j: Jar("j%d" % j) for j in range(njars)}
    records = []       # dicts: jar, t0, t1, actor, status, data, path
    lock = threading.Lock()
    accepted = [0]
    spawned = []       # (actor, t0)

    def worker(j):
        jar = jars[j]
        for (_j, method, path, fields) in per_jar[j]:
            if fields and dict(fields).get("username") == "~t1":
                fields = [(k2, v) for k2, v in fields]      # sent literally: no such account
            before = jar.ident
            t0 = time.time()
            try:
                status, data, ev = send(jar, method, path, fields)
            except OSError as e:
                status, data, ev = 0, str(e).encode(), "-"
            t1 = time.time()
            if ev == "del":
                jar.ident = None
            elif ev == "set":
                if path in ("/users/login", "/users/update"):
                    jar.ident = dict(fields or []).get("username", "?")
                else:
                    # learn the temporary account's name from the server itself
                    try:
                        s2, d2, _ = send(jar, "GET", "/users/info", None)
                        jar.ident = json.loads(d2.decode()).get("username", "?") if s2 == 200 else "?"
                    except (OSError, ValueError):
                        jar.ident = "?"
                    t1 = time.time()
            actor = before if before is not None else (jar.ident if path == "/adf/add" else None)
            txt = data.decode("utf-8", "replace")
            with lock:
                records.append(dict(jar=j, t0=t0, t1=t1, actor=actor, status=status, data=data, path=path, method=method,
                                    fields=fields))
                if status == 200 and txt in ("Parsing started...", "Solving started..."):
                    accepted[0] += 1
                    spawned.append((actor, t0))

    ths = [threading.Thread(target=worker, args=(j,)) for j in range(njars)]
    for t in ths:
        t.start()
    for t in ths:
        t.join()
    stub.wait_applied(is_task_write, accepted[0])
    log = stub.log_since(0)
    records.sort(key=lambda r: r["t0"])
    for r in records:
        out.write("# req j%d %s %s %s -> %d\n" % (r["jar"], r["method"], r["path"], fields_str(r["fields"]), r["status"]))
    # every adf-problems command: the user name in its filter must be the identity of a request in flight
    # (or of a task spawned earlier)
    iso = []
    for e in log:
        if not is_problem_cmd(e):
            continue
        if e["cmd"] == "insert":
            us = [d.get("username") for d in e["docs"]]
        else:
            us = [f.get("username") if isinstance(f.get("username"), str) else None for f in e["filters"]]
        t0, t1 = e["t0"], e.get("t1", e["t0"])
        if is_task_write(e):
            cands = sorted({a for (a, ts) in spawned if a is not None and ts <= t1})
        else:
            cands = sorted({r["actor"] for r in records if r["actor"] is not None and r["t0"] <= t1 and r["t1"] >= t0})
        for u in us:
            iso.append("c/%s/%s/%s" % (e["cmd"], tok(u) if u is not None else "-", "+".join(tok(c) for c in cands) or "-"))
    # responses: every problem shown to a jar was returned by a find carrying that jar's identity while
    # the request was in flight
    for r in records:
        probs = []
        try:
            obj = json.loads(r["data"].decode("utf-8", "replace"))
            if isinstance(obj, dict) and "acs_per_strategy" in obj:
                probs = [obj]
            elif isinstance(obj, list):
                probs = [x for x in obj if isinstance(x, dict) and "acs_per_strategy" in x]
        except ValueError:
            pass
        if not probs:
            continue
        found = set()
        for e in log:
            if e["cmd"] == "find" and e["coll"] == "adf-problems" and e["t0"] <= r["t1"] and e.get("t1", e["t0"]) >= r["t0"]:
                for f in e["filters"]:
                    if r["actor"] is not None and f.get("username") == r["actor"]:
                        for d in e.get("returned", []):
                            found.add((d.get("name"), d.get("code")))
        got = ["%s:%s" % (tok(p["name"]), fnv64(p["code"])[:8]) for p in probs]
        own = sorted("%s:%s" % (tok(n), fnv64(c)[:8]) for n, c in found)
        iso.append("r/%s/%s/%s" % (tok(r["actor"]) if r["actor"] else "-", ",".join(got) or "-", ",".join(own) or "-"))
    # credentials
    run = Run(rig, out, "conc")
    run.names = names
    for e in log:
        if e["cmd"] == "insert" and e["coll"] == "users":
            run.hashes += [d["password"] for d in e["docs"] if d.get("password") is not None]
        if e["cmd"] == "update" and e["coll"] == "users" and e.get("replacement", {}).get("password") is not None:
            run.hashes.append(e["replacement"]["password"])
    for r in records:
        for k2, v in (r["fields"] or []):
            if k2 == "password" and v:
                run.plain.add(v)
    run.dbcheck()
    out.write("isolation " + (" ".join(iso) if iso else "-") + "\n~ ok\n")
    sts = {}
    for r in records:
        sts[r["status"]] = sts.get(r["status"], 0) + 1
    out.write("# case web-%d requests=%d tasks=%d %s\n" % (k, len(records), accepted[0],
                                                          " ".join("s%d=%d" % (s, n) for s, n in sorted(sts.items()))))


CODE_A = "s(a).s(b).ac(a,neg(b)).ac(b,neg(a))."
CODE_B = "s(x).ac(x,c(v))."


def run_d9a(rig, out, k, seed):
    """D9, account level: a task of the deleted account `alice` finishes after somebody else registered
    `alice` again and re-created the problem name"""
    rig.ensure()
    rig.stub.reset()
    out.write("case web-%d mode=d9 seed=%d\n" % (k, seed))
    run = Run(rig, out, "d9")
    cred = [("username", "alice"), ("password", PWS[0])]
    run.http("j0", "POST", "/users/register", cred)
    run.http("j0", "POST", "/users/login", cred)
    run.http("j0", "POST", "/adf/add", [("name", "p1"), ("code", CODE_A), ("parsing", "Naive")])
    h = rig.stub.hold("update", "adf-problems", k=0, key_prefix="acs_per_strategy.stable")
    run.http("j0", "PUT", "/adf/p1/solve", [("strategy", "Stable")], wait=False)
    arrived = h.wait_arrived(60)
    run.emit("taskfin j0 1")       # the blocking part is over (its write is what the stub holds back)
    run.http("j0", "DELETE", "/users/delete", None)
    cred2 = [("username", "alice"), ("password", PWS[1])]
    run.http("j1", "POST", "/users/register", cred2)
    run.http("j1", "POST", "/users/login", cred2)
    # the new owner's own parse task must be reported before the held one: wait for it separately
    run.accepted -= 1
    run.http("j1", "POST", "/adf/add", [("name", "p1"), ("code", CODE_B), ("parsing", "Naive")])
    run.accepted += 1
    h.release()
    run.wait_tasks()
    status, data = run.http("j1", "GET", "/adf/p1", None)
    reproduced = 0
    try:
        obj = json.loads(data.decode())
        if obj.get("code") == CODE_B and obj["acs_per_strategy"]["stable"]["type"] == "Some":
            reproduced = 1
    except (ValueError, KeyError):
        pass
    run.finish(k)
    run.alone("j1", forced=True)
    out.write("# known D9 reproduced=%d held=%d variant=account-reuse\n" % (reproduced, 1 if arrived else 0))
    return reproduced


def run_d9b(rig, out, k, seed):
    """D9 inside one user's history: delete + re-add of the problem while its solve is in flight"""
    rig.ensure()
    rig.stub.reset()
    out.write("case web-%d mode=d9b seed=%d\n" % (k, seed))
    run = Run(rig, out, "d9b")
    cred = [("username", "alice"), ("password", PWS[0])]
    run.http("j0", "POST", "/users/register", cred)
    run.http("j0", "POST", "/users/login", cred)
    run.http("j0", "POST", "/adf/add", [("name", "p1"), ("code", CODE_A), ("parsing", "Naive")])
    h = rig.stub.hold("update", "adf-problems", k=0, key_prefix="acs_per_strategy.stable")
    run.http("j0", "PUT", "/adf/p1/solve", [("strategy", "Stable")], wait=False)
    arrived = h.wait_arrived(60)
    run.emit("taskfin j0 1")
    run.http("j0", "DELETE", "/adf/p1", None)
    run.accepted -= 1
    run.http("j0", "POST", "/adf/add", [("name", "p1"), ("code", CODE_B), ("parsing", "Naive")])
    run.accepted += 1
    h.release()
    run.wait_tasks()
    status, data = run.http("j0", "GET", "/adf/p1", None)
    reproduced = 0
    try:
        obj = json.loads(data.decode())
        if obj.get("code") == CODE_B and obj["acs_per_strategy"]["stable"]["type"] == "Some":
            reproduced = 1
    except (ValueError, KeyError):
        pass
    run.finish(k)
    out.write("# known D9 reproduced=%d held=%d variant=problem-reuse\n" % (reproduced, 1 if arrived else 0))
    return reproduced


def run_d9c(rig, out, k, seed):
    """same root cause, other symptom: the owner renames the account while a solve is in flight; the late
    write is addressed to (name, OLD user name), matches nothing, and the accepted solve never yields a result"""
    rig.ensure()
    rig.stub.reset()
    out.write("case web-%d mode=d9c seed=%d\n" % (k, seed))
    run = Run(rig, out, "d9")
    cred = [("username", "alice"), ("password", PWS[0])]
    run.http("j0", "POST", "/users/register", cred)
    run.http("j0", "POST", "/users/login", cred)
    run.http("j0", "POST", "/adf/add", [("name", "p1"), ("code", CODE_A), ("parsing", "Naive")])
    h = rig.stub.hold("update", "adf-problems", k=0, key_prefix="acs_per_strategy.stable")
    run.http("j0", "PUT", "/adf/p1/solve", [("strategy", "Stable")], wait=False)
    arrived = h.wait_arrived(60)
    run.emit("taskfin j0 1")
    run.http("j0", "PUT", "/users/update", [("username", "bob"), ("password", PWS[0])])
    h.release()
    run.wait_tasks()
    status, data = run.http("j0", "GET", "/adf/p1", None)
    stored = "?"
    try:
        stored = json.loads(data.decode())["acs_per_strategy"]["stable"]["type"]
    except (ValueError, KeyError):
        pass
    run.finish(k)
    # specification: the result of an accepted solve is stored in the problem as long as the problem exists
    run.emit("stored stable")
    run.emit("~ " + stored)
    out.write("# known D9 reproduced=%d held=%d variant=rename-loses-result\n" % (1 if stored == "None" else 0, 1 if arrived else 0))
    return 1 if stored == "None" else 0


def run_d14(rig, out, k, seed):
    """D14: check-then-act in add_adf_problem. Two devices of ONE account add a problem under the same name at
    the same time: the first request's insert_one is held back by the stub until the second request has done its
    find_one and insert_one. Neither request goes through the sequential model (it has no overlapping requests);
    the outcome is judged by the `addrace` specification line."""
    import threading
    rig.ensure()
    rig.stub.reset()
    out.write("case web-%d mode=d14 seed=%d\n" % (k, seed))
    run = Run(rig, out, "d9")
    cred = [("username", "alice"), ("password", PWS[0])]
    run.http("j0", "POST", "/users/register", cred)
    run.http("j0", "POST", "/users/login", cred)
    run.http("j1", "POST", "/users/login", cred)
    j0, j1 = run.jar("j0"), run.jar("j1")
    h = rig.stub.hold("insert", "adf-problems", k=0)
    res = {}

    def first():
        res["a"] = send(j0, "POST", "/adf/add", [("name", "p1"), ("code", CODE_A), ("parsing", "Naive")])

    t = threading.Thread(target=first)
    t.start()
    arrived = h.wait_arrived(60)
    rb = send(j1, "POST", "/adf/add", [("name", "p1"), ("code", CODE_B), ("parsing", "Naive")])
    h.release()
    t.join(120)
    accepted = sum(1 for r in (res.get("a"), rb) if r and r[0] == 200)
    rig.stub.wait_applied(is_task_write, accepted, timeout=120)
    docs = 0
    for ns, ds in rig.stub.dump().items():
        if "adf-problems" in ns:
            docs += sum(1 for d in ds if d.get("name") == "p1")
    agree = 1
    try:
        st, data, _ = send(j0, "GET", "/adf/p1", None)
        obj = json.loads(data.decode())
        po = obj["acs_per_strategy"]["parse_only"]
        labels = sorted(set(po["content"][0]["graph"]["node_labels"].values())) if po.get("type") == "Some" else []
        want = ["a", "b"] if obj.get("code") == CODE_A else ["x"]
        if po.get("type") == "Some" and not set(l for l in labels if l.isalpha()) <= set(want):
            agree = 0
    except (ValueError, KeyError, IndexError, TypeError):
        agree = 0
    run.emit("addrace p1")
    run.emit("~ accepted=%d documents=%d code-and-picture-agree=%d" % (accepted, docs, agree))
    reproduced = 1 if (accepted, docs) != (1, 1) else 0
    out.write("# known D14 reproduced=%d held=%d variant=add-add-race\n" % (reproduced, 1 if arrived else 0))
    return reproduced


RUNKEY_SEPS = ["/", "%2F", ":", " ", "|", "?", "#", "&", "=", "+", ".", "\u00fc", ",", ";", "\\", "-", "_", "@", "\"", "//"]


def pairs_code(n):
    """n mutual attacks: 2^n stable models; StableNogood on it keeps a worker busy for seconds"""
    return "".join("s(a%d).s(b%d)." % (i, i) for i in range(n)) + \
        "".join("ac(a%d,neg(b%d)).ac(b%d,neg(a%d))." % (i, i, i, i) for i in range(n))


class Retry(Exception):
    def __init__(self, msg, writes):
        Exception.__init__(self, msg)
        self.writes = writes      # task writes the discarded attempt will still issue


def run_runkey(rig, out, k, seed):
    """the key of a running task is the PAIR (user, problem), not a concatenation: user A = `x` with problem `y<sep>z`
    and user B = `x<sep>y` with problem `z` (sep = `/` first, then other separators; every second case with the roles
    swapped).  While A's StableNogood task on a big ADF is STILL RUNNING, B looks at its own problem (running_tasks
    must be empty), starts its own StableNogood (must be accepted) and A sees its task running and cannot start it a
    second time.  All of this goes through the sequential model: no `taskfin`/`taskdone` of A's task is reported
    before the end, so the model has it running, too.  Deterministic; if the big task ends too early the attempt is
    thrown away and repeated with a bigger ADF."""
    sep = RUNKEY_SEPS[(k // 2) % len(RUNKEY_SEPS)]
    a, b = ("x", "y" + sep + "z"), ("x" + sep + "y", "z")
    if k % 2 == 1:
        a, b = b, a
    import io
    n = int(os.environ.get("WEBHARNESS_RUNKEY_PAIRS", "8"))
    for attempt in range(4):
        buf = io.StringIO()
        try:
            # the last attempt is printed whatever happens (a server on which the schedule cannot be kept shows up
            # as differences to the model, not as a harness failure)
            runkey_attempt(rig, buf, k, seed, a, b, n + attempt, sep, attempt == 3)
            out.write(buf.getvalue())
            return
        except Retry as e:
            # let the discarded attempt's tasks come to their end before the database is reset
            rig.stub.wait_applied(is_task_write, e.writes, timeout=150)


def runkey_attempt(rig, out, k, seed, a, b, n, sep, final):
    rig.ensure()
    rig.stub.reset()
    out.write("case web-%d mode=runkey seed=%d\n" % (k, seed))
    run = Run(rig, out, "runkey")
    (ua, pa), (ub, pb) = a, b
    ca = [("username", ua), ("password", PWS[0])]
    cb = [("username", ub), ("password", PWS[1])]
    run.http("j0", "POST", "/users/register", ca)
    run.http("j0", "POST", "/users/login", ca)
    run.http("j1", "POST", "/users/register", cb)
    run.http("j1", "POST", "/users/login", cb)
    run.http("j0", "POST", "/adf/add", [("name", pa), ("code", pairs_code(n)), ("parsing", "Naive")])
    run.http("j1", "POST", "/adf/add", [("name", pb), ("code", CODE_A), ("parsing", "Naive")])
    wa, wb = "/adf/" + seg(pa), "/adf/" + seg(pb)
    j0 = run.jar("j0")

    def running_a():
        st, data, _ = send(j0, "GET", wa, None)
        try:
            return [canon_task(t) for t in json.loads(data.decode())["running_tasks"]]
        except (ValueError, KeyError):
            return []

    st, data = run.http("j0", "PUT", wa + "/solve", [("strategy", "StableNogood")], wait=False)
    if st != 200:
        raise SystemExit("runkey: A's solve was not accepted: %d %r" % (st, data[:100]))
    # the guard enters currently_running on the worker thread: wait (silently) until it is there
    t0 = time.time()
    while "Solve:StableNogood" not in running_a():
        if time.time() - t0 > 20:
            if final:
                break
            raise Retry("task never seen running", run.accepted)
        time.sleep(0.005)
    # B, whose "<user><sep><problem>" is A's: its own view and its own solve
    run.http("j1", "GET", wb, None)
    run.accepted -= 1            # A's task is not expected to write yet: wait for B's only
    run.http("j1", "PUT", wb + "/solve", [("strategy", "StableNogood")])
    run.accepted += 1
    run.http("j1", "GET", wb, None)
    # A: the same solve again is refused while it runs, and the task is shown as running
    st2, _ = run.http("j0", "PUT", wa + "/solve", [("strategy", "StableNogood")], wait=False)
    if st2 == 200 and not final:
        # accepted a second time: the first task ended a moment ago (the guard is dropped before the final write)
        raise Retry("task over before the second solve with %d pairs" % n, run.accepted)
    st, data = run.http("j0", "GET", wa, None)
    try:
        still = [canon_task(t) for t in json.loads(data.decode())["running_tasks"]]
    except (ValueError, KeyError):
        still = []
    if "Solve:StableNogood" not in still and not final:
        raise Retry("task over after %.2f s with %d pairs" % (time.time() - t0, n), run.accepted)
    held = time.time() - t0
    run.wait_tasks()
    run.http("j0", "GET", wa, None)
    run.http("j1", "GET", wb, None)
    run.finish(k)
    out.write(stat_line(k, run, " pairs=%d running=%.1fs sep=%s" % (n, held, tok(sep))) + "\n")


def do_run(args, out):
    rig = Rig(args.server_bin)
    try:
        base = args.seed
        for k in range(args.cases):
            seed = base * 100003 + k
            g = Gen(seed)
            if args.mode == "seq":
                njars, hist = g.history()
                run = run_seq_case(rig, out, k, seed, "seq", hist, njars)
                out.write(stat_line(k, run, " jars=%d" % njars) + "\n")
            elif args.mode == "c16":
                njars, hist, stats = g.c16_history(k)
                run = run_seq_case(rig, out, k, seed, "c16", hist, njars)
                extra = " models=%d graphs=%d" % (run.stats["models"], run.stats["graphs"])
                extra += "".join(" kind=%s parsing=%s" % s for s in stats)
                out.write(stat_line(k, run, extra) + "\n")
            elif args.mode == "conc":
                njars, hist = g.history(conc=True, scale=max(1, args.scale))
                run_conc_case(rig, out, k, seed, hist, njars)
            elif args.mode == "d9":
                (run_d9a, run_d9b, run_d9c)[k % 3](rig, out, k, seed)
            elif args.mode == "d14":
                run_d14(rig, out, k, seed)
            elif args.mode == "runkey":
                run_runkey(rig, out, k, seed)
            else:
                raise SystemExit("unknown mode " + args.mode)
            out.flush()
    finally:
        rig.close()


def do_exec(args, out):
    """re-executes the `http` request lines of the cases on stdin (sequential modes)"""
    rig = Rig(args.server_bin)
    try:
        cases = []
        for line in sys.stdin.read().split("\n"):
            line = line.strip()
            if line.startswith("case "):
                cases.append((line, []))
            elif line.startswith("http ") and cases:
                w = line.split(" ")
                cases[-1][1].append((w[1], w[2], w[3], parse_fields(w[4]) if len(w) > 4 else None))
        for k, (head, reqs) in enumerate(cases):
            m = re.search(r"mode=(\S+)", head)
            mode = m.group(1) if m else "seq"
            if mode == "d14":
                run_d14(rig, out, k, 0)
                continue
            if mode in ("d9", "d9b", "d9c"):
                {"d9": run_d9a, "d9b": run_d9b, "d9c": run_d9c}[mode](rig, out, k, 0)
                continue
            if mode == "runkey":
                m2 = re.match(r"case web-(\d+) ", head)
                run_runkey(rig, out, int(m2.group(1)) if m2 else k, 0)
                continue
            rig.ensure()
            rig.stub.reset()
            out.write(head + "\n")
            run = Run(rig, out, "c16" if mode == "c16" else "seq")
            for (jn, method, path, fields) in reqs:
                run.http(jn, method, path, fields)
            run.finish(k)
            if mode == "seq":
                for jn in sorted(run.jars):
                    run.alone(jn)
            out.flush()
    finally:
        rig.close()


def main():
    ap = argparse.ArgumentParser()
    ap.add_argument("cmd", choices=["run", "exec"])
    ap.add_argument("--server-bin", required=True)
    ap.add_argument("--seed", type=int, default=1)
    ap.add_argument("--cases", type=int, default=10)
    ap.add_argument("--mode", default="seq")
    ap.add_argument("--out", default=None)
    ap.add_argument("--scale", type=int, default=1, help="mode conc: multiply the history length (soak)")
    ap.add_argument("--lock", default=os.path.join(os.path.dirname(os.path.dirname(HERE)), "build", ".port8080.lock"))
    args = ap.parse_args()
    args.server_bin = os.path.abspath(args.server_bin)
    if os.environ.get("WEBHARNESS_INNER") != "1":
        # private loopback, so that the fixed port 8080 is ours
        probe = subprocess.run(["unshare", "-n", "true"], stdout=subprocess.DEVNULL, stderr=subprocess.DEVNULL) \
            if shutil.which("unshare") else None
        if probe is not None and probe.returncode == 0:
            env = dict(os.environ, WEBHARNESS_INNER="1", WEBHARNESS_NETNS="1")
            rc = subprocess.run(["unshare", "-n", sys.executable, os.path.abspath(__file__)] + sys.argv[1:], env=env).returncode
            sys.exit(rc)
        os.makedirs(os.path.dirname(args.lock), exist_ok=True)
        lockf = open(args.lock, "w")
        fcntl.flock(lockf, fcntl.LOCK_EX)
    elif os.environ.get("WEBHARNESS_NETNS") == "1":
        subprocess.run(["ip", "link", "set", "lo", "up"], check=True)
    out = open(args.out, "w") if args.out else sys.stdout
    try:
        if args.cmd == "run":
            do_run(args, out)
        else:
            do_exec(args, out)
    finally:
        out.flush()
        if args.out:
            out.close()


if __name__ == "__main__":
    main()
