"""C16 / C17 for the check runner: how `./check C16|C17` drives the web harness (webharness.py), the Lean driver and
the verdict.  Used by tools/checks.py:

    sys.path.insert(0, os.path.join(R.VERIF, "harness", "sysharness")); import webchecks; webchecks.register(PROPS)

and, in checks.replay():   if PROPS[prop].get("replay"): return PROPS[prop]["replay"](prop, data)
"""
import hashlib
import json
import os
import sys
import time

import runner as R


def stat_dict(line):
    d = {}
    for w in line.split(" ")[1:]:
        if "=" in w:
            k, v = w.split("=", 1)
            d[k] = v
    return d


def case_hash(reqs):
    return hashlib.sha1("\n".join(reqs[1:]).encode()).hexdigest()[:16]

WEB_HARNESS = os.path.join(R.VERIF, "harness", "sysharness", "webharness.py")
WEB_PLAN = {
    # property -> tier -> [(mode, cases, extra harness arguments)]
    # measured (server with optimised dependencies): seq 0.17 s/history, c16 0.15 s/history, conc 0.2 s/history, d9 0.3 s
    # runkey: scheduled histories with a task STILL RUNNING while a user whose "<user><sep><problem>" text coincides
    # looks at / solves its own problem (2 cases per separator, `/` first; ~2.5 s per case)
    "C17": {"quick": [("seq", 300, []), ("conc", 40, []), ("d9", 3, []), ("runkey", 4, [])],     # ~70 s + 15 s proof step
            "thorough": [("seq", 6000, []), ("conc", 600, ["--scale", "3"]), ("d9", 6, []), ("runkey", 40, [])]},    # ~27 min
    "C16": {"quick": [("c16", 250, []), ("d9", 3, []), ("d14", 1, [])],                                          # ~40 s + 10 s proof step
            "thorough": [("c16", 4000, []), ("seq", 500, []), ("d9", 6, []), ("d14", 3, [])]},                   # ~12 min
}


def web_build_server():
    """debug build of the server with OPTIMISED DEPENDENCIES in its own target dir (argon2 in an unoptimised build costs
    ~0.2 s per hash and would make a history take 2 s); the workspace crates stay unoptimised, so a source edit in
    /repo rebuilds in seconds. First build ~1.5 min wall (setup.sh should call this once)."""
    tdir = os.path.join(R.TARGET, "repo-web")
    with R.Lock("cargo"):
        rc, out, err = R.run(["cargo", "build", "--offline", "-p", "adf-bdd-server", "--config", 'profile.dev.package."*".opt-level=3'],
                             cwd=R.REPO, env={"CARGO_TARGET_DIR": tdir}, timeout=7200)
    return rc == 0, err[-4000:], os.path.join(tdir, "debug", "adf-bdd-server")


WEB_SERVER = [None]


def web_run(prop, mode, cases, seed, tag="", more=()):
    """-> (mismatches, impl cases, stats, status)"""
    outdir = os.path.join(R.BUILD, "web")
    os.makedirs(outdir, exist_ok=True)
    out = os.path.join(outdir, f"{prop}-{mode}-{seed}{tag}.txt")
    rc, o, e = R.run([sys.executable, WEB_HARNESS, "run", "--server-bin", WEB_SERVER[0], "--seed", str(seed),
                      "--cases", str(cases), "--mode", mode, "--out", out] + list(more), timeout=600 + 4 * cases)
    impl = open(out).read() if os.path.exists(out) else ""
    model, mrc = R.run_driver(impl)
    mism, icases, istats = R.compare(impl, model, None)
    if rc != 0:
        last = icases[-1] if icases else []
        mism.insert(0, R.Mismatch("crash", max(len(icases) - 1, 0), 0, last[-1].req if last else f"webharness --mode {mode}",
                                  f"webharness exit {rc}: {e[-400:]}", "runs to completion", R.case_requests(last)))
    if mrc != 0:
        mism.insert(0, R.Mismatch("struct", 0, 0, "driver", "driver exit %d" % mrc, "", []))
    return mism, icases, istats, impl


def web_extra(prop, tier, seed):
    ok, err, WEB_SERVER[0] = web_build_server()
    if not ok:
        m = R.Mismatch("struct", 0, 0, "build adf-bdd-server", "does not build", "builds", [])
        return dict(corr_mism=[m], evaluations=0, distinct_nontrivial=0, summary="server does not build: " + err[-300:])
    prop_mism, corr_mism, samples = [], [], []
    evaluations = 0
    nontrivial = set()
    dist = {}
    known_d9 = 0
    known_d14 = [0]
    t0 = time.time()
    for mode, cases, more in WEB_PLAN[prop][tier]:
        mism, icases, istats, impl = web_run(prop, mode, cases, seed, more=more)
        evaluations += len(icases)
        for m in mism:
            (prop_mism if m.kind in ("prop", "hang", "crash") else corr_mism).append(m)
        for case, st in zip(icases, istats):
            reqs = R.case_requests(case)
            for line in st:
                d = stat_dict(line)
                for k, v in d.items():
                    key = f"{k}={v}" if not v.isdigit() or int(v) < 10 else f"{k}>=10"
                    dist[f"{mode}:{key}"] = dist.get(f"{mode}:{key}", 0) + 1
                if line.startswith("# known D9") and d.get("reproduced") == "1":
                    known_d9 += 1
                if line.startswith("# known D14") and d.get("reproduced") == "1":
                    known_d14[0] += 1
                # non-trivial: a history in which at least one background task ran (a problem was added and parsed)
                if int(d.get("tasks", "0") or 0) >= 1:
                    nontrivial.add(case_hash(reqs))
        if icases and len(samples) < 2:
            samples.append({"requests": R.case_requests(icases[0])[:12],
                            "impl_answers": [a for r in icases[0][:8] for a in r.ans][:8]})
        R.log(f"web {mode}: cases={len(icases)} records={sum(len(c) for c in icases)} mismatches={len(mism)} ({time.time() - t0:.0f} s)")
    # correspondence broken without a property failure: look harder for a failing input before the verdict
    if corr_mism and not [m for m in prop_mism if not R.match_known(prop, m, R.load_known())]:
        for k in range(1, 4):
            for mode, cases, more in WEB_PLAN[prop][tier]:
                if mode.startswith("d9") or mode in ("d14", "runkey"):
                    continue
                mism, icases, _, _ = web_run(prop, mode, cases * 5, seed * 1000 + 17 * k, tag="-ext", more=more)
                evaluations += len(icases)
                prop_mism += [m for m in mism if m.kind in ("prop", "hang", "crash")]
            if [m for m in prop_mism if not R.match_known(prop, m, R.load_known())]:
                break
    return dict(prop_mism=prop_mism, corr_mism=corr_mism, evaluations=evaluations, distinct_nontrivial=len(nontrivial),
                samples=samples, summary=f"{evaluations} histories, {len(prop_mism)} property / {len(corr_mism)} correspondence differences, "
                                         f"D9 reproduced in {known_d9} scheduled histories, D14 in {known_d14[0]}",
                coverage={"modes": [list(x[:2]) for x in WEB_PLAN[prop][tier]], "distribution": dict(sorted(dist.items())[:80]), "d9_reproduced": known_d9, "d14_reproduced": known_d14[0]})


def web_replay(prop, data):
    """re-executes the recorded request lines against the server built from the current tree"""
    ok, err, WEB_SERVER[0] = web_build_server()
    if not ok:
        print("server build failed:", err)
        return 1
    R.lake_build(["driver"])
    stream = data.get("stream") or (data.get("correspondence") or {}).get("stream")
    if not stream:
        print(json.dumps(data, indent=1))
        return 1
    import subprocess
    p = subprocess.run([sys.executable, WEB_HARNESS, "exec", "--server-bin", WEB_SERVER[0]],
                       input=("\n".join(stream) + "\n").encode(), stdout=subprocess.PIPE)
    impl = p.stdout.decode("utf-8", "replace")
    model, _ = R.run_driver(impl)
    mism, _, _ = R.compare(impl, model, None)
    print("--- implementation stream")
    print(impl)
    print("--- model / specification stream")
    print(model)
    for m in mism:
        print("DIFF " + m.brief())
    return 1 if mism else 0


WEB_TRUSTED = [
    "actix-web / actix-session / actix-identity (signed+encrypted cookie = the account name), argon2 (opaque salted hash: verify(hash s p, p') <-> p = p'), "
    "MongoDB replaced by the in-harness OP_MSG stub (equality filters, $set with dotted paths, replacement, unique index on users.username, first-match update/delete)",
    "the Python system harness (request generation, canonicalisation of responses and of the stub's documents, attribution of database commands to requests)",
]

def register(PROPS):
    PROPS["C17"] = dict(
        level_text="Machine-checked proofs (Lean 4) about a small-step model of all eleven request handlers (every database / running-set command is one step of a handler program; "
                   "ServerModel.lean): every command a request issues carries the identity of its session (C17.step_owner_only, also along every result path: handler_owner_only); "
                   "therefore nobody's problems are changed by anybody else under every interleaving of requests and task events (isolation) and of single commands (isolation_commands); "
                   "responses contain only problems owned by the session's account (resp_owned), unauthenticated requests none (unauth_no_data); login succeeds iff the password is the one "
                   "most recently set, never for temporary accounts (login_iff, temp_cannot_login); stored credentials are hash(salt, password) (stored_is_hash, stored_not_plaintext); "
                   "noninterference_partial (every interleaving; hypothesis: no account name is re-used while an account, problem, running entry, session or unfinished task of its "
               "previous owner exists) with the counterexamples stale_cookie_interferes and late_write_interferes (D9) showing the hypothesis is needed. "
                   "Tie to the code: request histories by 2-3 cookie jars against the REAL server binary (MongoDB stub): sequential histories compared response by response and database by "
                   "database with the model, plus monitors evaluated by the Lean driver on the stub's command log (every adf-problems command carries the issuing session's user name), "
                   "on responses (no foreign problem), on credentials (argon2, salted, never plaintext), on logins (login_iff replayed) and on each jar's alone-run (noninterference); "
                   "concurrent histories (threads) with the monitors only.",
        level_note="Trusted: Lean kernel + {propext, Quot.sound}; the model-to-code tie is differential (generated histories); cookies, argon2, actix and the database are assumptions "
                   "(stubbed / opaque); noninterference is partial: name-uniqueness conflicts and two jars sharing one account are excluded by its hypothesis (gap stated in Props/C17.lean).",
        technique="Lean 4 proof (handler programs, ownership of every command, unwinding) + correspondence check through HTTP + run-time monitors on the database command log",
        jobs=[], extra=web_extra, replay=web_replay, trusted=WEB_TRUSTED,
        rule="request histories of 5-40 requests by 2-3 cookie jars over 3 user names, 2 passwords, 2 problem names, 7 codes (incl. unparseable / panicking), all 11 routes, both parsing strategies, "
             "six strategies, malformed payloads, temporary accounts; sequential (model comparison + monitors), concurrent (monitors), and the scheduled D9 histories (stub holds the final write back); "
             "non-trivial = distinct history in which at least one background task ran",
        assumptions=["identity = the account named in the session cookie (DESIGN section 5); stale-cookie scenarios follow the model and are documented, not violations",
                     "handlers are atomic in the sequential comparison; command-granular races are covered by isolation_commands and the concurrent monitors only"],
    )

    PROPS["C16"] = dict(
        level_text="Machine-checked proofs (Lean 4): STORED ANSWERS - for naive parsing of the submitted text and for any stored table that is well formed with handles denoting the conditions (the hybrid case: "
                   "what the run-time wfCheck / isoCheck / stored-ADF check establish for the adopted table), for EVERY one of the six strategies the solve task of the server model, run on the ADF rebuilt from "
                   "the stored node list, stores - as a multiset of three-valued interpretations - exactly the specification's answer for the conditions of the submitted code (C16.stored_answers_exact, "
                   "stored_answers_exact_any_table, stored_answers_exact_driver_model for the very function the driver runs, stored_answers_definitional against the Prop-level definitions; StableNogood under "
                   "the halting-within-10^6-iterations hypothesis, which holds for every large bound: stored_answers_exact_every_large_bound); composition of C14's rebuild theorem, C09 and the exactness "
                   "theorems of C01-C05. GRAPHS - the DTO builder terminates and shows exactly the nodes reachable from the roots (graph_reachable), its edges are the table's (graph_edges) and walking it "
                   "evaluates the diagram (graph_walk). A parse error is stored and shown as an error and blocks solving (parse_error_reported, error_visible, error_blocks_solve); a task that ended is not "
                   "listed as running (running_cleared, not_listed_after_finish). Tie to the code: generated ADFs (1-6 statements and a wide family of 11-14, both parsing strategies, unparseable and "
                   "panicking codes) are submitted to the REAL server and solved with all six strategies in random order; stored/returned models are compared handle-exactly with the model run on the stored "
                   "node table and judged against the brute-force semantics; every returned graph is checked (node set, edges, labels per statement name, walk) by the Lean driver.",
        level_note="Trusted: Lean kernel + {propext, Classical.choice, Quot.sound}; actix, timeouts, MongoDB (stub) assumed; hybrid parsing's node numbering (biodivine) is adopted from the stored table after the "
                   "run-time checks; KNOWN FINDING D9 (late background write keyed by (name, username)).",
        technique="Lean 4 proof (composition of rebuild + compilation + semantics theorems for the stored answers; graph builder; task life cycle) + correspondence check through HTTP + brute-force specification + graph checker",
        jobs=[], extra=web_extra, replay=web_replay, trusted=WEB_TRUSTED,
        rule="one problem per history cycling through 16 families (random formulas, attack cycles, self-support, chains, missing/duplicate ac, undeclared atoms, garbage, whitespace, pre-study instances), "
             "1-6 statements, both parsing strategies alternating; all six strategies in random order with repeated GETs and repeated solves; non-trivial = distinct history with >= 1 completed task",
        assumptions=["quoted labels are outside the generator (D6 for hybrid parsing)", "COMPUTE_TIME timeouts are modelled (timeout event) but not exercised"],
    )
