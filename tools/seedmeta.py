#!/usr/bin/env python3
"""seedmeta.py <id> <prop>=<detection text> ... : records which checks caught a seeded change"""
import json, os, sys
V = os.path.dirname(os.path.dirname(os.path.abspath(__file__)))
p = os.path.join(V, "seeded", sys.argv[1], "meta.json")
m = json.load(open(p))
for a in sys.argv[2:]:
    k, v = a.split("=", 1)
    m["detection"][k] = v
json.dump(m, open(p, "w"), indent=1)
