#!/usr/bin/env python3
"""Runner of the adf-obdd verification checks (see DESIGN.md §2.3).

  ./check Cxx [--tier quick|thorough] [--seed N]      run the check of one property
  ./check Cxx --replay FILE                           re-run a recorded failing case
  ./check setup                                       build everything (MANIFEST.setup_cmd)

Steps of a check: (1) proof obligations: build the property's Lean module, audit axioms;
(2) correspondence: implementation vs algorithmic Lean model (`=` answers);
(3) property oracle: implementation vs executable specification (`~` answers);
(4) verdict with known findings; (5) evidence file.
"""
import fcntl
import hashlib
import json
import os
import re
import subprocess
import sys
import time

VERIF = os.path.dirname(os.path.dirname(os.path.abspath(__file__)))
# the repository under check; a background sweep may point this at a snapshot (VERIF_REPO=$VP_RUN_REPO),
# the registered commands always use /repo itself
REPO = os.environ.get("VERIF_REPO", "/repo")
BUILD = os.path.join(VERIF, "build")
LEAN = os.path.join(VERIF, "lean")
TARGET = os.path.join(BUILD, "target")
DRIVER = os.path.join(LEAN, ".lake", "build", "bin", "driver")
ALLOWED_AXIOMS = {"propext", "Classical.choice", "Quot.sound"}
GUARD = "--cfg adf_obdd_verif"

sys.path.insert(0, os.path.join(VERIF, "tools"))


def log(msg):
    print(msg, flush=True)


class Lock:
    """serialises lake / cargo builds between checks running in parallel"""

    def __init__(self, name):
        os.makedirs(BUILD, exist_ok=True)
        self.path = os.path.join(BUILD, "." + name + ".lock")

    def __enter__(self):
        self.f = open(self.path, "w")
        fcntl.flock(self.f, fcntl.LOCK_EX)

    def __exit__(self, *a):
        fcntl.flock(self.f, fcntl.LOCK_UN)
        self.f.close()


def run(cmd, cwd=None, env=None, timeout=None, stdin=None, input_bytes=None):
    e = dict(os.environ)
    e["CARGO_NET_OFFLINE"] = "true"
    if env:
        e.update(env)
    p = subprocess.run(cmd, cwd=cwd, env=e, stdout=subprocess.PIPE, stderr=subprocess.PIPE,
                       timeout=timeout, stdin=stdin, input=input_bytes)
    return p.returncode, p.stdout.decode("utf-8", "replace"), p.stderr.decode("utf-8", "replace")


# ----------------------------------------------------------------------------------------------
# builds

FEATURE_SETS = {
    # name -> cargo arguments of the harness crate
    "default": [],
    "none": ["--no-default-features"],
    "all": ["--features", "adhoccountmodels"],
}
# default features, but compiled with arithmetic-overflow checks and debug assertions (what `cargo test` and
# debug builds use): overflows that only wrap in release builds panic here
FEATURE_SETS["default-oc"] = []
for _c, _cf in (("off", []), ("paths", ["adhoccounting"]), ("models", ["adhoccountmodels"])):
    for _v in (0, 1):
        for _f in (0, 1):
            fs = list(_cf) + (["variablelist"] if _v else []) + (["frontend"] if _f else [])
            FEATURE_SETS[f"{_c}-v{_v}-f{_f}"] = ["--no-default-features"] + (["--features", ",".join(fs)] if fs else [])


def harness_path(fset="default"):
    return os.path.join(TARGET, "fs-" + fset, "release", "libharness")


def build_harness(fset="default"):
    """rebuilds the harness (and with it /repo/lib from the current working tree)"""
    with Lock("cargo"):
        crate = os.path.join(VERIF, "harness", "libharness")
        if REPO != "/repo":
            # same sources, path dependency redirected to the snapshot
            import shutil
            alt = os.path.join(VERIF, "build", "harness-alt", "libharness")
            shutil.rmtree(alt, ignore_errors=True)
            shutil.copytree(crate, alt, ignore=shutil.ignore_patterns("target"))
            ct = open(os.path.join(alt, "Cargo.toml")).read().replace('"/repo/lib"', '"%s/lib"' % REPO)
            open(os.path.join(alt, "Cargo.toml"), "w").write(ct)
            crate = alt
        lock_src = os.path.join(REPO, "Cargo.lock")
        lock_dst = os.path.join(crate, "Cargo.lock")
        if not os.path.exists(lock_dst):
            import shutil
            shutil.copy(lock_src, lock_dst)
        tdir = os.path.join(TARGET, "fs-" + fset)
        flags = GUARD + (" -C overflow-checks=on -C debug-assertions=on" if fset.endswith("-oc") else "")
        rc, out, err = run(["cargo", "build", "--release", "--offline"] + FEATURE_SETS[fset], cwd=crate,
                           env={"RUSTFLAGS": flags, "CARGO_TARGET_DIR": tdir}, timeout=3600)
        if rc != 0:
            return False, err[-4000:]
        return True, ""


def build_repo_bins():
    """builds adf-bdd and adf-bdd-server from /repo's current working tree into /verif/build"""
    with Lock("cargo"):
        tdir = os.path.join(TARGET, "repo")
        # dev profile (quick rebuilds), but the library and the CLI themselves optimised: a 1024-model run of
        # the unoptimised CLI takes 18 s, too close to the per-request watchdog on a loaded machine
        rc, out, err = run(["cargo", "build", "--offline", "-p", "adf-bdd-bin", "-p", "adf-bdd-server",
                            "--config", "profile.dev.package.adf_bdd.opt-level=2",
                            "--config", "profile.dev.package.adf-bdd-bin.opt-level=2",
                            "--config", 'profile.dev.package."*".opt-level=2'],
                           cwd=REPO, env={"CARGO_TARGET_DIR": tdir}, timeout=7200)
        if rc != 0:
            return False, err[-4000:]
        return True, ""


def repo_bin(name):
    return os.path.join(TARGET, "repo", "debug", name)


def lake_build(targets):
    with Lock("lake"):
        rc, out, err = run(["lake", "build"] + targets, cwd=LEAN, timeout=7200)
        return rc == 0, out + err


# ----------------------------------------------------------------------------------------------
# step 1: proof obligations

def strip_comments(src):
    # nested block comments and line comments
    out = []
    i = 0
    depth = 0
    n = len(src)
    while i < n:
        if src.startswith("/-", i):
            depth += 1
            i += 2
        elif depth > 0 and src.startswith("-/", i):
            depth -= 1
            i += 2
        elif depth > 0:
            if src[i] == "\n":
                out.append("\n")
            i += 1
        elif src.startswith("--", i):
            while i < n and src[i] != "\n":
                i += 1
        else:
            out.append(src[i])
            i += 1
    return "".join(out)


FORBIDDEN = re.compile(r"\b(sorry|admit)\b|^\s*axiom\s|native_decide|bv_decide|implemented_by|\bunsafe\s|maxHeartbeats\s+0|@\[extern", re.M)


def lean_sources():
    res = []
    for root, _, files in os.walk(LEAN):
        if ".lake" in root:
            continue
        for f in files:
            if f.endswith(".lean"):
                res.append(os.path.join(root, f))
    return sorted(res)


def forbidden_scan():
    hits = []
    for p in lean_sources():
        src = strip_comments(open(p).read())
        for m in FORBIDDEN.finditer(src):
            line = src.count("\n", 0, m.start()) + 1
            hits.append(f"{os.path.relpath(p, LEAN)}:{line}: {m.group(0).strip()}")
    return hits


def prop_theorems(prop):
    p = os.path.join(LEAN, "AdfObdd", "Props", prop + ".lean")
    if not os.path.exists(p):
        return []
    src = strip_comments(open(p).read())
    names = []
    ns = []
    for line in src.split("\n"):
        m = re.match(r"\s*namespace\s+(\S+)", line)
        if m:
            ns.append(m.group(1))
            continue
        m = re.match(r"\s*end\s+(\S+)", line)
        if m and ns and ns[-1] == m.group(1):
            ns.pop()
            continue
        m = re.match(r"\s*(?:protected\s+|private\s+)?theorem\s+(\S+)", line)
        if m:
            names.append(".".join(ns + [m.group(1)]))
    return names


def proof_step(prop, thorough=False):
    """returns dict(ok, obligations, discharged, failures, axioms, checker_cmd)"""
    module = f"AdfObdd.Props.{prop}"
    res = {"ok": False, "obligations": 0, "discharged": 0, "failures": [], "axioms": {}, "module": module,
           "checker_cmd": f"cd /verif/lean && lake build {module} driver && lake env lean /verif/build/audit/{prop}.lean   "
                          f"(the audit file is generated by the check: `import {module}` + `#print axioms <T>` for every theorem T of Props/{prop}.lean; "
                          f"plus a scan of all Lean sources for sorry/admit/axiom/native_decide/bv_decide/implemented_by/unsafe/extern/maxHeartbeats 0)"}
    thms = prop_theorems(prop)
    res["obligations"] = len(thms)
    if not thms:
        res["failures"].append(f"{module}: no property theorem found")
        return res
    ok, out = lake_build([module, "driver"])
    if not ok:
        bad = re.findall(r"^error: (.*)$", out, re.M)[:8]
        mods = re.findall(r"^- (\S+)$", out, re.M)
        res["failures"].append("lake build failed: modules " + ", ".join(mods) + "; " + " | ".join(bad))
        res["failed_modules"] = mods
        return res
    hits = forbidden_scan()
    if hits:
        res["failures"].append("forbidden constructs: " + "; ".join(hits[:10]))
    os.makedirs(os.path.join(BUILD, "audit"), exist_ok=True)
    audit = os.path.join(BUILD, "audit", prop + ".lean")
    with open(audit, "w") as f:
        f.write(f"import {module}\n")
        for t in thms:
            f.write(f"#print axioms {t}\n")
    with Lock("lake"):
        rc, out, err = run(["lake", "env", "lean", audit], cwd=LEAN, timeout=3600)
    text = out + err
    # "'name' depends on axioms: [a, b]"  or "'name' does not depend on any axioms"
    found = {}
    for m in re.finditer(r"'([^\n]+?)' depends on axioms:\s*\[([^\]]*)\]", text, re.S):
        found[m.group(1)] = [a.strip() for a in m.group(2).replace("\n", " ").split(",") if a.strip()]
    for m in re.finditer(r"'([^\n]+?)' does not depend on any axioms", text):
        found[m.group(1)] = []
    discharged = 0
    for t in thms:
        if t not in found:
            res["failures"].append(f"{t}: no axiom report (does it exist?)")
            continue
        extra = [a for a in found[t] if a not in ALLOWED_AXIOMS]
        if extra:
            res["failures"].append(f"{t}: depends on {extra}")
        else:
            discharged += 1
    res["axioms"] = found
    res["discharged"] = discharged
    if thorough:
        with Lock("lake"):
            rc, out, err = run(["lake", "env", "leanchecker", module], cwd=LEAN, timeout=7200)
        res["leanchecker_rc"] = rc
        res["checker_cmd"] += f" && lake env leanchecker {module}"
        if rc != 0:
            res["failures"].append("leanchecker rejected " + module + ": " + (out + err)[-500:])
    res["ok"] = not res["failures"] and discharged == len(thms)
    return res


# ----------------------------------------------------------------------------------------------
# steps 2+3: streams

class Record:
    __slots__ = ("req", "ans")

    def __init__(self, req):
        self.req = req
        self.ans = []


def parse_stream(text):
    """-> (cases: list of list of Record, stats: list of '# ...' lines per case)"""
    cases = []
    stats = []
    cur = None
    curstats = None
    pre = []
    for line in text.split("\n"):
        line = line.rstrip("\r")
        if not line:
            continue
        if line.startswith("#"):
            if curstats is not None:
                curstats.append(line)
            continue
        if line.startswith("features"):
            pre.append(line)
            continue
        if line.startswith("case "):
            cur = [Record(line)]
            curstats = []
            cases.append(cur)
            stats.append(curstats)
            continue
        if cur is None:
            cur = [Record("case implicit")]
            curstats = []
            cases.append(cur)
            stats.append(curstats)
        if line[0] in "=~":
            cur[-1].ans.append(line)
        else:
            cur.append(Record(line))
    return cases, stats, pre


def exec_env():
    e = dict(os.environ)
    e["ADF_BDD_BIN"] = repo_bin("adf-bdd")
    e["VERIF_TMP"] = os.path.join(BUILD, "tmp")
    return e


def run_exec(harness, requests_text, timeout):
    """runs the implementation on request lines; returns (text, status)"""
    try:
        p = subprocess.run([harness, "exec"], input=requests_text.encode(), stdout=subprocess.PIPE,
                           stderr=subprocess.PIPE, timeout=timeout, env=exec_env())
        status = "ok" if p.returncode == 0 else ("timeout" if p.returncode == 124 else f"exit {p.returncode}")
        return p.stdout.decode("utf-8", "replace"), status
    except subprocess.TimeoutExpired as e:
        out = e.stdout.decode("utf-8", "replace") if e.stdout else ""
        return out, "timeout"


def run_driver(impl_text, timeout=3600):
    p = subprocess.run([DRIVER], input=impl_text.encode(), stdout=subprocess.PIPE, stderr=subprocess.PIPE,
                       timeout=timeout)
    return p.stdout.decode("utf-8", "replace"), p.returncode


class Mismatch:
    def __init__(self, kind, case_idx, rec_idx, req, impl, model, case_reqs):
        self.kind = kind  # 'corr' | 'prop' | 'struct' | 'hang' | 'crash'
        self.case_idx = case_idx
        self.rec_idx = rec_idx
        self.req = req
        self.impl = impl
        self.model = model
        self.case_reqs = case_reqs

    def brief(self):
        return f"[{self.kind}] {self.req[:160]} | impl: {str(self.impl)[:160]} | model: {str(self.model)[:160]}"


REGENERATED = ("cubecheck", "dump", "wfcheck", "classes", "memocheck", "alltt", "isocheck", "tabcheck", "pmemocheck", "nogoodcheck", "adopt", "presented", "ordercheck", "clirun", "clicheck", "memocheckn", "taskdone", "taskfin", "dbcheck", "isolation", "logins", "alone", "alone!", "result", "graphcheck", "runcheck", "stored")


def case_requests(case):
    """the request lines a generator would have produced (regenerated requests dropped)"""
    return [r.req for r in case if r.req.split(" ")[0] not in REGENERATED]


def compare(impl_text, model_text, relevant=None):
    """relevant: predicate on the request line deciding whether a differing answer counts"""
    ic, istats, _ = parse_stream(impl_text)
    mc, _, _ = parse_stream(model_text)
    mism = []
    for k, icase in enumerate(ic):
        reqs = case_requests(icase)
        if k >= len(mc):
            mism.append(Mismatch("struct", k, 0, icase[0].req, "case present", "case missing", reqs))
            continue
        mcase = mc[k]
        for j, ir in enumerate(icase):
            if j >= len(mcase):
                mism.append(Mismatch("struct", k, j, ir.req, "record present", "record missing", reqs))
                break
            mr = mcase[j]
            if ir.req != mr.req:
                mism.append(Mismatch("struct", k, j, ir.req, ir.req, mr.req, reqs))
                break
            if relevant and not relevant(ir.req):
                continue
            ia = [a for a in ir.ans]
            ma = [a for a in mr.ans]
            for tag, kind in (("=", "corr"), ("~", "prop")):
                x = [a for a in ia if a.startswith(tag)]
                y = [a for a in ma if a.startswith(tag)]
                if x != y:
                    mism.append(Mismatch(kind, k, j, ir.req, x, y, reqs))
    return mism, ic, istats


# ----------------------------------------------------------------------------------------------
# known findings

def load_known():
    p = os.path.join(VERIF, "known_findings.json")
    if not os.path.exists(p):
        return {"findings": [], "fixed": []}
    return json.load(open(p))


def match_known(prop, mm, known):
    for f in known.get("findings", []):
        if f.get("property") != prop:
            continue
        m = f.get("match", {})
        if "kind" in m and m["kind"] != mm.kind:
            continue
        if "request_regex" in m and not re.search(m["request_regex"], mm.req):
            continue
        if "case_regex" in m and not re.search(m["case_regex"], "\n".join(mm.case_reqs)):
            continue
        if "impl_regex" in m and not re.search(m["impl_regex"], " ".join(mm.impl) if isinstance(mm.impl, list) else str(mm.impl)):
            continue
        return f
    return None


# ----------------------------------------------------------------------------------------------
# shrinking (delta debugging on request lines of one case)

NEUTRAL = {"var": "const 0", "not": "const 0", "and": "const 0", "or": "const 0", "imp": "const 0", "iff": "const 0",
           "xor": "const 0", "restrict": "const 0"}


def still_fails(harness, reqs, kind, relevant, head=None, timeout=20):
    """does the case still fail in the same way (same kind of difference, same kind of request,
    no malformed request introduced by the reduction)?"""
    text = "\n".join(reqs) + "\n"
    impl, status = run_exec(harness, text, timeout)
    if status == "timeout":
        return kind == "hang", None
    model, _ = run_driver(impl)
    mism, _, _ = compare(impl, model, relevant)
    if any("bad-request" in str(m.impl) + str(m.model) or "unknown-request" in str(m.impl) + str(m.model) for m in mism):
        return False, None
    for m in mism:
        if m.kind == kind and (head is None or m.req.split(" ")[0] == head):
            return True, m
    return False, None


def shrink(harness, mm, relevant, budget_s=25):
    reqs = list(mm.case_reqs)
    kind = mm.kind
    t0 = time.time()
    head = mm.req.split(" ")[0]
    ok, cur = still_fails(harness, reqs, kind, relevant, head)
    if not ok:
        return reqs, mm  # not reproducible in isolation (state from earlier cases?) - keep
    best = cur
    # 1. truncate after the failing record
    changed = True
    while changed and time.time() - t0 < budget_s:
        changed = False
        i = len(reqs) - 1
        while i >= 1 and time.time() - t0 < budget_s:
            trial = reqs[:i] + reqs[i + 1:]
            h_i = reqs[i].split(" ")[0]
            ok, m = still_fails(harness, trial, kind, relevant, head)
            if ok:
                reqs = trial
                best = m
                changed = True
            elif h_i in NEUTRAL and reqs[i] != NEUTRAL[h_i]:
                trial = reqs[:i] + [NEUTRAL[h_i]] + reqs[i + 1:]
                ok, m = still_fails(harness, trial, kind, relevant, head)
                if ok:
                    reqs = trial
                    best = m
                    changed = True
            i -= 1
    return reqs, best


# ----------------------------------------------------------------------------------------------
# evidence

def write_evidence(prop, data):
    os.makedirs(os.path.join(VERIF, "evidence"), exist_ok=True)
    p = os.path.join(VERIF, "evidence", prop + ".json")
    with open(p, "w") as f:
        json.dump(data, f, indent=1, sort_keys=True)
        f.write("\n")


def write_replay(prop, seed, n, data):
    d = os.path.join(VERIF, "replays")
    os.makedirs(d, exist_ok=True)
    p = os.path.join(d, f"{prop}-{seed}-{n}.json")
    with open(p, "w") as f:
        json.dump(data, f, indent=1)
        f.write("\n")
    return p


def main():
    import checks
    checks.main(sys.argv[1:])


if __name__ == "__main__":
    main()
