#!/bin/bash
# seedconfirm.sh <worktree> <k> : confirms a seeded change in its scratch worktree:
# builds, existing suite passes with the change, demo fails with it and passes without it.
WT=$1; K=$2
export CARGO_NET_OFFLINE=true CARGO_TARGET_DIR=$WT/target
cd $WT || exit 2
git checkout -q -- . ; git clean -fdq -e _out -e target
git apply _out/patch$K.diff || { echo "APPLY-FAILED"; exit 1; }
if ls _out/demo$K.rs >/dev/null 2>&1; then cp _out/demo$K.rs lib/tests/demo$K.rs; fi
echo "--- suite with change"
cargo nextest run --workspace --no-fail-fast --test-threads 8 --offline -E 'not binary(/demo/)' 2>&1 | grep -E "Summary|FAIL|error" | head -5
echo "--- demo with change"
if [ -f _out/demo$K.rs ]; then cargo test --offline -p adf_bdd --test demo$K $3 2>&1 | grep -E "^test result|panicked|error(\[|:)" | head -5; else bash _out/demo$K.sh 2>&1 | tail -3; echo "rc=$?"; fi
git apply -R _out/patch$K.diff
echo "--- demo without change"
if [ -f _out/demo$K.rs ]; then cargo test --offline -p adf_bdd --test demo$K $3 2>&1 | grep -E "^test result|panicked|error(\[|:)" | head -5; else bash _out/demo$K.sh 2>&1 | tail -3; echo "rc=$?"; fi
git checkout -q -- . ; git clean -fdq -e _out -e target
