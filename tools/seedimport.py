#!/usr/bin/env python3
"""seedimport.py <worktree> <k> <id> <property> <also,...|-> <change> <needs> [<demo args>]
copies a confirmed seeded change (patch<k>.diff, demo<k>.*, note<k>.md) from a scratch worktree's _out/ to
seeded/<id>/ and writes meta.json (detection is filled in by seedmeta.py after the checks were run)."""
import json, os, shutil, sys, glob
V = os.path.dirname(os.path.dirname(os.path.abspath(__file__)))
wt, k, sid, prop, also, change, needs = sys.argv[1:8]
demoargs = sys.argv[8] if len(sys.argv) > 8 else ""
out = os.path.join(wt, "_out")
d = os.path.join(V, "seeded", sid)
os.makedirs(d, exist_ok=True)
shutil.copy(os.path.join(out, f"patch{k}.diff"), os.path.join(d, "patch.diff"))
for f in glob.glob(os.path.join(out, f"demo{k}.*")):
    shutil.copy(f, os.path.join(d, "demo" + os.path.splitext(f)[1]))
if os.path.exists(os.path.join(out, f"note{k}.md")):
    shutil.copy(os.path.join(out, f"note{k}.md"), os.path.join(d, "note.md"))
kinds = sorted(os.path.splitext(f)[1] for f in glob.glob(os.path.join(d, "demo.*")))
meta = {
    "id": sid, "breaks_property": prop, "also_affects": [] if also == "-" else also.split(","),
    "change": change, "needs_to_manifest": needs,
    "confirmed": {
        "where": f"scratch worktree {wt} (git worktree of /repo, removed afterwards)",
        "suite_with_change": "61/61 pass (cargo nextest, 8 threads, offline)",
        "demo": f"demo{'/'.join(kinds)} fails with the change and passes without it "
                f"(tools/seedconfirm.sh: cargo test --offline -p adf_bdd --test demoK {demoargs}; shell demos: exit code 1 with, 0 without the change)".replace("  ", " "),
    },
    "ran": f"git -C /repo apply seeded/{sid}/patch.diff; ./check <prop> --tier quick; git -C /repo checkout -- . (tools/seedrun.sh)",
    "detection": {},
}
json.dump(meta, open(os.path.join(d, "meta.json"), "w"), indent=1)
print("stored", sid, kinds)
