#!/usr/bin/env python3
"""Rewrites the block between the SEEDED-TABLE markers of DESIGN.md from seeded/*/meta.json."""
import json, os, re
V = os.path.dirname(os.path.dirname(os.path.abspath(__file__)))
rows = []
for d in sorted(os.listdir(os.path.join(V, "seeded"))):
    mp = os.path.join(V, "seeded", d, "meta.json")
    if not os.path.exists(mp):
        continue
    m = json.load(open(mp))
    det = "; ".join(f"**{k}**: {v}" for k, v in m["detection"].items())
    rows.append(f"| `{m['id']}` | {m['breaks_property']} | {m['change']} | {m['needs_to_manifest']} | {det} |")
table = ("| id | property | change | needs, to manifest | detection (quick tier unless noted) |\n|---|---|---|---|---|\n" + "\n".join(rows))
p = os.path.join(V, "DESIGN.md")
s = open(p).read()
a = s.index("<!-- SEEDED-TABLE-BEGIN -->")
b = s.index("<!-- SEEDED-TABLE-END -->")
s = s[:a] + "<!-- SEEDED-TABLE-BEGIN -->\n" + table + "\n" + s[b:]
open(p, "w").write(s)
print(len(rows), "rows")
