#!/bin/bash
# seedrun.sh <seeded dir> <prop> [<prop> ...] : applies the seeded change to /repo, runs the quick
# checks, prints their verdict lines, and undoes the change straight afterwards.
D=$(realpath $1); shift
git -C /repo apply $D/patch.diff || { echo "APPLY-FAILED"; exit 1; }
trap 'git -C /repo checkout -- . ; git -C /repo clean -fdq lib bin server' EXIT
for p in "$@"; do
  /verif/check $p 2>&1 | grep -E "^(VIOLATION|KNOWN|== .*: |  property failure|  correspondence|  proof failure)" | cut -c1-330
done
