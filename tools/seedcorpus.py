#!/usr/bin/env python3
"""For every kept seeded change: apply it to /repo, run the quick check(s) that detect it, keep the
shrunk failing input of the first violation as corpus/<prop>/seed-<id>.case (run first on every
later check), undo the change. Usage: tools/seedcorpus.py [id ...]"""
import glob, json, os, subprocess, sys
V = os.path.dirname(os.path.dirname(os.path.abspath(__file__)))
ids = sys.argv[1:] or sorted(os.listdir(os.path.join(V, "seeded")))
for sid in ids:
    d = os.path.join(V, "seeded", sid)
    meta = json.load(open(os.path.join(d, "meta.json")))
    props = [p for p, how in meta["detection"].items() if how.startswith("failing input")]
    props = [p for p in props if p not in ("C16", "C17")]          # web histories are replayed by their own harness
    if not props:
        continue
    if subprocess.call(["git", "-C", "/repo", "apply", os.path.join(d, "patch.diff")]) != 0:
        print(sid, "patch does not apply"); continue
    try:
        for p in props:
            for f in glob.glob(os.path.join(V, "replays", f"{p}-1-*.json")):
                os.remove(f)
            subprocess.run([os.path.join(V, "check"), p], stdout=subprocess.PIPE, stderr=subprocess.STDOUT)
            got = False
            for f in sorted(glob.glob(os.path.join(V, "replays", f"{p}-1-*.json"))):
                r = json.load(open(f))
                if r.get("kind") == "input" and r.get("stream") and len(r["stream"]) <= 60:
                    os.makedirs(os.path.join(V, "corpus", p), exist_ok=True)
                    open(os.path.join(V, "corpus", p, f"seed-{sid}.case"), "w").write("\n".join(r["stream"]) + "\n")
                    got = True
                    break
            print(sid, p, "corpus case written" if got else "no input replay")
    finally:
        subprocess.call(["git", "-C", "/repo", "checkout", "--", "."])
