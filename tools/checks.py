"""Per-property configuration and the generic check procedure (DESIGN.md §2.3)."""
import hashlib
import json
import os
import re
import sys
import time

import runner as R

OPS = ("var", "const", "not", "and", "or", "imp", "iff", "xor", "restrict")


def heads(*hs):
    s = set(hs)
    return lambda req: req.split(" ")[0] in s


class Job:
    def __init__(self, family, quick, thorough, size=0, extra=(), fsets=("default",), fsets_thorough=None,
                 relevant=None, nontrivial=None, timeout=600, label=None, size_thorough=None, needs_bins=False, cap=None, chunk_min=250):
        self.chunk_min = chunk_min  # smallest chunk worth a process of its own (1-2 for expensive cases)
        self.needs_bins = needs_bins
        self.cap = cap  # upper bound of cases per run (expensive cases: the drift / extended-search factors are capped)
        self.family = family
        self.quick = quick
        self.thorough = thorough
        self.size = size
        self.size_thorough = size_thorough if size_thorough is not None else size
        self.extra = list(extra)
        self.fsets = list(fsets)
        self.fsets_thorough = list(fsets_thorough) if fsets_thorough else list(fsets)
        self.relevant = relevant
        self.nontrivial = nontrivial or (lambda st: True)
        self.timeout = timeout
        self.label = label or family


def stat_dict(line):
    d = {}
    for w in line.split(" ")[1:]:
        if "=" in w:
            k, v = w.split("=", 1)
            d[k] = v
    return d


def nt_bdd(st):
    return int(st.get("nodes", 0)) >= 3


TRUSTED_COMMON = [
    "Lean 4.33.0 kernel; axioms per theorem as reported by #print axioms, all within {propext, Classical.choice, Quot.sound}",
    "Lean compiler/runtime executing the model definitions in the driver (Std.HashMap implementation w.r.t. its verified lemmas)",
    "correspondence check: Rust harness (generators, canonicalisation), line protocol, runner diff - differential testing bounded by the generators",
    "rustc/cargo; usize modelled as Nat (no overflow), HashMap/HashSet/RoaringBitmap modelled as abstract maps/sets",
]

PROPS = {}
ALL12 = [f"{c}-v{v}-f{f}" for c in ("off", "paths", "models") for v in (0, 1) for f in (0, 1)]

PROPS["C06"] = dict(
    level_text="Machine-checked proof (Lean 4) that every sequence of diagram-building operations from the fresh store - and the node-list rebuild and the bridge replay from any "
               "well-formed store - keeps the node table reduced, ordered and duplicate free, that on such a table two handles are equal iff they denote the same Boolean "
               "function, and that a formula gets the top/bottom handle iff it is valid/unsatisfiable (C06.table_wf_reachable, same_handle_iff_same_function, const_iff, "
               "rebuild_same_table, bridge_wf). The model is the efficient store with unique table and both memo tables; it is tied to the code by a correspondence run "
               "(handles and complete node tables identical) and by a VERIFIED CHECKER (wfCheck, C06.checker_sound / checked_table_canonical) that is executed on the real "
               "dumped node table of every explored sequence, so canonicity is established for those real tables, not only for the model.",
    level_note="Trusted: Lean kernel + axioms {propext, Classical.choice, Quot.sound}; the hand-written model's tie to obdd.rs is differential (generated operation sequences, <= 7 variables); "
               "usize as Nat; HashMap as abstract map; calling the public Bdd::node with unordered children is a stated precondition.",
    technique="Lean 4 proof (invariant by induction over operation sequences, canonicity by strong induction) + correspondence check + verified table checker on real dumps",
    jobs=[Job("bdd", 1500, 60000, size=6, size_thorough=7,
              relevant=heads(*OPS, "dump", "wfcheck", "classes", "alltt"), nontrivial=nt_bdd),
          Job("persist", 400, 10000, size=5, size_thorough=6, fsets=("default", "none"), relevant=heads("pop", "pjson", "prebuild", "prebuildstream", "pfinish", "wfcheck"),
              nontrivial=lambda st: int(st.get("trips", 0)) >= 1 and int(st.get("nodes", 0)) >= 3, label="reimport"),
          Job("adf", 300, 10000, size=6, extra=("sem",), relevant=heads("adopt", "adump", "wfcheck"), nontrivial=lambda st: int(st.get("nodes", 0)) >= 5, label="bridge"),
          Job("bdd", 4, 60, size=17, size_thorough=18, extra=("big",), relevant=heads(*OPS, "alltt", "dump", "wfcheck"),
              nontrivial=lambda st: int(st.get("memo", 0)) > 65536, label="huge-stores", timeout=1800, cap=28, chunk_min=1),
          Job("bdd", 1, 1, size=22, size_thorough=23, extra=("exh",), relevant=heads(*OPS, "dump", "wfcheck", "classes", "alltt"),
              nontrivial=lambda st: True, label="exhaustive-2-variables", timeout=1800),
          Job("bdd", 0, 1, size=33, extra=("exh",), relevant=heads(*OPS, "dump", "wfcheck", "classes", "alltt"),
              nontrivial=lambda st: True, label="exhaustive-3-variables", timeout=3600),
          Job("bdd", 300, 8000, extra=("sparse",), relevant=heads(*OPS, "dump", "wfcheck", "alltt"), nontrivial=nt_bdd, label="sparse-variable-indices")],
    rule="SPARSE variable indices (2-7 variables with indices around 32, 64, 128, 256, 65 536, 2^31 and 2^32, created in random order; complete truth-table oracle); "
         "EXHAUSTIVE small scope (every sequence of 2 (thorough: 3) operations over 2 variables and, thorough, of 3 operations over 3 variables, operands = any earlier result or terminal); "
         "random operation sequences (3-45 ops over 2-6 variables: var/const/not/and/or/imp/iff/xor/restrict on earlier results) on one shared Bdd; "
         "after each sequence the real node table is dumped and checked by the verified wfCheck, handle equality of ALL issued handles is compared with "
         "truth-table equality, and the table is compared index by index with the model's; non-trivial = distinct sequence creating >= 3 inner nodes",
    assumptions=["Bdd::node called directly with unordered children is outside 'diagram-building operations' (precondition)",
                 "tie to the code explored for <= 7 variables, <= 45 operations per sequence"],
)
PROPS["C07"] = dict(
    level_text="Machine-checked refinement proof (Lean 4): for every operation sequence from any well-formed store with any sound memo contents, each returned handle denotes the "
               "named Boolean function of the operands' functions (restriction = cofactor) and no earlier handle changes its function (C07.op_correct, old_handles_unchanged, "
               "sequence_correct, sequence_correct_from). Tie to the code: the same operation sequences are run on the real Bdd; handles/node tables must equal the model's and the "
               "truth table read off the REAL node table after every operation must equal the specification's truth table computed without diagrams.",
    level_note="Trusted: Lean kernel + standard axioms; model-to-code tie is differential testing over generated sequences (<= 7 variables, <= 45 operations); usize as Nat.",
    technique="Lean 4 proof (refinement of an abstract Boolean-function spec by the memoised ite/restrict store) + correspondence check",
    jobs=[Job("bdd", 1500, 60000, size=6, size_thorough=7, fsets=("default", "none"), fsets_thorough=("default", "none", "all", "off-v1-f0"),
              relevant=heads(*OPS, "alltt", "dump"), nontrivial=nt_bdd),
          Job("bdd", 4, 60, size=17, size_thorough=18, extra=("big",), relevant=heads(*OPS, "alltt", "dump"),
              nontrivial=lambda st: int(st.get("memo", 0)) > 65536, label="huge-stores", timeout=1800, cap=28, chunk_min=1),
          Job("bdd", 1, 1, size=23, extra=("exh",), relevant=heads(*OPS, "alltt", "dump"),
              nontrivial=lambda st: True, label="exhaustive-2-variables", timeout=1800),
          Job("bdd", 0, 1, size=33, extra=("exh",), relevant=heads(*OPS, "alltt", "dump"),
              nontrivial=lambda st: True, label="exhaustive-3-variables", timeout=3600),
          Job("bdd", 300, 8000, extra=("sparse",), relevant=heads(*OPS, "alltt", "dump"), nontrivial=nt_bdd, label="sparse-variable-indices")],
    rule="same sequences as C06; after every operation the truth table obtained by walking the REAL node table from the returned handle is compared with the "
         "specification's truth table (TT layer, independent of diagrams) and the handle with the proved model's handle; at the end every earlier handle is re-evaluated; "
         "non-trivial = distinct sequence creating >= 3 inner nodes",
    assumptions=["tie to the code explored for <= 7 variables"],
)
PROPS["C13"] = dict(
    level_text="Machine-checked proofs (Lean 4) about the models of modelcount_naive / var_dependencies / Bdd::interpretations / the impact measures on the proved store: "
               "models(t)*2^|vs| = #sat*2^depth and the same for counter-models, cmodels + models = 2^depth (C13.models_exact_ratio, cmodels_exact_ratio, counts_total); path counts = numbers of "
               "root-to-bottom / root-to-top paths of the unfolding, none twice (paths_exact); depth = length of a longest path (depth_exact); dependency set = essential variables "
               "(deps_are_essential), impact measures count exactly those (passive_counts_dependents, active_counts_dependencies); path cubes sound / covering where the goal variable has the goal "
               "value / pairwise disjoint, none for terminals (cubes_*); more_models iff models >= counter-models (repaired D4); and the executable truth-table specification means what it says "
               "(counts_vs_truth_table: TT.sat / TT.unsat / TT.deps of a truth table representing the diagram's function). Memoised = naive wherever documented is C12's theorem. "
               "Tie to the code: every issued handle of generated operation sequences is queried on the real Bdd (paths naive+memo, models naive+memo, depth, dependencies, impacts, cubes) and "
               "compared with the model's answers and with the truth-table specification.",
    level_note="Trusted: Lean kernel + standard axioms (Counts.lean imports Mathlib.Tactic.Ring for arithmetic); usize modelled as Nat: exact in the code up to 64 levels (checked by the deep-diagrams job), beyond that the KNOWN FINDING D13 (counts do not fit a machine word); TT.depth / TT.paths (canonical-diagram "
               "measures computed from the function) are executable specification without a linking theorem; correspondence is differential over generated sequences (<= 7 variables).",
    technique="Lean 4 proof (induction on the diagram, Shannon counting, path enumeration) + correspondence check against model and truth-table specification",
    jobs=[Job("bdd", 1000, 6000, size=6, size_thorough=7, fsets=("default", "none", "all"), fsets_thorough=ALL12,
              relevant=heads("q", "cubes", "cubecheck", "impact"), nontrivial=nt_bdd),
          Job("bdd", 40, 600, size=64, extra=("deepcount",), fsets=("default", "none"), relevant=heads("qdeep"), nontrivial=lambda st: True, label="deep-diagrams"),
          Job("bdd", 200, 5000, extra=("sparse",), fsets=("default", "none"), relevant=heads("q"), nontrivial=nt_bdd, label="sparse-variable-indices"),
          Job("persist", 400, 10000, size=5, size_thorough=6, relevant=heads("pq", "pmemocheck"),
              nontrivial=lambda st: int(st.get("trips", 0)) >= 1 and int(st.get("nodes", 0)) >= 3, label="after-import")],
    rule="operation sequences as for C06; for EVERY issued handle: paths/models (naive and memoised), depth, dependencies, more_models; path cubes for random (goal, goal variable); "
         "impact measures on random handle lists; each answer compared with the Lean model (exact) and with the truth-table specification; non-trivial = distinct sequence with >= 3 inner nodes",
    assumptions=["depth <= 63 (usize arithmetic) for the tie", "terminal diagrams have no cube (reading fixed in DESIGN.md section 5)"],
)


def nt_adf(st):
    return int(st.get("n", 0)) >= 2 and int(st.get("nodes", 0)) >= 5


SEM_RULE = ("WIDE frameworks (65-90 statements, thorough up to 130: a small undecided core at random positions - also beyond index 63 - plus dependents, everything else decided by "
            "grounding in layers; the oracle beyond truth-table size is the VERIFIED model run on a fresh store, whose exactness for every n is the theorem of the property); "
            "generated ADFs (1-6 statements, quick; up to 7 thorough): 60% random formulas over all nine constructors (depth 1-4), 40% adversarial families "
            "(propagation chains needing n grounding rounds, self-support, odd/even attack cycles, false-before-true dependencies, conditions constant only under grounding, "
            "all-decided, xor/iff webs, conjunctive supports) plus the two pre-study instances; each ADF is parsed by the real parser from generated text and run on the native, "
            "biodivine, hybrid and pre-grounded hybrid back-ends in random request order; native-store pipelines are compared handle for handle (vectors, residuals, node table) with the "
            "Lean model, bridged stores are adopted after wfCheck + isoCheck (verified validators); every answer is compared as canonical T/F/u strings with the brute-force "
            "specification Spec (enumeration of completions); non-trivial = distinct ADF with >= 2 statements and >= 5 diagram nodes")

PROPS["C01"] = dict(
    level_text="Machine-checked proof (Lean 4): the grounding loop, written once over a lawful restriction algebra, returns a fixpoint of the three-valued consequence operator that lies below "
               "every fixpoint, within n+1 rounds (C01.grounded_is_lfp_any_backend); instantiated for the efficient native store (grounded_native_is_lfp) and end to end from the written "
               "formulas through from_parser (grounded_native_from_formulas); least fixpoints are unique (grounded_unique); pre-grounding leaves the least fixpoint unchanged "
               "(pregrounded_same_lfp); the bridge yields handles with the dump's functions (hybrid_bridge_then_native). Tie to the code: grounded on all four pipelines for generated "
               "ADFs, handle-exact against the model on native-store pipelines, and against the brute-force specification on all.",
    level_note="Trusted: Lean kernel + standard axioms; biodivine is an external library modelled as a lawful restriction algebra on Boolean functions (its dumps are validated by wfCheck/isoCheck on every "
               "explored ADF, its algorithms are not verified); the executable specification Spec is not yet proved equal to the Prop-level Gam (both are compared with the implementation); "
               "correspondence is differential (n <= 7).",
    technique="Lean 4 proof (least-fixpoint argument over a generic restriction algebra, instantiated with the verified BDD store) + correspondence check + brute-force specification oracle",
    jobs=[Job("adf", 1200, 40000, size=6, size_thorough=7, extra=("sem",),
              relevant=heads("build", "adopt", "grounded", "adump", "wfcheck"), nontrivial=nt_adf),
          Job("adf", 0, 1, size=2, extra=("exh2",), relevant=heads("build", "adopt", "grounded", "adump", "wfcheck"), nontrivial=lambda st: True, label="exhaustive-2-statements"),
          Job("adf", 120, 4000, size=90, size_thorough=130, extra=("wide",), relevant=heads("build", "adopt", "grounded", "adump", "wfcheck"), nontrivial=lambda st: int(st.get("n", 0)) >= 65, label="wide"),
          Job("adf", 16, 300, size=300, size_thorough=340, extra=("wider",), relevant=heads("build", "adopt", "grounded", "adump", "wfcheck"), nontrivial=lambda st: int(st.get("n", 0)) >= 257,
              label="wider-than-a-byte", chunk_min=2, cap=64)],
    rule=SEM_RULE,
    assumptions=["well-formed ADFs (every statement declared with exactly one ac, atoms declared); <= 2^16 statements for biodivine"],
)
PROPS["C02"] = dict(
    level_text="Machine-checked proof (Lean 4) for the CONCRETE enumeration completeAll (the function the driver runs handle for handle against Adf::complete): for every well-formed store and valid "
               "conditions, the listed interpretations are Nodup, a three-valued w is listed iff it has the right length and is a fixpoint of the consequence operator, and the first one is the "
               "grounded interpretation (C02.complete_exact; the loop keeps the store well formed: complete_store); the SAME three facts for the biodivine back-end's own enumeration (model of "
               "adfbiodivine.rs over any library that represents Boolean functions faithfully: C02.biodivine_complete_exact, with the ideal-function and the truth-table instance) and, from the TEXT of "
               "a file with facts in any order, for from_parser followed by the enumeration (C01.complete_stable_from_text). Ingredients: the short-circuiting store-threading filter accepts a vector iff its "
               "decided part is a fixpoint, for every lawful back-end (filter_iff_fixpoint); the three-valued iterator enumerates every refinement once, grounded first (C20); the grounded "
               "interpretation lies below every fixpoint (grounded_below_every_complete); pre-grounding preserves the complete interpretations (pregrounded_same_complete). Tie to the code: complete "
               "models on native / biodivine / hybrid / pre-grounded pipelines, order-exact and handle-exact against the model, multiset + first element against the brute-force specification "
               "(which is itself proved equal to the Prop-level semantics: SpecSound.completeAll_spec).",
    level_note="Trusted: Lean kernel + standard axioms; the external crate biodivine_lib_bdd is ASSUMED to represent Boolean functions faithfully (structure Bio.Lawful: every operation computes what its name says, is_true/is_false exact, "
               "sat_valuations enumerates each satisfying valuation once); adfbiodivine.rs's own logic is modelled and proved; its answers are compared, in order, with that model run on truth tables "
               "and with the specification; correspondence differential (n <= 7).",
    technique="Lean 4 proof (filter = fixpoint test; iterator theorem; least-fixpoint lower bound) + handle-exact correspondence + verified brute-force specification",
    jobs=[Job("adf", 1200, 40000, size=6, size_thorough=7, extra=("sem",),
              relevant=heads("build", "adopt", "complete", "adump", "wfcheck"), nontrivial=nt_adf),
          Job("adf", 0, 1, size=2, extra=("exh2",), relevant=heads("build", "adopt", "complete", "adump", "wfcheck"), nontrivial=lambda st: True, label="exhaustive-2-statements"),
          Job("adf", 120, 4000, size=90, size_thorough=130, extra=("wide",), relevant=heads("build", "adopt", "complete", "adump", "wfcheck"), nontrivial=lambda st: int(st.get("n", 0)) >= 65, label="wide"),
          Job("adf", 60, 1500, size=90, size_thorough=130, extra=("wideund",), fsets=("default-oc",), relevant=heads("build", "adopt", "grounded", "completefirst", "adump", "wfcheck"),
              nontrivial=lambda st: int(st.get("n", 0)) >= 41, label="many-undecided-overflow-checks")],
    rule=SEM_RULE,
    assumptions=["well-formed ADFs"],
)
PROPS["C03"] = dict(
    level_text="Machine-checked proof (Lean 4) for the CONCRETE enumerations stableAll and the pre-filter variant (what the driver runs against Adf::stable / stable_with_prefilter): the listed "
               "interpretations are Nodup and v is listed iff it is a total fixpoint whose true statements are true in the least fixpoint of the reduct (C03.stable_exact, stablepre_exact); both variants "
               "emit the same list in the same order, so the pre-filter rejects no stable model (stablepre_same_answers); mapFalse denotes the reduct (mapFalse_is_reduct) and the code's test on one "
               "total candidate decides the definition from any well-formed store (test_decides_stability, check_iff_stable); pre-grounding preserves the least fixpoints of all reducts above the "
               "grounded interpretation (pregrounded_same_reduct_lfp). The biodivine back-end's stable(), its stable_bdd_representation with the on-demand and with the prepared rewriting, and the native "
               "stable_bdd_representation(bio) are modelled over any faithful Boolean-function library and proved exact too (biodivine_stable_exact, biodivine_rewriting_on_demand_exact, "
               "biodivine_rewriting_prepared_exact, native_rewriting_exact, rewritings_same_function); outside well-formed ADFs the prepared rewriting differs: on a file with TWO conditions for one "
               "statement it conjoins both equivalences while from_parser keeps the last (prepared_rewriting_duplicate_counterexample, reproduced with the real binary). Tie to the code: stable, stable_with_prefilter, both stable_bdd_representation variants and the biodivine variants incl. the "
               "rewriting prepared at construction, on all pipelines and under permuted fact orders / sortings; handle/order exact where the order is the library's own, multisets where biodivine "
               "orders the candidates; all against the brute-force specification (proved: SpecSound.stable_spec).",
    level_note="Trusted: Lean kernel + standard axioms; the external crate biodivine_lib_bdd is assumed faithful (Bio.Lawful, incl. sat_valuations enumerating each satisfying valuation exactly once; observed by the runs); the candidate "
               "ORDER of the rewriting variants is the library's, so they are compared as sets; correspondence differential (n <= 7).",
    technique="Lean 4 proof (reduct / least-fixpoint characterisation of the stability test, iterator theorem) + handle-exact correspondence + verified brute-force specification",
    jobs=[Job("adf", 1200, 40000, size=6, size_thorough=7, extra=("sem",),
              relevant=heads("build", "adopt", "stable", "stablepre", "stablerew", "stablerew2", "adump", "wfcheck"), nontrivial=nt_adf),
          Job("adf", 0, 1, size=2, extra=("exh2",), relevant=heads("build", "adopt", "stable", "stablepre", "stablerew", "stablerew2", "adump", "wfcheck"), nontrivial=lambda st: True, label="exhaustive-2-statements"),
          Job("adf", 200, 8000, size=5, size_thorough=6, extra=("present",), relevant=heads("present", "presented"), nontrivial=nt_adf, label="adf-orders"),
          Job("adf", 120, 4000, size=90, size_thorough=130, extra=("wide",), relevant=heads("build", "adopt", "stable", "stablepre", "adump", "wfcheck"), nontrivial=lambda st: int(st.get("n", 0)) >= 65, label="wide"),
          Job("adf", 40, 1200, size=0, extra=("deepund",), relevant=heads("build", "adopt", "stable", "stablepre", "adump", "wfcheck"), nontrivial=lambda st: int(st.get("n", 0)) >= 10,
              label="deep-undecided", chunk_min=3, timeout=900)],
    rule=SEM_RULE,
    assumptions=["well-formed ADFs"],
)

ADF_GEN = ("generated ADFs (1-6 statements quick, up to 7 thorough; 60% random formulas over all nine constructors, 40% adversarial families, plus the pre-study instances), "
           "parsed by the real parser from generated text; ")

PROPS["C04"] = dict(
    level_text="Machine-checked proof (Lean 4) for the CONCRETE executable model of two_val_model_counts_logic as repaired by D1 (the function the driver runs handle for handle against the code; "
               "fuel-based, an instance of the generic store-threading search machine GK.search): for every well-formed store and valid conditions and BOTH heuristics, countAll returns a Nodup "
               "list whose decided parts are exactly the stable models of the conditions' functions (C04.count_search_exact; end to end from written formulas: count_search_end_to_end). The proof "
               "discharges all step laws of the generic machine for the concrete steps (concrete_steps_lawful: cube step with one propagation step and check_consistency, the 'conclude the other "
               "value' step, will_be bookkeeping, leaf) under the invariant established by the grounded start (start_invariant, count_logic_spec), uses C13's cube theorems (cube_laws) and C03's "
               "characterisation of the final stability filter. The generic theorem holds for every selection strategy (search_exact). The unrepaired variant loses the only stable model of a "
               "four-statement witness (replayed by #guard). Tie to the code: emitted vectors in order and node tables on native, hybrid and pre-grounded objects vs the model; multisets vs the "
               "brute-force specification.",
    level_note="Trusted: Lean kernel + standard axioms; the model's tie to adf.rs is differential (n <= 7); cube variables beyond the number of statements are out of scope (the code would panic); "
               "the D1 replay is a #guard evaluation, not a kernel-checked lemma (Std.HashMap does not reduce in the kernel).",
    technique="Lean 4 proof (generic branching-search machine instantiated with the concrete steps; invariants WF + model-relative residuals + will_be) + handle-exact correspondence + brute-force specification oracle",
    jobs=[Job("adf", 1500, 60000, size=6, size_thorough=7, extra=("count",),
              relevant=heads("build", "adopt", "stmca", "stmcb", "adump", "wfcheck"), nontrivial=nt_adf),
          Job("adf", 0, 1, size=2, extra=("exh2",), relevant=heads("build", "adopt", "stmca", "stmcb", "adump", "wfcheck"), nontrivial=lambda st: True, label="exhaustive-2-statements"),
          Job("adf", 120, 4000, size=90, size_thorough=130, extra=("wide",), relevant=heads("build", "adopt", "stmca", "stmcb", "adump", "wfcheck"), nontrivial=lambda st: int(st.get("n", 0)) >= 65, label="wide"),
          Job("adf", 250, 8000, size=0, extra=("many",), relevant=heads("build", "adopt", "stmca", "stmcb", "adump", "wfcheck"), nontrivial=lambda st: int(st.get("n", 0)) >= 8,
              label="many-candidates", chunk_min=20)],
    rule=ADF_GEN + "stable_count_optimisation_heu_a/b on native, hybrid and pre-grounded hybrid objects in both call orders; emitted vectors (in order) and node tables compared with the Lean model, "
         "the multiset of answers with Spec.stableAll; non-trivial = distinct ADF with >= 2 statements and >= 5 nodes",
    assumptions=["well-formed ADFs"],
)
PROPS["C05"] = dict(
    level_text="Machine-checked proof (Lean 4) for the CONCRETE executable model of nogood_internal (SM.ngIter / ngRun / ngSearch: the loop the driver runs handle for handle against the code, with the "
               "repaired bucketed nogood store): for every heuristic of the model (Simple, both counting heuristics, the scripted shape of Rand / custom heuristics under every seed), every "
               "well-formed store and every valid vector of conditions there is a fuel within which the loop HALTS and the emitted interpretations are, without repetition, EXACTLY the stable models "
               "(two-valued mode: exactly the two-valued models) of the conditions' functions (C05.ng_search_exact, ng_search_exact_stable; from written formulas: ng_search_exact_from_formulas); "
               "the same for ANY heuristic function that always proposes an undecided statement with a truth value (ng_search_exact_any_heuristic: arbitrary custom closures). Route: the abstract "
               "machine generalised over vector and store types with laws relativised to shape invariants (generic_exact_if_halts, generic_terminates), instantiated with the concrete closure and the "
               "concrete semantics so that no free parameter is left but the raw heuristic answers (semantic_laws_sound / _live, semantic_machine_exact / _halts), and a LOCK-STEP simulation between "
               "one concrete iteration and one abstract iteration (concrete_iteration_is_abstract_iteration; on denotations the code's handle comparison is the machine's test, by canonicity). "
               "Two-valued mode needs the side condition that conditions mention statements of the framework only (false otherwise, counterexample by #guard; a property of every parsed text). "
               "Tie to the code: emitted vectors in order, the interpretations shown to scripted custom heuristics, node tables; all answers vs the brute-force specification; Rand runs under several "
               "seeds with a watchdog (a hang is a failing input); the channel variants must end the consumer loop (sender dropped); a 1024-model framework exercises the iterator entry point.",
    level_note="Trusted: Lean kernel + standard axioms; Rand's generator (StdRng) is not modelled - its shape (any undecided statement, any value) is covered by the any-heuristic theorem, its runs are judged by the "
               "specification and the watchdog; sender drop is Rust ownership, observed; the model's tie to adf.rs is differential (n <= 7, plus one large many-model framework).",
    technique="Lean 4 proof (safety invariant + well-founded big-step termination on a generic machine, closure laws of the concrete store, lock-step simulation to the concrete loop) + handle-exact correspondence incl. heuristic traces + specification oracle + hang watchdog",
    jobs=[Job("adf", 700, 30000, size=6, size_thorough=7, extra=("ng",), timeout=300,
              relevant=heads("build", "adopt", "ng", "ngch", "ngbig", "adump", "wfcheck"), nontrivial=nt_adf),
          Job("adf", 0, 1, size=2, extra=("exh2",), relevant=heads("build", "adopt", "ng", "adump", "wfcheck"), nontrivial=lambda st: True, label="exhaustive-2-statements", timeout=300),
          Job("adf", 120, 4000, size=90, size_thorough=130, extra=("wide",), relevant=heads("build", "adopt", "ng", "adump", "wfcheck"), nontrivial=lambda st: int(st.get("n", 0)) >= 65, label="wide", timeout=600),
          Job("adf", 120, 4000, size=0, extra=("many",), relevant=heads("build", "adopt", "ng", "adump", "wfcheck"), nontrivial=lambda st: int(st.get("n", 0)) >= 8,
              label="many-models", chunk_min=20, timeout=600),
          Job("adf", 4, 200, size=62, extra=("parity",), fsets=("default-oc", "default"), relevant=heads("ngparity"), nontrivial=lambda st: True,
              label="parity-path-counts-near-the-word-size", chunk_min=1, cap=40, timeout=900)],
    rule=ADF_GEN + "stable_nogood / two_val_nogood_channel / stable_nogood_channel with Simple, both counting heuristics, 4 scripted custom heuristics (PRNG-chosen undecided statement and value per call, "
         "trace logged) and 3 Rand seeds per ADF, on native and bridged objects; outputs in order + traces + node tables vs the Lean model, multisets vs Spec; non-trivial = distinct ADF with >= 2 statements and >= 5 nodes",
    assumptions=["well-formed ADFs; custom heuristics always propose an undecided statement with a truth value"],
)
PROPS["C09"] = dict(
    level_text="Machine-checked proof (Lean 4): native compilation preserves the Boolean function of a formula of any size (C09.compile_one) and of the whole framework as from_parser builds it "
               "(from_parser_correct: conditions in declaration order; from_parser_any_order_correct / from_parser_any_fact_order: the real placement by formula_order for facts in ANY order, labels "
               "resolved through the dict, a missing condition is bottom, the last of several wins, and it panics exactly on an undeclared label or atom: from_parser_panics_exactly, "
               "from_parser_zero_or_several; from the TEXT: C01.grounded_from_text); the bridge replay of an ordered dump through node yields handles with the dump's functions in any well-formed store (bridge_preserves); the pre-grounded "
               "function is the condition with the grounded values substituted (hybrid_import_function, biodivine_residual_is_pregrounded: theorems about the model of hybrid_step_opt). VERIFIED VALIDATOR: isoCheck (validator_sound) is executed on every explored real store: "
               "after wfCheck of the dumped table, every statement's handle in the bridged / pre-grounded store is compared with the model's natively compiled handle (resp. grounded residual) "
               "without truth tables - so each compiled ADF is validated individually, also for 24-48 statements with deep formulas. Native stores are compared handle for handle with the model.",
    level_note="Trusted: Lean kernel + standard axioms; biodivine's own compilation is outside (its dump is validated, not its algorithm); the driver's placement of permuted facts is the proved FromParser.placeCompile; correspondence differential.",
    technique="Lean 4 proof (induction on formulas; dump replay invariant) + translation validation with a verified validator on every explored store + handle-exact correspondence",
    jobs=[Job("adf", 40, 1000, size=48, extra=("large",), relevant=heads("build", "adopt", "adump", "wfcheck"),
              nontrivial=lambda st: int(st.get("n", 0)) >= 20 and int(st.get("nodes", 0)) >= 50, label="adf-large"),
          Job("adf", 800, 30000, size=6, size_thorough=7, extra=("sem",), relevant=heads("build", "adopt", "adump", "wfcheck"), nontrivial=nt_adf, label="adf-small"),
          Job("adf", 150, 5000, size=6, extra=("present",), relevant=heads("presented"), nontrivial=nt_adf, label="adf-orders"),
          Job("adf", 6, 60, size=2, extra=("deep",), needs_bins=True, relevant=heads("clideep"), nontrivial=lambda st: int(st.get("deep", 0)) >= 50, label="deep-nesting", timeout=600),
          Job("adf", 12, 300, size=300, size_thorough=340, extra=("wider",), relevant=heads("build", "adopt", "adump", "wfcheck"), nontrivial=lambda st: int(st.get("n", 0)) >= 257,
              label="wider-than-a-byte", chunk_min=2, cap=64)],
    rule="large ADFs (24-48 statements, formula depth 5-11, diagrams up to thousands of nodes): native build handle-exact vs model, bridged and pre-grounded stores validated by wfCheck + isoCheck; "
         "small ADFs additionally by truth table; permuted fact orders x {none, lx, an} sorting: condition handles per statement vs the model under the same order; "
         "non-trivial = distinct ADF (large: >= 20 statements and >= 50 nodes)",
    assumptions=["well-formed ADFs"],
)
PROPS["C10"] = dict(
    level_text="Machine-checked proof (Lean 4): the consequence operator commutes with every re-presentation (bijective renumbering / renaming of statements; C10.consequence_operator_equivariant, "
               "presentation_symmetric), hence complete interpretations (complete_equivariant), the least fixpoint (lfp_equivariant, grounded_equivariant), the reduct (reduct_equivariant) and stable "
               "models (stable_equivariant) correspond, and so do the ANSWERS of the concrete functions: grounded vectors, completeAll and stableAll answers of two well-formed stores whose conditions "
               "are re-presentations of each other (answers_equivariant). Tie to the code: metamorphic runs - each generated ADF is presented 5 ways (random permutation of all s/ac facts incl. ac "
               "before s, sorting none / lexicographic / alphanumeric, label classes incl. keyword-like and numeric labels, random whitespace layout); grounded, complete, stable and two-valued answers "
               "of the native and biodivine back-ends and the rewriting / pre-filter variants are mapped back to the original statements and compared with the specification's answers for the ORIGINAL "
               "framework; the variable order reported by the parser is checked (permutation; declaration order without sorting; byte-wise ascending labels with lexicographic sorting) and the native "
               "run under that order is compared handle for handle with the model.",
    level_note="Trusted: Lean kernel + standard axioms; sort_unstable / natural_lexical_cmp trusted to return a permutation (checked per run); layout changes are parser matters (C08); CLI flags --lx/--an "
               "are exercised by C15.",
    technique="Lean 4 proof (equivariance of the consequence operator, lifted to least fixpoints, reducts and the concrete enumerations) + metamorphic correspondence runs against the order-independent specification",
    jobs=[Job("adf", 500, 20000, size=6, size_thorough=7, extra=("present",), relevant=heads("present", "presented", "ordercheck"), nontrivial=nt_adf),
          Job("adf", 40, 1200, size=5, extra=("cli",), timeout=900, needs_bins=True, relevant=heads("cli", "clirun", "clicheck"),
              nontrivial=lambda st: int(st.get("n", 0)) >= 2, label="cli-sorting"),
          Job("adf", 60, 2000, size=90, size_thorough=130, extra=("presentwide",), relevant=heads("present", "presented", "ordercheck"),
              nontrivial=lambda st: int(st.get("n", 0)) >= 65, label="wide-presentations")],
    rule=ADF_GEN + "5 presentations per ADF (fact permutation x sorting mode x label class x layout); answers as statement->value maps vs Spec on the original; order checks; non-trivial = distinct ADF with >= 2 statements and >= 5 nodes",
    assumptions=["labels alphanumeric (quoted labels are C08/C15)"],
)
PROPS["C11"] = dict(
    level_text="Machine-checked proof (Lean 4): every operation sequence only extends the node table and keeps the invariant, so every earlier handle keeps its function (C11.handles_stable, from the "
               "refinement theorem of C06/C07); every answer depends only on the Boolean functions of the conditions, hence is the same on a fresh object and on one with an arbitrary call history "
               "(any two well-formed stores whose condition handles denote the same functions), and the diagram layer does not even change handle NUMBERS or the node table when the memo tables differ or are dropped "
               "(handles_memo_independent, handles_memo_independent_reachable, represented_result_not_reallocated): the grounded vector's decided part and the complete filter (grounded_history_independent, "
               "complete_filter_history_independent), the sets of complete models, of enumerate-and-check stable models, of the counting-guided search under either heuristic and of the nogood search "
               "under any two heuristics (complete_/stable_/count_search_/ng_search_history_independent, corollaries of the exactness theorems of C02-C05, which hold from ANY well-formed store with ANY "
               "sound memo contents). Determinism is immediate for the model (pure functions of explicit inputs; Rand's generator state is an explicit input of the scripted shape); that the code "
               "has no hidden dependence on hash iteration order or entropy is observed. Tie to the code: random call histories (all semantics, both counting searches, nogood search with 4 "
               "heuristics, extra formulas built on the shared store, counts) followed by probes on the used object and on a freshly built twin, compared with the model (handle-exact, so the model "
               "tracks the same memo state) and the specification; the REAL memo / unique / count / dependency tables are dumped through the add-only hook and audited entry by entry after each history.",
    level_note="Trusted: Lean kernel + standard axioms; hook verif_dump_tables (read-only); memoCheck is executable specification (not a theorem); the order in which the searches emit models after "
               "different histories is not claimed by the property (compared with the model on explored histories only); seeded Rand runs are covered by C05's runs.",
    technique="Lean 4 proof (append-only store invariant; answers as functions of denotations, via the exactness theorems) + handle-exact correspondence over call histories + audit of the real memo tables",
    jobs=[Job("adf", 500, 20000, size=5, size_thorough=6, extra=("hist",), relevant=None, nontrivial=nt_adf),
          Job("adf", 80, 2500, size=90, size_thorough=130, extra=("histwide",), relevant=None, nontrivial=lambda st: int(st.get("n", 0)) >= 65, label="wide-histories")],
    rule=ADF_GEN + "2-10 random API calls on one object (native, hybrid or pre-grounded), then six probe calls on it and on a fresh twin; memoCheck of the real tables; non-trivial = distinct history on an ADF with >= 2 statements and >= 5 nodes",
    assumptions=["well-formed ADFs"],
)

def nt_parser(st):
    return st.get("kind") in ("malformed", "fuzz") or (st.get("kind") == "valid" and int(st.get("facts", 0)) >= 2)


PROPS["C08"] = dict(
    level_text="Machine-checked proof (Lean 4) that the parser model - the nom grammar of parser.rs on character lists incl. quoted labels, with its side effects on "
               "namelist/dict/formulae/formulaname and formula_order - accepts exactly the documented grammar: completeness (C08.parse_complete: every text of the grammar, any fact "
               "order/layout, alphanumeric incl. keyword-like or quoted labels, yields exactly the written facts, labels verbatim), soundness (C08.parse_sound), unambiguity, the content "
               "of the parser object (C08.result_spec), and executable rejection tests proved sound (missing terminator, trailing garbage, bad start, unbalanced brackets, wrong arity/unknown "
               "connective, odd quotes). Tied to the code by a correspondence run of AdfParser::parse (+ Adf::from_parser) against the model and against the generator's ground truth; "
               "CLI rejection (non-zero exit, empty stdout) is exercised by C15's runs, web parse errors by C16's.",
    level_note="Trusted: Lean kernel + {propext, Quot.sound}; nom combinators modelled by hand (tie is differential); formulaname observed through the derived Debug output; "
               "that the Rust parser never panics is observed (catch_unwind), not proved.",
    technique="Lean 4 proof (completeness by induction on the grammar, soundness by induction on fuel, scanners as necessary conditions) + correspondence check",
    jobs=[Job("parser", 5000, 200000, size=6, size_thorough=8, relevant=heads("parse", "parsecheck", "parsechunks"), nontrivial=nt_parser),
          Job("parser", 1500, 100000, size=6, extra=("fuzz",), label="parser-fuzz", relevant=heads("parse"), nontrivial=nt_parser),
          Job("adf", 6, 60, size=2, extra=("deep",), needs_bins=True, relevant=heads("clideep"), nontrivial=lambda st: int(st.get("deep", 0)) >= 50, label="deep-nesting", timeout=600)],
    rule="valid stream: pretty-printed random ASTs (9 constructors, depth <= 4, 1-6 statements, duplicate/missing/undeclared s and ac) x random layouts x label classes "
         "(alphanumeric, keyword-like, numeric, quoted incl. empty/brackets/blanks/non-ASCII) x fact orders; malformed stream: 17 kinds of definitely-invalid mutations; fuzz: 1-2 random "
         "character edits. Compared: accept/reject, namelist, whole dict, conditions with labels, formula_order, per-statement truth table of Adf::from_parser. "
         "non-trivial = distinct malformed/fuzz text or valid text with >= 2 facts",
    assumptions=["CLI exit status / web parse_only=Error are covered by C15/C16", "truth tables compared for <= 10 declared names"],
)


PROPS["C15"] = dict(
    level_text="Machine-checked proof (Lean 4) about the model of App::run (Cli.run: three arms, per-mode wiring table, fixed section order, the hybrid arm working on the pre-grounded conditions): "
               "FAITHFULNESS - for every mode, flag set, heuristic and every printed block, the block is, as a multiset of interpretations, the specification's answer for its section "
               "(C15.cli_faithful; composition of the exactness theorems of C01-C05, the pre-grounding lemmas and SpecSound; hypothesis: the nogood-search sections halt within the model's fixed "
               "fuel of 10^6 iterations - unconditional without --twoval/--stmng (cli_faithful_without_search_flags) and for every sufficiently large bound (cli_faithful_every_large_bound)); the three "
               "modes print the same sets for common sections (modes_print_same_sets); the printed sections are exactly the requested ones the mode implements (sections_exact), in the documented "
               "order (sections_in_documented_order), each once (sections_nodup), one block per section (run_blocks); malformed input gives a non-zero exit and no output in every arm, from the TEXT (rejects_malformed_text, rejects_ill_formed_adf). "
               "Tie to the code: the REAL adf-bdd binary, built from the current tree, is run on generated files x --lib {naive, biodivine, hybrid} x {none, --lx, --an} x single flags and random "
               "flag sets x --heu, with alphanumeric, keyword-like, numeric and quoted (non-ASCII, quote, backslash) labels: exit status, format of every line (each statement labelled by its own name, "
               "in variable order) and the line sequence are compared with the model; the specification judges the output section by section in the documented order; --counter nai is compared with "
               "the model's counts; six kinds of malformed files must be rejected with empty stdout; --export must not overwrite and --import must reproduce the answers.",
    level_note="Trusted: Lean kernel + standard axioms; process behaviour (exit codes, panics, file system) is observed, not proved; KNOWN FINDING D6: a quoted label containing one of !&|^=<>()?: aborts "
               "--lib biodivine and the default --lib hybrid (biodivine rejects the variable name); the model's fixed search fuel (10^6) is a hypothesis of cli_faithful.",
    technique="Lean 4 proof (composition of the semantics theorems over the CLI's wiring; ordering of sections) + correspondence of the real binary with the model and, section by section, with the specification",
    jobs=[Job("adf", 120, 2500, size=5, size_thorough=6, extra=("cli",), timeout=900, needs_bins=True,
              relevant=heads("cli", "clirun", "clicheck", "clibad", "cliexport", "cliq", "clicount", "clideep", "clibig"), nontrivial=lambda st: int(st.get("n", 0)) >= 2),
          Job("adf", 15, 400, size=90, size_thorough=130, extra=("cliwide",), timeout=900, needs_bins=True, relevant=heads("cli", "clirun", "clicheck"),
              nontrivial=lambda st: int(st.get("n", 0)) >= 65, label="wide-cli")],
    rule=ADF_GEN + "per ADF six invocations of the real binary (4 single-flag, 2 random flag sets; random mode, sorting, heuristic, fact permutation, label class, layout), one malformed file "
         "(missing terminator / trailing garbage / unbalanced bracket / wrong arity / unknown connective / leading blank), every 10th ADF an export-twice-then-import run; "
         "non-trivial = distinct ADF with >= 2 statements",
    assumptions=["flags a mode does not implement print nothing there (reading fixed in DESIGN.md section 5)"],
)


PROPS["C12"] = dict(
    level_text="Machine-checked proof (Lean 4): BOTH bodies of every cfg split of obdd.rs are modelled (FeatureVariants: Cfg, nodeC, restrictC with the variable-list shortcut, iteCfg, the incrementally "
               "maintained dependency table, the ad-hoc count bookkeeping in node, modelcount_memoization, max_depth, new, fix_import) and proved equal to the reference model: same handles and node "
               "tables for every operation sequence under every feature set (C12.node_tables_feature_independent, node_tables_agree, restrict_/ite_/node_feature_independent), dependency table = "
               "recursive dependencies (deps_table_exact, var_dependencies_feature_independent), paths ad hoc = memoised = naive, models ad hoc = naive and memoised = naive except the DOCUMENTED "
               "exception adhoccounting without adhoccountmodels (models_feature_independent, models_exception), cached = recursive depth for the repaired body and the negation for the unrepaired one "
               "(max_depth_feature_independent, d3_unrepaired_wrong: D3), invariants established by new / fix_import; headline answers_feature_independent. Tie to the code: the SAME harness is "
               "built against /repo/lib under several feature sets (quick: none / default / all; thorough: all 12 combinations) and each build's stream (diagram operations and queries, all ADF "
               "semantics, both searches, call histories, audit of the real memo/count/dependency tables through the hook) is compared with the ONE model and the specification.",
    level_note="Trusted: Lean kernel + standard axioms; ite memo tables of two runs are related by IteAgree (holds along any two runs); frontend is a flag that touches no table (streaming itself is C19); "
               "bin/Cargo.toml feature pass-through is exercised only for the default CLI build (C15).",
    technique="Lean 4 proof (simulation between feature-variant bodies and the reference store) + 3-way / 12-way correspondence of differently built binaries against one model",
    jobs=[Job("bdd", 600, 5000, size=6, fsets=("none", "default", "all"), fsets_thorough=ALL12, relevant=None, nontrivial=nt_bdd, label="bdd"),
          Job("adf", 300, 2000, size=5, size_thorough=6, extra=("sem",), fsets=("none", "default", "all"), fsets_thorough=ALL12, relevant=None, nontrivial=nt_adf, label="adf-sem"),
          Job("adf", 200, 1500, size=5, size_thorough=6, extra=("count",), fsets=("none", "default", "all"), fsets_thorough=ALL12, relevant=None, nontrivial=nt_adf, label="adf-count"),
          Job("adf", 150, 1000, size=5, size_thorough=6, extra=("ng",), fsets=("none", "default", "all"), fsets_thorough=ALL12, relevant=None, nontrivial=nt_adf, label="adf-ng", timeout=300),
          Job("adf", 150, 1000, size=5, extra=("hist",), fsets=("none", "default", "all"), fsets_thorough=ALL12, relevant=None, nontrivial=nt_adf, label="adf-hist")],
    rule="the generated streams of the diagram family and of the ADF family (profiles sem, count, ng, hist) are executed by harness binaries built with different cargo feature sets of adf_bdd and each "
         "compared with the one Lean model (handle-exact) and the specification; non-trivial = distinct case per (family, feature set) creating >= 3 inner nodes resp. ADF with >= 2 statements and >= 5 nodes",
    assumptions=["the documented exception (memoised model counting with adhoccounting but without adhoccountmodels) is excluded from the comparison and stated as its own lemma"],
)


def nt_ng(st):
    return int(st.get("nogoods", 0)) >= 2 and int(st.get("conflicts", 0)) + int(st.get("concluded", 0)) >= 1


PROPS["C18"] = dict(
    level_text="Machine-checked proof (Lean 4), for EVERY history of add_ng calls and mode switches from new(n) and every partial interpretation, about a line-by-line model of the repaired "
               "NoGoodStore (n+1 buckets indexed by size, the three duplicate-elimination modes, try_from_pair_iter dropping a contradictory bucket, disjunction, the is_violating scan, "
               "conclusion_closure with its loop): the store invariant (C18.store_invariant), the add semantics for each mode and for whole histories incl. the empty nogood - the set of total "
               "assignments excluded by the store equals the set excluded by the ADDED nogoods (add_semantics, history_semantics, empty_nogood_excludes_everything, added_covered, stored_added); "
               "conclusions contain the input and only forced literals (conclusions_sound, conclude_sound); a conflict only if no total extension avoids all added nogoods (conflict_sound) and always "
               "when the interpretation matches an added one (conflict_direct); the same for the closure with termination (closure_sound, closure_direct, closure_terminates) and the unit-flip law "
               "the search relies on (closure_flip); the unrepaired code violates the theorems on the witnesses of D8a, D8b, D10 (unrepaired_*). The brute-force specification that judges the "
               "IMPLEMENTATION's answers is proved to mean the property and the model is proved to pass it (spec_*_meaning, model_passes_spec). Tie to the code: add_ng / conclusions / "
               "conclusion_closure (hook) / store dumps (hook) on generated histories, compared with the model and judged by the specification.",
    level_note="Trusted: Lean kernel + standard axioms; RoaringBitmap pairs modelled as List (Option Bool); hooks verif_conclusion_closure / verif_dump; the tie is differential (<= 8 variables, <= 8 nogoods; wide stores: 11-160 variables, <= 12 nogoods of <= 5 literals); "
               "clauses that belong to the closure's contract with the search (unit flip, progress, update flag) are reported on the correspondence channel, not as C18 failures.",
    technique="Lean 4 proof (history induction on the bucketed store; line-by-line model proved equal to the verified one) + correspondence check + verified brute-force specification applied to the implementation's answers",
    jobs=[Job("ng", 20000, 400000, size=6, size_thorough=8,
              relevant=heads("ngadd", "ngconcl", "ngclosure", "ngdump", "ngchain", "nogoodcheck"), nontrivial=nt_ng),
          Job("ng", 1, 1, size=23, size_thorough=24, extra=("exh",), relevant=heads("ngadd", "ngconcl", "ngclosure", "ngdump", "ngchain", "nogoodcheck"),
              nontrivial=lambda st: True, label="exhaustive-2-variables", timeout=1800),
          Job("ng", 0, 1, size=33, extra=("exh",), relevant=heads("ngadd", "ngconcl", "ngclosure", "ngdump", "ngchain", "nogoodcheck"),
              nontrivial=lambda st: True, label="exhaustive-3-variables", timeout=3600),
          Job("ng", 3000, 60000, size=160, extra=("wide",),
              relevant=heads("ngadd", "ngconcl", "ngclosure", "ngdump", "ngchain", "nogoodcheck"), nontrivial=nt_ng, label="wide-stores")],
    rule="EXHAUSTIVE small scope: every sequence of <= 3 (thorough: <= 4) nogoods over 2 variables and (thorough) of <= 3 nogoods over 3 variables, the empty nogood included, under each mode, "
         "queried with every interpretation (conclusions and closure); and random histories of 0-8 add_ng over 0-6 variables (empty, full-length, nested, duplicate, subsuming, complementary nogoods), all three modes with switches mid-history, interpretations incl. "
         "matching / almost-matching / total ones; store dump after every add, conclusions and conclusion_closure answers judged by the brute-force specification and compared with the model; "
         "every NoGood object (nogood or interpretation) is built along a constructor path chosen from the request text (from_term_vec, try_from_pair_iter, new_single_nogood, or a disjunction of "
         "2-3 parts partitioning the literals), and a quarter of the queries are ngchain: conclusions fed with the OBJECT it returned (<= 3 steps), every step judged by the specification; "
         "WIDE stores (job wide-stores): 11-160 variables (widths around 64 and 128 or random), histories of 2-12 nogoods with 1-5 literals on positions around the 32/64/128 word boundaries and "
         "shifted copies congruent modulo 32/64/128 with equal values, duplicates, sub-/supersets, complements, all three modes with switches, interpretations matching / almost matching them, "
         "the same requests incl. ngchain, judged by the search-based specification (Spec/NgWide.lean: avoidingExt, proved sound, complete and equal in verdict to the brute-force one: "
         "C18.wide_spec_sound, wide_spec_complete, wide_spec_eq, wide_spec_store, model_passes_wide_spec); "
         "non-trivial = distinct history with >= 2 nogoods and >= 1 conflict or conclusion",
    assumptions=["nogoods/interpretations are vectors of the store's width (add_ng panics beyond: stated precondition)"],
)


PERSIST_HEADS = ("pop", "psem", "pq", "pjson", "prebuild", "prebuildstream", "pmemocheck", "pfinish", "wfcheck")


def nt_persist(st):
    return int(st.get("trips", 0)) >= 1 and int(st.get("nodes", 0)) >= 3


PROPS["C20"] = dict(
    level_text="Machine-checked proof (Lean 4) about literal state-machine models of both iterators (find-then-reset two-valued odometer; decrement_vec with its two loops, started/current/indexes/original) "
               "AND about the functions the ADF driver runs (twoValAll / threeValAll): for every vector, exactly 2^k total completions resp. 3^k refinements (C20.two_count, three_count), no vector twice "
               "(two_nodup, three_nodup), membership iff completion / refinement (two_exact, three_exact), decided positions never altered (two_decided_kept, three_decided_kept), the three-valued one "
               "starts with the interpretation itself (three_first), the literal iterators answer None by themselves after exactly that many items (two_literal_terminates, three_literal_terminates) and "
               "the fuel of the driver's functions is irrelevant above 2^k / 3^k (two_fuel, three_fuel). Tie to the code: collect() of the real iterators, element by element, on random vectors and "
               "exhaustively on all patterns up to length 4 (quick) / 6 (thorough).",
    level_note="Trusted: Lean kernel + standard axioms; the tie is differential (random vectors up to length 10 with <= 6 undecided; the exhaustive small-scope runs are tests, labelled as such).",
    technique="Lean 4 proof (odometer = reference enumeration, by induction) + correspondence check",
    jobs=[Job("iter", 1500, 20000, size=10, relevant=heads("it2", "it3", "itp2", "itp3", "itc2", "itc3"), nontrivial=lambda st: int(st.get("undecided", 0)) >= 1),
          Job("iter", 1, 1, size=104, size_thorough=106, relevant=heads("it2", "it3", "itp2", "itp3", "itc2", "itc3"),
              nontrivial=lambda st: int(st.get("undecided", 0)) >= 1, label="iter-exhaustive")],
    rule="random vectors (length 0-10, <= 6 undecided, handles 0/1/other) and every decided/undecided pattern up to length 4 (thorough: 6); the full yielded sequence is compared with the model, and "
         "count / Nodup / completeness / first element with the reference enumeration; non-trivial = distinct vector with >= 1 undecided position",
    assumptions=[],
)
PROPS["C19"] = dict(
    level_text="Machine-checked proof (Lean 4) for a literal model of Bdd::recv (try_recv loop; Empty and Disconnected alike; store without receiver) in a producer - relay - receiver system with FIFO "
               "channels, for EVERY sequence of events create / deliver k / relayPoll / recvPoll / prodPoll from fresh stores: after k consumed messages the receiver holds exactly the producer's first k+2 "
               "nodes in order, the relay likewise (C19.mirror_prefix), nothing is lost, duplicated or reordered (stream_conservation), drained channels give identical tables also through the chain "
               "(drained_equal, drain_reaches_equal), a poll answers found iff the handle is present after polling (poll_found_iff) and consumes exactly what it must (poll_exact), the relay forwards "
               "exactly what it consumed (relay_forwards) and neither its table nor its answers depend on the receiver downstream, which may stop polling or go away at any point "
               "(relay_independent_of_receiver, relay_answers_independent_of_receiver); the same with the proved diagram store as producer (mirror_prefix_store, drained_equal_store). Tie to the code: a real producer Bdd on its own "
               "thread with a zero-capacity sender, the harness forwarding message by message so that every cut of the stream can be placed before every poll deterministically, plus a relay, every fifth schedule dropping the final "
               "receiver in mid-stream, plus free-running two-thread soak runs; node tables compared index by index with the model.",
    level_note="Trusted: Lean kernel + standard axioms; crossbeam-channel FIFO/lossless behaviour and thread timing are assumptions observed by the cut-controlled and soak runs; the receiver's unique table "
               "and variable lists are not modelled (recv appends nodes verbatim).",
    technique="Lean 4 proof (invariant over all event interleavings of a FIFO system) + schedule-controlled correspondence with the real channel implementation",
    jobs=[Job("stream", 800, 20000, size=5, size_thorough=6, fsets_thorough=("default", "off-v0-f1", "models-v1-f1"),
              relevant=heads("sdeliver", "srelaypoll", "spoll", "sprodpoll", "sjoin", "sdump", "ssoak"),
              nontrivial=lambda st: int(st.get("msgs", st.get("nodes", 0))) >= 3),
          Job("stream", 100, 5000, size=105, size_thorough=106, relevant=heads("ssoak"),
              nontrivial=lambda st: st.get("soak") == "1" and int(st.get("midstream", 0)) >= 1, label="stream-soak")],
    rule="producer operation sequences x cut vectors (how many messages are delivered before each poll) x requested handles (absolute and relative to the current table), relay chain of length 2; soak: "
         "free-running producer thread with concurrent polls; non-trivial = distinct schedule with >= 3 streamed nodes (soak: at least one poll fell mid-stream)",
    assumptions=["requires the frontend feature"],
)

def extra_c14_features(prop, tier, seed):
    """the CLI built with variable lists but without ad-hoc counting must import an exported state
    and give the same answers (D11)"""
    import random
    import subprocess
    tdir = os.path.join(R.TARGET, "repo-vl")
    with R.Lock("cargo"):
        rc, out, err = R.run(["cargo", "build", "--offline", "-p", "adf-bdd-bin", "--no-default-features", "--features", "variablelist"],
                             cwd=R.REPO, env={"CARGO_TARGET_DIR": tdir}, timeout=3600)
    if rc != 0:
        m = R.Mismatch("struct", 0, 0, "build adf-bdd --no-default-features --features variablelist", "does not build", "builds", [])
        return dict(corr_mism=[m], evaluations=0, distinct_nontrivial=0, summary="variant binary does not build")
    variant = os.path.join(tdir, "debug", "adf-bdd")
    default = R.repo_bin("adf-bdd")
    rnd = random.Random(seed)
    tmp = os.path.join(R.BUILD, "tmp", "c14-%d" % os.getpid())
    os.makedirs(tmp, exist_ok=True)
    texts = ["s(a).s(b).s(c).ac(a,neg(b)).ac(b,neg(a)).ac(c,and(a,b)).",
             "s(a).s(b).ac(a,c(v)).ac(b,or(a,neg(b))).",
             "s(x).s(y).s(z).s(w).ac(x,iff(y,z)).ac(y,xor(z,w)).ac(z,imp(x,w)).ac(w,neg(x))."]
    n = 3 if tier == "quick" else 12
    while len(texts) < n:
        k = rnd.randint(2, 5)
        names = [f"s{i}" for i in range(k)]

        def fm(d):
            if d == 0 or rnd.random() < 0.3:
                return rnd.choice(names + ["c(v)", "c(f)"])
            op = rnd.choice(["and", "or", "imp", "iff", "xor", "neg"])
            return f"neg({fm(d - 1)})" if op == "neg" else f"{op}({fm(d - 1)},{fm(d - 1)})"
        texts.append("".join(f"s({x})." for x in names) + "".join(f"ac({x},{fm(3)})." for x in names))
    mism = []
    samples = []
    for i, t in enumerate(texts):
        f = os.path.join(tmp, f"in{i}.adf")
        j = os.path.join(tmp, f"st{i}.json")
        open(f, "w").write(t)
        if os.path.exists(j):
            os.remove(j)
        d = subprocess.run([default, "--lib", "naive", "--grd", "--com", "--stm", "--export", j, f], capture_output=True)
        v = subprocess.run([variant, "--lib", "naive", "--import", "--grd", "--com", "--stm", j], capture_output=True)
        req = f"cli-feature-import variablelist-only {t}"
        if d.returncode != 0 or v.returncode != 0 or d.stdout != v.stdout:
            mism.append(R.Mismatch("prop", i, 0, req, [f"exit={v.returncode} stdout={v.stdout.decode()[:200]!r}"],
                                   [f"exit=0 stdout={d.stdout.decode()[:200]!r}"], [req]))
        samples.append({"input": t, "import_exit": v.returncode})
    return dict(prop_mism=mism, evaluations=len(texts), distinct_nontrivial=len(set(texts)), samples=samples[:2],
                summary=f"{len(texts)} export(default build)/import(variablelist-only build) runs, {len(mism)} differ",
                coverage={"feature_import_runs": len(texts)})


PROPS["C14"] = dict(
    extra=extra_c14_features,
    level_text="Machine-checked proof (Lean 4) for a model of a Bdd with its bookkeeping (Store + var_deps + count_cache): export -> import -> fix_import reproduces the node table and unique table, leaves "
               "empty memo tables, keeps WF and recomputes aligned, sound dependency lists and a total, sound count cache (C14.import_fix, import_fix_same_bookkeeping); rebuilding from the plain node "
               "list as the web service does reproduces the same numbering (rebuild_id, simplified_roundtrip with the string codec as explicit assumption); every handle keeps its function and every "
               "answer that is a function of (nodes, ac) or of the conditions' functions is equal (handles_keep_function, answers_equal, grounded_after_roundtrip); fix_import on a store that already "
               "has variable lists misaligns them (fix_import_precondition, fix_import_twice_counterexample); the CLI never overwrites (export_never_overwrites). Handles issued LATER on "
               "the round-tripped object carry the same NUMBERS and produce the same node table as on a never-exported twin, for every operation sequence and any memo contents on either side "
               "(future_ops_same_handles, future_ops_same_handles_roundtrips: memo transparency - a result that is already represented is never re-allocated). Tie to the code: "
               "serde_json round trip + fix_import and Bdd::from(nodes) at random points of random operation histories, node tables / ac / names / unique table / recomputed bookkeeping / empty memos "
               "compared with the original, the real private tables audited (pmemocheck), operations and semantics continued against a never-exported twin; CLI --export twice and --import in C15's runs.",
    level_note="Trusted: Lean kernel + standard axioms; serde_json and decimal parsing are assumptions observed by the runs.",
    technique="Lean 4 proof (rebuild = identity on well-formed tables; recomputed bookkeeping equals the invariant's) + correspondence check incl. audit of the real private tables",
    jobs=[Job("persist", 600, 15000, size=5, size_thorough=6, fsets=("default", "none"), fsets_thorough=("default", "none", "all", "off-v1-f0"),
              relevant=heads(*PERSIST_HEADS), nontrivial=nt_persist),
          Job("adf", 60, 1500, size=5, extra=("cli",), timeout=900, needs_bins=True, relevant=heads("cliexport"),
              nontrivial=lambda st: int(st.get("n", 0)) >= 2, label="cli-export")],
    rule="random operation histories on a real Bdd/Adf with JSON export/import + fix_import and node-list rebuilds at random points (fresh, after computations), then more operations, queries and "
         "semantics on the re-imported object and on a never-exported twin; every 10th CLI case: --export, --export onto the existing file of another framework, --import; "
         "non-trivial = distinct history with >= 1 round trip and >= 3 inner nodes",
    assumptions=["fix_import exactly once after an import (stated precondition)"],
)


sys.path.insert(0, os.path.join(R.VERIF, "harness", "sysharness"))
import webchecks  # noqa: E402
webchecks.register(PROPS)

# ----------------------------------------------------------------------------------------------


# ----------------------------------------------------------------------------------------------
# round 2 (repairs after the independent review, review_props_2026-09-27.md): sentences appended to the level texts
ROUND2 = {
 "C01": " HYBRID PIPELINE COMPOSED (round 2): Bio.hybridStep models hybrid_step_opt (optional biodivine grounding over a lawful library, dump, replay through node into one native store); "
        "hybrid_grounded_is_lfp / hybrid_grounded_from_formulas: the native grounding loop on the hybrid-built object returns the least fixpoint of the ORIGINAL framework, for both flags, and equals biodivine's own answer; "
        "grounded_native_from_formulas restated with n = number of formulas and atoms below n; kernel-checked instance with three propagating rounds.",
 "C02": " Round 2: hybrid_complete_exact / hybrid_complete_from_formulas (complete enumeration on the hybrid-built native object, both flags: Nodup, exactly the fixpoints, grounded first); non-trivial kernel-checked instances (mutual attack).",
 "C03": " Round 2: hybrid_stable_exact (stable + pre-filter), hybrid_count_search_exact, hybrid_ng_search_exact on the hybrid-built object for both flags; native_rewriting_exact_from_formulas derives the 'same functions' hypothesis from the common written framework.",
 "C04": " Round 2: count_search_exact_branching_instance - the exactness theorem instantiated on the three-statement pre-study framework where grounding decides nothing and the search must branch (both heuristics; FFF found, the non-stable two-valued model TTT excluded); cube laws on a non-empty cube list.",
 "C05": " CHANNEL VARIANTS (round 2): Channel/NgChannel model producer loop + FIFO channel (unbounded or bounded(k), blocking sends) + consumer under EVERY schedule; channel_variants_deliver_exactly: received ++ queued is always a prefix of the search result, "
        "the sender is dropped exactly after the last send (log = sends then one close), nothing is sent after closing, a finished consumer holds exactly the result, every fair schedule finishes (capacity >= 1); iterator_variant_exact; "
        "heuristic_totality_necessary: a heuristic answering None at its first call loses every model, so the totality hypothesis of ng_search_exact_any_heuristic cannot be dropped (none_answer_is_a_conflict models what the code does).",
 "C06": " Round 2: ONE reachability theorem - inductive Reach (fresh store, any operation on valid handles, both node-list rebuilds, export+import+fix_import with arbitrary bookkeeping, bridge replay of a well-formed dump) and reach_wf / reach_same_handle_iff_same_function.",
 "C08": " Round 2: CLI link from the text - cli_no_answer_for_rejected_text: when parse t = none (or from_parser panics) every arm of the text-level CLI model CliM.runText exits 101 with empty output.",
 "C09": " Round 2: hybrid_import_function replaces the definitional pregrounded_function: every bridged handle of the model of hybrid_step_opt denotes the statement's condition (opt=false) resp. the condition restricted by the least fixpoint (opt=true); bridge_ignores_terminal_entries (the first two dump entries are never read, as in from_biodivine_vector).",
 "C11": " CALL HISTORIES ON ONE OBJECT (round 2): inductive Call (grounded, complete, stable, pre-filter, both counting searches, nogood search in both modes with every heuristic, count/path/dependency queries, extra formulas) and runCalls over the definitions the driver runs; "
        "history_invariant (after any history: store well formed, ac unchanged, every issued handle unchanged with the same function, node table only grown), answers_history_independent (answer of any call after any history = answer on the fresh object; sets with Nodup, complete: grounded first; queries: equal numbers), "
        "ng_halts_after_history, answers_memo_independent (answers IN ORDER - vectors, handle numbers, heuristic trace - and node tables do not depend on the memo contents, for EVERY call kind incl. both searches: lock-step lemmas GK.search_lock / countAll_lock / ngSearch_lock), answers_depend_on_node_table, answers_memo_dropped_midway, answers_reimport_midway (dropping the memo tables or a serde export/import in the middle of a history changes no later answer nor its order).",
 "C12": " SEMANTICS UNDER EVERY FEATURE SET (round 2): semantics_feature_independent - simulation Rel between the configured store (any Cfg, any origin) and the reference store: grounded, complete, stable, both counting searches and the nogood search (every heuristic, mode, fuel; trace and halting flag) return the same vectors handle for handle; "
        "cli_sections_feature_independent (all nine CLI sections); frontend is now READ by the model: frontend_channel (with a sender attached the log is exactly the created nodes in creation order, answers unchanged), no_sender_no_log; cubes_impacts_feature_independent, restrict_feature_independent_total, answers_after_import (the models exception stated exactly), import_without_fix.",
 "C13": " Round 2: cubes_exact (one statement for EVERY handle: disjoint, sound, consistent with the goal variable, covering exactly for non-terminals; empty for the two constants = the documented reading), impacts restated against Essential (no definitional conjunct), more_models_iff against counts of satisfying assignments, more_models_word_iff for the 64-bit arithmetic.",
 "C14": " Round 2: instantiated answers after both round trips - complete_after_roundtrip, stable_after_roundtrip, count_search_after_roundtrip, nogood_search_after_roundtrip, grounded_after_rebuild; concrete decimal codec (simplified_roundtrip_decimal, no codec hypothesis). THE JSON TEXT IS MODELLED (JsonModel: serde_json's compact printer incl. its escape table, a lexer and reader with serde's derived visitors): decimal_roundtrip (every natural below 2^64, incl. the two terminal variable numbers), string_roundtrip (arbitrary Unicode labels), "
        "text_roundtrip (for every whitespace and every iteration order of the two hash maps reading the printed text back gives the same state), text_import_fix, text_future_ops_same_handles, text_answers_equal, cli_export_then_import. TIE: the driver's verified parser reads the REAL serde_json text of every persistence case and the Lean printer must reproduce it byte for byte (pjson text); "
        "texts printed by the Lean model (other member order, whitespace) are imported by the real serde_json + fix_import (pjson lean); 13 accept/reject variations on which serde and the model's reader must agree (pjson alt).",
 "C15": " THREE DIFFERENT ARMS FROM THE TEXT (round 2): CliM.runText models main.rs per arm (parse, --lx/--an sorting before building, naive = from_parser + native sections; biodivine = library-side from_parser + Bio.bioGrounded/bioComplete/bioStable/bioStableRep; hybrid = library grounding, dump, bridge, native sections) with PrintableInterpretation's rendering; "
        "cli_text_faithful (every well-formed text, every mode/flags/sorting/heuristic: exit 0, one block per requested implemented section in documented order, each block a permutation of the specification's answer), three_modes_print_same_sets (now between three different computations), line_format / mark_is_value, lx_prints_in_bytewise_order, "
        "rejects_malformed_text, naive_arm_is_driver_model (the naive arm IS the Cli.run the driver executes against the binary), library_arms_panic_on_special_labels (model-level statement of known finding D6; the library arms carry the hypothesis bioNameOK). The two vacuous theorems of round 1 are deleted. TIE OF ALL THREE ARMS: the driver now runs CliM.runText on the exact TEXT handed to the binary (clirun carries it) in a concrete world (CliM.drvWorld: tagged truth-table library, generic node dump Bio.ttDump, the natural_lexical_cmp sort written down), "
        "so the biodivine arm (Bio.bioComplete/bioStable/...) and the hybrid arm (library grounding, dump, bridge, native sections) of the MODEL are compared with the corresponding arm of the real binary, line for line as printed (printed= channel; up to 10 statements, above that the round-1 path); "
        "driver_world_faithful / driver_world_three_modes instantiate the theorems at exactly that world (drvWorldOK, drvWorld_dump, Bio.ttDump_spec), so no assumption about an external world remains for what the driver runs; the unsatisfiable form of the dump hypothesis (DumpOKW over all variable counts) was found and corrected. --counter modelled (CliCounter).",
 "C16": " THE SERVICE, NOT ONLY THE LIBRARY (round 2): the server model's environment is instantiated with the concrete library models (SrvC.libEnv, ONE definition shared by the driver and the theorems); parse_task_stores_framework / _error, solve_request_uses_stored_framework, "
        "solve_task_stores_answer (the write of a solve task stores exactly the library model's answer for the STORED framework under the addressed problem and strategy), write_touches_only_its_target, get_returns_stored, served_answer_for_code (what GET shows under a strategy is the definitional answer for the submitted code, all six strategies), "
        "storage_roundtrip_identity + solve_after_roundtrip_same (SimplifiedAdf round trip is the identity on ordering, node table and ac), graph_hyp_of_accepted_text (graph hypotheses DERIVED from parser facts), graphs_faithful_under_the_shown_model (all six strategies), "
        "reachable_results_belong_to_the_code (every state reachable by a deletion/rename-free history of any users in any interleaving; histStale shows the restriction is needed - the D9 mechanism). HYBRID PARSING MODELLED: parseHybrid (library-side from_parser incl. repeated/missing ac facts, hybrid_step_opt(false)) with hybrid_parse_denotes_code; the run-time check of adopted tables strengthened (storedAdfOK': roots and variables in range) and PROVED to imply Denotes (stored_adf_check_implies_denotes); "
        "served_answer_for_code_any_parsing (both parsings, no Denotes hypothesis). ALL HISTORIES: ghost taint of keys (user name, problem name) characterises D9's history shape exactly - reachable_untainted_belong_to_the_code, no_d9_all_belong, recreated_clean_belongs (deletes, account removals and renames allowed), "
        "reachable_results_from_submitted_codes (provenance for every key, tainted or not), reachable_served_answer_checked.",
 "C17": " Round 2: touches split into acts-for and mentions (touches_split); mentions_only_harmless (register/update/login that merely NAME an existing account leave its data, credential and responses unchanged; the other user gets 409), isolation_mentions_allowed, noop_event_unobservable, stored_uses_request_salt. Several sessions per account: noninterference_jars (any set of jars logged in to one account). COMMAND GRANULARITY (ServerCmd): every handler as a program of database commands in the order of the Rust, a pool of in-flight requests, any interleaving of single commands, deliveries and task events; "
        "atomic_is_sequential_schedule (the atomic model of the other theorems = the sequential schedules), log_carries_identity (every command issued for a session names that session's user: what the isolation monitor observes), find_returns_own, responses_from_own_finds, isolation_all_schedules, credentials_all_schedules / never_plaintext_all_schedules, "
        "usernames_unique_all_schedules, register_race (all six interleavings decided: the loser gets 409 or 500), and the races that the model exposed in the real code as counterexample theorems with explicit schedules: add_race_duplicate / add_race_wrong_answer (check-then-act in add_adf_problem: finding D14), delete_add_race_orphan, solve_race_two_tasks.",
 "C19": " RELAY CHAIN OF ANY LENGTH (round 2): StreamChain - producer, k relays, all interleavings of create/deliver/poll/drop: chain_mirror_prefix, chain_same_node, chain_poll_found, chain_drained_equal, chain_drain_reaches_equal, chain_relay_independent_of_downstream, chain_after_drop; one_relay_is_chain2 links the round-1 theorems.",
}
for _p, _t in ROUND2.items():
    PROPS[_p]["level_text"] += _t

# round 2, second pass (repairs after the second independent review, review_props_round2_2026-09-28.md)
ROUND2B = {
 "C01": " Second pass: hybrid_grounded_from_facts (any fact order); biodivine's restrict is now an operation of the library structure with its own law (the crate's inherent method; select-then-exists kept as a derived lemma).",
 "C03": " Second pass: native_rewriting_on_hybrid / hybrid_stmrew_exact / hybrid_stmrew2_exact - the DEFAULT CLI arm's rewriting variant (candidates from the un-grounded biodivine object, reduct test on the pre-grounded native store), for which the round-1 hypothesis 'same functions' is false (hsame_fails_for_the_cli_pairing); stable_none_then_empty.",
 "C05": " Second pass: iterator_variant_exact_two_valued (the CLI's --twoval schedule), shared_sender_clones_deliver (sender CLONES: k searches sharing clones deliver the concatenation and the consumer ends exactly after the last clone is dropped - the library's own test pattern), rendezvous_channel_delivers_exactly (bounded(0)), receiver_dropped_before_last_model_panics (the .expect at the send site, concrete producer).",
 "C08": " Second pass (web half): web_parse_rejects_rejected_text, web_task_stores_error_for_rejected_text, web_no_answer_for_rejected_text (over every history, a document whose code is rejected never holds a framework or a result, for both parsings).",
 "C09": " Second pass: cli_bridge_is_this_bridge / cli_hybrid_step_is_this_hybrid_step (the bridge the driver and C15 run IS the bridge of these theorems); dump_spec_holds_for_reduced_shared_diagrams: the project's own store as a fully lawful library (Bio.storeLib, Bio.storeLawful) whose dumps are reduced, shared and skip levels, as real biodivine dumps do; biodivine_from_parser_any_order.",
 "C10": " Second pass: an_sort_is_varsort_alphanum, varsort_alphanum_unique (the natural order is total, transitive and antisymmetric on all labels: NatLexOrder); output invariance composed for the counting, pre-filter, nogood and two-valued sections.",
 "C11": " Second pass: query_answers_exact (queries get real content: counts, paths, depth and dependency sets against truth tables), ORDER across histories: stable_answers_equal_after_history, complete_order_equal_after_history, ng_order_history_independent (the nogood search lists the same decided parts in the same order on DIFFERENT node tables, every heuristic and bound: its heuristics read only positions, path counts and dependency sets); order_across_histories (ALL call kinds incl. both counting searches: canonical_cube_list - the path cubes of a diagram are a function of its Boolean function on well-formed tables - and a relational lock-step of the counting machine over two node tables, count_order_history_independent); "
        "memoised_count_is_the_reimport_exception; same_seed_same_answers for an abstract deterministic generator (StdRng itself is not modelled); history_after_roundtrip_lists / searches_after_roundtrip_lists / nogood_after_roundtrip_lists (with C14: after both persistence round trips every history returns the SAME LISTS - order and handle numbers).",
 "C14": " Second pass: the CLI's --export / --import in a modelled FILE SYSTEM (CliIO: runTextIO over a finite map path -> text): export_never_overwrites_fs (every path that existed keeps its content, for every invocation), export_writes_only_target, export_happens_iff, export_then_import_prints_same (same blocks, same order, no halting hypothesis); "
        "the REAL exported file of every cliexport case is parsed by the verified reader, compared with the state the model builds from the same input text, re-printed byte for byte, and imported by the model's --import arm (cliexportfile).",
 "C12": " Second pass: var_dependencies_card (the number of distinct dependency entries equals the number of essential variables, under every feature set).",
 "C13": " Second pass: paths_word_exact / more_models_paths_word_iff (64-bit path counts agree with the naturals below the word size), cubes_terminal_not_cover (the terminal exception stated).",
 "C15": " Second pass: hybrid_arm_rewriting_section + hybrid_arm_runs_the_verified_bridge; fuel_monotone, halted_from_some_bound_on and cli_text_faithful_every_large_bound for ALL arms incl. hybrid with --twoval/--stmng (no fuel hypothesis; the output is constant from some bound on); an_prints_in_natural_lexical_order; store_world_faithful (the store-based library as a world: the biodivine and hybrid arms of the model now also run for 65-130 statements, except --stmrew2); "
        "the REJECTION branches of the model run against the binary (clibadrun carries the malformed text); stmrew_loses_model_on_duplicate_condition referenced as the visible exception.",
 "C16": " Second pass: dump hypotheses bounded (the unbounded form was unsatisfiable) with kernel-checked instance and reachable_served_answer_tt (no library hypothesis left); biodivine's variable-name check in the hybrid parse model (hybrid_parse_rejects_special_labels: D6 through the web); accepted_solve_eventually_stored (not only safety); NoStaleWrite / NoLostWrite with write_visible_iff_not_lost; running_entries_are_unfinished_tasks over all reachable states; "
        "fuel monotonicity and all-bounds restatements (solve_fuel_monotone, stored_answers_exact_all_bounds); add_race_breaks_the_sentence (D14) with sequential_requests_sentence_partial.",
 "C17": " Second pass: noninterference_statement PROVED at request granularity (noninterference_full: only name re-use while the old owner still holds something and a successful foreign login are excluded; every other foreign mention of a name in use is a permitted conflict), response_determined_by_own_results at command granularity. Open: noninterference at command granularity. TIE widened: a second name alphabet (names with / % ? # + space, quotes, non-ASCII; colliding pairs such as user x + problem y/z vs user x/y + problem z) with percent-encoded path segments, the router's behaviour on raw and doubly encoded segments modelled in the driver (segName), and the scheduled mode runkey (user B's GET and solve while user A's task under a colliding key is still running).",
 "C19": " Second pass: bounded_forwarding (safety for bounded relay channels).",
}
for _p, _t in ROUND2B.items():
    PROPS[_p]["level_text"] += _t

# round 2, third pass: the explicit iteration bound of the nogood search
ROUND2C = {
 "C05": " EXPLICIT BOUND: ng_search_halts_within_explicit_bound - 2^(n+3) iterations suffice for the concrete loop on n statements, every heuristic and both modes (counted big-step argument carried to the concrete run by the lock-step simulation); ng_search_exact_within_explicit_bound (exactness for ALL fuels from the bound on); 2^(n+3) <= 10^6 iff n <= 16. The compiled driver evaluates counts, paths, dependency sets and the heuristics through memoised twins proved equal to the pure model functions on every table (countF_eq_countFM, pathsF_eq_pathsFM, passive_eq_passiveM, heuCall_eq_heuCallM; @[csimp]), so the parity frameworks (path counts near 2^60) are now run through the verified search itself.",
 "C15": " Fuel discharged for frameworks of at most 16 statements: halted_text_for_small_frameworks, cli_text_faithful_small_frameworks (fuel 1 000 000 - the driver's bound - with NO halting hypothesis, all three arms incl. --twoval / --stmng); beyond 16 statements the hypothesis remains and is established by evaluation only.",
 "C16": " Fuel discharged for frameworks of at most 16 statements: strategy_halts_for_small_frameworks, served_answer_for_code_small_frameworks (and the any-parsing / checked-hybrid variants) - no bound hypothesis left there.",
}
for _p, _t in ROUND2C.items():
    PROPS[_p]["level_text"] += _t

def case_hash(reqs):
    return hashlib.sha1("\n".join(reqs[1:]).encode()).hexdigest()[:16]


CHUNK = 25000
PAR = 14  # parallel chunks (16 cores)


def anchor_drift(prop):
    """files named in the property's anchors whose content differs from the recorded baseline
    (tools/anchors.json, written by `./check anchors` on the tree the models were written for).
    It decides nothing; a drifted anchor makes the quick tier generate more cases."""
    try:
        base = json.load(open(os.path.join(R.VERIF, "tools", "anchors.json")))
        files = next(json.loads(l)["anchors"]["files"] for l in open(os.path.join(R.VERIF, "properties.jsonl")) if json.loads(l)["id"] == prop)
    except Exception:
        return []
    out = []
    for f in files:
        p = os.path.join(R.REPO, f)
        h = hashlib.sha256(open(p, "rb").read()).hexdigest() if os.path.exists(p) else "missing"
        if base.get(f) != h:
            out.append(f)
    return out


def write_anchors():
    files = set()
    for l in open(os.path.join(R.VERIF, "properties.jsonl")):
        if l.strip():
            files |= set(json.loads(l)["anchors"]["files"])
    base = {}
    for f in sorted(files):
        p = os.path.join(R.REPO, f)
        base[f] = hashlib.sha256(open(p, "rb").read()).hexdigest() if os.path.exists(p) else "missing"
    json.dump(base, open(os.path.join(R.VERIF, "tools", "anchors.json"), "w"), indent=1)
    print(f"{len(base)} anchored files recorded")


def run_job(prop, job, tier, seed, fset, factor=1, extended=False):
    """-> dict(mism, cases, records, nontrivial, distinct, samples, status, dist); large runs are
    processed in chunks (one generator seed per chunk) to bound memory"""
    harness = R.harness_path(fset)
    cases = (job.quick if tier == "quick" else job.thorough) * factor
    if job.cap is not None:
        cases = min(cases, max(job.cap, job.quick if tier == "quick" else job.thorough))
    size = job.size if tier == "quick" else job.size_thorough
    # corpus of minimised past failures first
    corpus = ""
    cdir = os.path.join(R.VERIF, "corpus", prop)
    if os.path.isdir(cdir) and not extended:
        for f in sorted(os.listdir(cdir)):
            if f.endswith(".case"):
                corpus += open(os.path.join(cdir, f)).read().rstrip("\n") + "\n"
    if cases == 0:
        return dict(mism=[], cases=0, records=0, nontrivial=set(), distinct=set(), samples=[], status="ok", dist={})
    # the run is cut into chunks (one generator seed per chunk, a function of seed and chunk number
    # only) which are executed in parallel: harness and driver are single-threaded processes
    csize = min(CHUNK, max(job.chunk_min, -(-cases // PAR)))
    plan = []
    done = 0
    k = 0
    while done < cases:
        nk = min(csize, cases - done)
        plan.append((k, nk, seed if k == 0 else seed * 100003 + k))
        done += nk
        k += 1
    tmo = job.timeout * (3 if tier == "thorough" else 1) * factor

    def one(item):
        k, nk, sk = item
        rc, reqs, err = R.run([harness, "gen", job.family, str(sk), str(nk), str(size)] + job.extra, timeout=1200)
        if rc != 0:
            raise RuntimeError("generator failed: " + err[-500:])
        return run_requests(prop, job, harness, (corpus if k == 0 else "") + reqs, tmo)

    from concurrent.futures import ThreadPoolExecutor
    with ThreadPoolExecutor(max_workers=min(PAR, len(plan))) as ex:
        parts = list(ex.map(one, plan))
    total = parts[0]
    for res in parts[1:]:
        total["mism"] += res["mism"]
        total["cases"] += res["cases"]
        total["records"] += res["records"]
        total["nontrivial"] |= res["nontrivial"]
        total["distinct"] |= res["distinct"]
        for kk, v in res["dist"].items():
            total["dist"][kk] = total["dist"].get(kk, 0) + v
        if res["status"] != "ok":
            total["status"] = res["status"]
    return total


def run_requests(prop, job, harness, reqs, timeout):
    impl, status = R.run_exec(harness, reqs, timeout)
    model, mrc = R.run_driver(impl)
    mism, icases, istats = R.compare(impl, model, job.relevant)
    if status != "ok":
        # the implementation hung or died: the last request it echoed is the failing input
        last_case = icases[-1] if icases else []
        reqs_l = R.case_requests(last_case)
        lastreq = last_case[-1].req if last_case else "?"
        mism.insert(0, R.Mismatch("hang" if status == "timeout" else "crash", len(icases) - 1, len(last_case) - 1,
                                  lastreq, status, "terminates", reqs_l))
    if mrc != 0:
        mism.insert(0, R.Mismatch("struct", 0, 0, "driver", "driver exit %d" % mrc, "", []))
    nontriv = set()
    dist = {}
    allh = set()
    for case, st in zip(icases, istats):
        h = case_hash(R.case_requests(case))
        allh.add(h)
        ok = False
        for line in st:
            d = stat_dict(line)
            for k, v in d.items():
                key = f"{k}={v}" if not v.isdigit() or int(v) < 10 else f"{k}>=10"
                dist[key] = dist.get(key, 0) + 1
            if job.nontrivial(d):
                ok = True
        if ok:
            nontriv.add(h)
    samples = []
    for case in icases[:2]:
        samples.append({"requests": R.case_requests(case)[:30],
                        "impl_answers": [a for r in case[:12] for a in r.ans][:12]})
    nrec = sum(len(c) for c in icases)
    return dict(mism=mism, cases=len(icases), records=nrec, nontrivial=nontriv, distinct=allh, samples=samples,
                status=status, dist=dist)


# ----------------------------------------------------------------------------------------------
# neighbourhood search: cases on which the implementation already differs from the MODEL (but not
# from the specification) are near misses; their neighbours (small edits of the same input) are a
# far better place to look for a failing input than fresh random inputs

BIN_OPS = ["and", "or", "imp", "iff", "xor"]


def _subterm_end(toks, i):
    """index one past the prefix-notation term that starts at toks[i]"""
    need = 1
    while need > 0 and i < len(toks):
        t = toks[i]
        if t in BIN_OPS:
            need += 1
        elif t == "not":
            pass
        else:
            need -= 1
        i += 1
    return i


def mutate_adf_case(reqs, rnd):
    """one small edit of the acceptance conditions of an adf-family case (prefix notation)"""
    reqs = list(reqs)
    n = 0
    acs = []
    for i, r in enumerate(reqs):
        w = r.split(" ")
        if w[0] == "adf" and len(w) == 2 and w[1].isdigit():
            n = int(w[1])
        elif w[0] == "ac" and len(w) >= 3:
            acs.append(i)
    if not acs or n == 0:
        return None
    for _ in range(rnd.choice([1, 1, 2])):
        i = rnd.choice(acs)
        w = reqs[i].split(" ")
        head, toks = w[:2], w[2:]
        j = rnd.randrange(len(toks))
        kind = rnd.randrange(7)
        if kind == 0:      # another atom
            toks[j:_subterm_end(toks, j)] = [f"a{rnd.randrange(n)}"]
        elif kind == 1 and toks[j] in BIN_OPS:  # another connective
            toks[j] = rnd.choice([o for o in BIN_OPS if o != toks[j]])
        elif kind == 2:    # negate a subterm (or drop a negation)
            if toks[j] == "not":
                del toks[j]
            else:
                toks.insert(j, "not")
        elif kind == 3:    # wrap a subterm into a connective with a literal
            lit = [f"a{rnd.randrange(n)}"] if rnd.random() < 0.6 else ["not", f"a{rnd.randrange(n)}"]
            e = _subterm_end(toks, j)
            sub = toks[j:e]
            toks[j:e] = [rnd.choice(BIN_OPS[:2])] + (sub + lit if rnd.random() < 0.5 else lit + sub)
        elif kind == 4 and toks[j] in BIN_OPS:  # keep one operand only
            a_end = _subterm_end(toks, j + 1)
            b_end = _subterm_end(toks, a_end)
            keep = toks[j + 1:a_end] if rnd.random() < 0.5 else toks[a_end:b_end]
            toks[j:b_end] = keep
        elif kind == 5:    # swap the conditions of two statements
            k = rnd.choice(acs)
            wk = reqs[k].split(" ")
            reqs[k] = " ".join(wk[:2] + toks)
            toks = wk[2:]
        else:              # constant
            toks[j:_subterm_end(toks, j)] = [rnd.choice(["T", "F"])]
        reqs[i] = " ".join(head + toks)
    return reqs


def neighbourhood_search(prop, seeds, known, budget_cases=40000, per_seed=24, rounds=5):
    """seeds: list of (case_reqs, job, fset) on which only the correspondence differs.
    Several generations: edited inputs on which implementation and model STILL differ are the
    seeds of the next generation (the search stays in the region where the changed code runs).
    -> (Mismatch, job, fset) | None, number of cases run"""
    import random
    from concurrent.futures import ThreadPoolExecutor
    rnd = random.Random(20260926)
    ran = 0
    seen = set()
    cur = []
    for reqs, job, fset in seeds:
        if job.family != "adf" or not reqs:
            continue
        key = case_hash(reqs)
        if key not in seen:
            seen.add(key)
            cur.append((reqs, job, fset))
    for gen in range(rounds):
        if not cur or ran >= budget_cases:
            break
        rnd.shuffle(cur)
        room = (budget_cases - ran) // max(1, rounds - gen)
        per = max(6, min(per_seed, room // len(cur)))
        by = {}
        for reqs, job, fset in cur[:max(1, room // per)]:
            for _ in range(per):
                m = mutate_adf_case(reqs, rnd)
                if m is not None:
                    key = case_hash(m)
                    if key not in seen:
                        seen.add(key)
                        by.setdefault((id(job), fset), (job, fset, []))[2].append(m)
        work = []
        for job, fset, muts in by.values():
            for off in range(0, len(muts), 400):
                chunk = muts[off:off + 400]
                text = ""
                for k, m in enumerate(chunk):
                    text += "\n".join([f"case nb-{gen}-{off + k}"] + [r for r in m if not r.startswith("case ")]) + "\n"
                work.append((job, fset, text))

        def one(w):
            job, fset, text = w
            return job, fset, run_requests(prop, job, R.harness_path(fset), text, job.timeout)

        with ThreadPoolExecutor(max_workers=PAR) as ex:
            outs = list(ex.map(one, work))
        nxt = []
        for job, fset, res in outs:
            ran += res["cases"]
            bad = lambda m: "bad-request" in str(m.impl) + str(m.model)
            pm = [m for m in res["mism"] if m.kind in ("prop", "hang", "crash") and not bad(m)
                  and not R.match_known(prop, m, known)]
            if pm:
                return (pm[0], job, fset), ran
            nxt += [(m.case_reqs, job, fset) for m in res["mism"] if m.kind == "corr" and not bad(m)]
        R.log(f"  neighbourhood generation {gen}: {ran} cases so far, {len(nxt)} still differ from the model")
        cur = nxt
    return None, ran


def check_property(prop, tier, seed):
    t0 = time.time()
    cfg = PROPS[prop]
    known = R.load_known()
    R.log(f"== {prop} tier={tier} seed={seed}")
    # step 1
    proof = R.proof_step(prop, thorough=(tier == "thorough"))
    R.log(f"proof: {proof['discharged']}/{proof['obligations']} obligations discharged, ok={proof['ok']}")
    for f in proof["failures"]:
        R.log("  proof failure: " + f)
    # steps 2+3
    built = set()
    results = []
    build_fail = None
    drift = anchor_drift(prop)
    factor = 4 if (drift and tier == "quick") else 1
    if drift:
        R.log(f"anchor drift: {', '.join(drift)} changed since the models were written" + (" - quick tier runs 4x the cases" if factor > 1 else ""))
    if any(j.needs_bins for j in cfg["jobs"]):
        ok, err = R.build_repo_bins()
        if not ok:
            build_fail = "adf-bdd / adf-bdd-server do not build from the current tree: " + err[-1500:]
    for job in cfg["jobs"]:
        if build_fail:
            break
        for fset in (job.fsets if tier == "quick" else job.fsets_thorough):
            if fset not in built:
                ok, err = R.build_harness(fset)
                if not ok:
                    build_fail = f"harness build failed for feature set {fset}: {err[-1500:]}"
                    break
                built.add(fset)
            res = run_job(prop, job, tier, seed, fset, factor=factor)
            res["job"] = job
            res["fset"] = fset
            results.append(res)
            R.log(f"job {job.label}[{fset}]: cases={res['cases']} records={res['records']} nontrivial={len(res['nontrivial'])} "
                  f"mismatches={len(res['mism'])} status={res['status']}")
        if build_fail:
            break
    extra = cfg.get("extra")
    extra_res = None
    if extra and not build_fail:
        extra_res = extra(prop, tier, seed)
        R.log(f"extra: {extra_res.get('summary', '')}")
    verdict = decide(prop, tier, seed, cfg, proof, results, build_fail, known, extra_res, t0)
    return verdict


def decide(prop, tier, seed, cfg, proof, results, build_fail, known, extra_res, t0):
    violations = []  # (replay_path, suffix)
    known_lines = []
    nrep = 0
    prop_mism = []
    corr_mism = []
    for res in results:
        for m in res["mism"]:
            m.job = res["job"]
            m.fset = res["fset"]
            if m.kind in ("prop", "hang", "crash"):
                prop_mism.append(m)
            else:
                corr_mism.append(m)
    if extra_res:
        for m in extra_res.get("prop_mism", []):
            prop_mism.append(m)
        for m in extra_res.get("corr_mism", []):
            corr_mism.append(m)
    # property failures: shrink, match known findings, report
    seen_known = set()
    reported = 0
    for m in prop_mism:
        harness = R.harness_path(getattr(m, "fset", "default"))
        job = getattr(m, "job", None)
        shr = m
        reqs = m.case_reqs
        kf0 = R.match_known(prop, m, known)
        if kf0:
            # a recorded finding needs no shrinking
            if kf0["id"] not in seen_known:
                seen_known.add(kf0["id"])
                known_lines.append(f"KNOWN-FINDING: property={prop} {kf0['id']}: {kf0['what']}")
            continue
        if job is not None and m.kind in ("prop",) and reported < 3:
            try:
                reqs, shr = R.shrink(harness, m, job.relevant)
            except Exception as e:  # shrinking is best effort
                R.log(f"shrink failed: {e}")
        kf = R.match_known(prop, shr, known) or R.match_known(prop, m, known)
        if kf:
            if kf["id"] not in seen_known:
                seen_known.add(kf["id"])
                known_lines.append(f"KNOWN-FINDING: property={prop} {kf['id']}: {kf['what']}")
            continue
        if reported >= 3:
            continue
        reported += 1
        nrep += 1
        path = R.write_replay(prop, seed, nrep, {
            "property": prop, "kind": "input", "failure": shr.kind, "seed": seed, "tier": tier,
            "feature_set": getattr(m, "fset", "default"),
            "stream": reqs, "failing_request": shr.req, "impl": shr.impl, "spec_or_model": shr.model,
            "theorem": None, "how_to_replay": f"./check {prop} --replay <this file>"})
        violations.append((path, ""))
        R.log("  property failure: " + shr.brief())
    if build_fail:
        nrep += 1
        path = R.write_replay(prop, seed, nrep, {"property": prop, "kind": "no-failing-input-found", "seed": seed,
                                                 "tier": tier, "correspondence": "harness does not build against the current tree",
                                                 "detail": build_fail})
        violations.append((path, " no-failing-input-found"))
    ext_info = None
    if not violations and not build_fail and (not proof["ok"] or corr_mism):
        # extended search on the implementation against the specification
        R.log("proof or correspondence broken, property oracle clean: extended search for a failing input")
        found = None
        ext_cases = 0
        near = [(m.case_reqs, m.job, m.fset) for m in corr_mism if getattr(m, "job", None) is not None]
        for res in results:
            job = res["job"]
            for k in range(1, 4):
                r2 = run_job(prop, job, tier, seed * 1000 + 17 * k, res["fset"], factor=7, extended=True)
                ext_cases += r2["cases"]
                pm = [m for m in r2["mism"] if m.kind in ("prop", "hang", "crash")]
                pm = [m for m in pm if not R.match_known(prop, m, known)]
                near += [(m.case_reqs, job, res["fset"]) for m in r2["mism"] if m.kind == "corr"]
                if pm:
                    found = (pm[0], job, res["fset"])
                    break
            if found:
                break
        nb_cases = 0
        found_by = "extended search after a broken proof/correspondence"
        if not found and near:
            R.log(f"extended search found nothing; neighbourhood search around {len(near)} cases on which the correspondence differs")
            found, nb_cases = neighbourhood_search(prop, near, known)
            if found:
                found_by = "neighbourhood search (small edits of inputs on which implementation and model differ)"
        ext_info = {"extended_cases": ext_cases, "neighbourhood_cases": nb_cases, "found": bool(found)}
        if found:
            m, job, fset = found
            m.fset = fset
            reqs, shr = m.case_reqs, m
            if m.kind == "prop":
                try:
                    reqs, shr = R.shrink(R.harness_path(fset), m, job.relevant)
                except Exception as e:
                    R.log(f"shrink failed: {e}")
            nrep += 1
            path = R.write_replay(prop, seed, nrep, {
                "property": prop, "kind": "input", "failure": shr.kind, "seed": seed, "tier": tier, "feature_set": fset,
                "stream": reqs, "failing_request": shr.req, "impl": shr.impl, "spec_or_model": shr.model,
                "found_by": found_by,
                "how_to_replay": f"./check {prop} --replay <this file>"})
            violations.append((path, ""))
        else:
            first = corr_mism[0] if corr_mism else None
            shr_reqs = first.case_reqs if first else None
            if first is not None and getattr(first, "job", None) is not None and first.kind == "corr":
                try:
                    shr_reqs, first2 = R.shrink(R.harness_path(first.fset), first, first.job.relevant)
                    first = first2 or first
                except Exception as e:
                    R.log(f"shrink failed: {e}")
            nrep += 1
            path = R.write_replay(prop, seed, nrep, {
                "property": prop, "kind": "no-failing-input-found", "seed": seed, "tier": tier,
                "theorems_not_checking": proof["failures"],
                "correspondence": None if first is None else {
                    "what": "implementation and algorithmic Lean model differ (no specification failure found)",
                    "kind": first.kind, "first_differing_request": first.req, "impl": first.impl, "model": first.model,
                    "stream": shr_reqs, "differences_total": len(corr_mism)},
                "extended_search": ext_info,
                "how_to_replay": f"./check {prop} --replay <this file>"})
            violations.append((path, " no-failing-input-found"))
            if first is not None:
                R.log("  correspondence differs: " + first.brief())
    # evidence
    evaluations = sum(r["cases"] for r in results) + (extra_res or {}).get("evaluations", 0)
    nontriv = set()
    for r in results:
        nontriv |= {(r["job"].label, r["fset"], h) for h in r["nontrivial"]}
    distinct_nontrivial = len(nontriv) + (extra_res or {}).get("distinct_nontrivial", 0)
    samples = []
    for r in results:
        samples += r["samples"][:1]
    if extra_res:
        samples += extra_res.get("samples", [])[:2]
    dist = {}
    for r in results:
        for k, v in r["dist"].items():
            dist[k] = dist.get(k, 0) + v
    coverage = {
        "obligations": proof["obligations"],
        "discharged": proof["discharged"],
        "checker_cmd": proof["checker_cmd"],
        "trusted_base": TRUSTED_COMMON + cfg.get("trusted", []),
        "theorems": sorted(proof["axioms"].keys()),
        "axioms_used": sorted({a for v in proof["axioms"].values() for a in v}),
        "axioms_per_theorem": {k: v for k, v in sorted(proof["axioms"].items())},
        "proof_failures": proof["failures"],
        "evaluations": evaluations,
        "distinct_nontrivial": distinct_nontrivial,
        "rule": cfg["rule"],
        "samples": samples[:4],
        "protocol_records": sum(r["records"] for r in results),
        "feature_sets": sorted({r["fset"] for r in results}),
        "correspondence_differences": len(corr_mism),
        "property_oracle_failures": len(prop_mism),
        "known_findings_reproduced": sorted(seen_known),
        "distribution": dict(sorted(dist.items())[:60]),
        "anchor_drift": anchor_drift(prop),
    }
    if extra_res:
        coverage["extra"] = extra_res.get("coverage", {})
    if ext_info:
        coverage["extended_search"] = ext_info
    ev = {
        "property_id": prop, "tier": tier, "seed": seed, "level": cfg.get("level", "proof"),
        "coverage": coverage,
        "assumptions": cfg.get("assumptions", []),
        "wall_s": round(time.time() - t0, 2),
        "violations": len(violations),
    }
    R.write_evidence(prop, ev)
    for kl in known_lines:
        print(kl, flush=True)
    for path, suffix in violations:
        print(f"VIOLATION property={prop} replay={path}{suffix}", flush=True)
    R.log(f"== {prop}: {'FAIL' if violations else 'ok'} in {ev['wall_s']} s "
          f"(proof {proof['discharged']}/{proof['obligations']}, cases {evaluations}, non-trivial {distinct_nontrivial}, "
          f"corr-diff {len(corr_mism)}, prop-fail {len(prop_mism)})")
    return 1 if violations else 0


def replay(prop, path):
    data = json.load(open(path))
    if PROPS[prop].get("replay"):
        return PROPS[prop]["replay"](prop, data)
    fset = data.get("feature_set", "default")
    ok, err = R.build_harness(fset)
    if not ok:
        print("harness build failed:", err)
        return 1
    R.lake_build(["driver"])
    stream = data.get("stream") or (data.get("correspondence") or {}).get("stream")
    if not stream:
        print(json.dumps(data, indent=1))
        print("(no request stream recorded: the replay names the theorem / correspondence that no longer checks)")
        return 1
    impl, status = R.run_exec(R.harness_path(fset), "\n".join(stream) + "\n", 120)
    model, _ = R.run_driver(impl)
    mism, _, _ = R.compare(impl, model, None)
    print("--- implementation stream (status %s)" % status)
    print(impl)
    print("--- model / specification stream")
    print(model)
    for m in mism:
        print("DIFF " + m.brief())
    return 1 if (mism or status != "ok") else 0


def setup():
    t0 = time.time()
    props = sorted(f[:-5] for f in os.listdir(os.path.join(R.LEAN, "AdfObdd", "Props")) if f.endswith(".lean"))
    ok, out = R.lake_build(["driver", "AdfObdd"] + [f"AdfObdd.Props.{p}" for p in props])
    if not ok:
        print(out[-3000:])
        return 1
    R.log(f"lake build ok ({time.time() - t0:.0f} s)")
    for fset in ("default", "none", "all", "default-oc"):
        ok, err = R.build_harness(fset)
        if not ok:
            print(err)
            return 1
    R.log(f"harness built ({time.time() - t0:.0f} s)")
    ok, err = R.build_repo_bins()
    if not ok:
        print(err)
        return 1
    R.log(f"adf-bdd and adf-bdd-server built ({time.time() - t0:.0f} s)")
    ok, err, _ = webchecks.web_build_server()
    if not ok:
        print(err)
        return 1
    R.log(f"adf-bdd-server with optimised dependencies built ({time.time() - t0:.0f} s)")
    R.run(["cargo", "build", "--offline", "-p", "adf-bdd-bin", "--no-default-features", "--features", "variablelist"],
          cwd=R.REPO, env={"CARGO_TARGET_DIR": os.path.join(R.TARGET, "repo-vl")}, timeout=3600)
    return 0


def main(argv):
    if not argv:
        print(__doc__)
        return 2
    if argv[0] == "setup":
        sys.exit(setup())
    if argv[0] == "anchors":
        write_anchors()
        sys.exit(0)
    prop = argv[0]
    tier = os.environ.get("VERIF_TIER", "quick")
    seed = int(os.environ.get("VERIF_SEED", "1"))
    i = 1
    rep = None
    while i < len(argv):
        if argv[i] == "--tier":
            tier = argv[i + 1]
            i += 2
        elif argv[i] == "--seed":
            seed = int(argv[i + 1])
            i += 2
        elif argv[i] == "--replay":
            rep = argv[i + 1]
            i += 2
        else:
            i += 1
    if prop not in PROPS:
        print(f"unknown property {prop}")
        sys.exit(2)
    if rep:
        sys.exit(replay(prop, rep))
    sys.exit(check_property(prop, tier, seed))
