"""Per-property configuration and the generic check procedure (DESIGN.md §2.3)."""
import hashlib
import json
import os
import re
import sys
import time

import runner as R

OPS = ("var", "const", "not", "and", "or", "imp", "iff", "xor", "restrict")


def heads(*hs):
    s = set(hs)
    return lambda req: req.split(" ")[0] in s


class Job:
    def __init__(self, family, quick, thorough, size=0, extra=(), fsets=("default",), fsets_thorough=None,
                 relevant=None, nontrivial=None, timeout=600, label=None, size_thorough=None):
        self.family = family
        self.quick = quick
        self.thorough = thorough
        self.size = size
        self.size_thorough = size_thorough if size_thorough is not None else size
        self.extra = list(extra)
        self.fsets = list(fsets)
        self.fsets_thorough = list(fsets_thorough) if fsets_thorough else list(fsets)
        self.relevant = relevant
        self.nontrivial = nontrivial or (lambda st: True)
        self.timeout = timeout
        self.label = label or family


def stat_dict(line):
    d = {}
    for w in line.split(" ")[1:]:
        if "=" in w:
            k, v = w.split("=", 1)
            d[k] = v
    return d


def nt_bdd(st):
    return int(st.get("nodes", 0)) >= 3


TRUSTED_COMMON = [
    "Lean 4.33.0 kernel; axioms per theorem as reported by #print axioms, all within {propext, Classical.choice, Quot.sound}",
    "Lean compiler/runtime executing the model definitions in the driver (Std.HashMap implementation w.r.t. its verified lemmas)",
    "correspondence check: Rust harness (generators, canonicalisation), line protocol, runner diff - differential testing bounded by the generators",
    "rustc/cargo; usize modelled as Nat (no overflow), HashMap/HashSet/RoaringBitmap modelled as abstract maps/sets",
]

PROPS = {}

PROPS["C06"] = dict(
    level_text="Machine-checked proof (Lean 4) that every sequence of diagram-building operations from the fresh store - and the node-list rebuild and the bridge replay from any "
               "well-formed store - keeps the node table reduced, ordered and duplicate free, that on such a table two handles are equal iff they denote the same Boolean "
               "function, and that a formula gets the top/bottom handle iff it is valid/unsatisfiable (C06.table_wf_reachable, same_handle_iff_same_function, const_iff, "
               "rebuild_same_table, bridge_wf). The model is the efficient store with unique table and both memo tables; it is tied to the code by a correspondence run "
               "(handles and complete node tables identical) and by a VERIFIED CHECKER (wfCheck, C06.checker_sound / checked_table_canonical) that is executed on the real "
               "dumped node table of every explored sequence, so canonicity is established for those real tables, not only for the model.",
    level_note="Trusted: Lean kernel + axioms {propext, Classical.choice, Quot.sound}; the hand-written model's tie to obdd.rs is differential (generated operation sequences, <= 7 variables); "
               "usize as Nat; HashMap as abstract map; calling the public Bdd::node with unordered children is a stated precondition.",
    technique="Lean 4 proof (invariant by induction over operation sequences, canonicity by strong induction) + correspondence check + verified table checker on real dumps",
    jobs=[Job("bdd", 1500, 60000, size=6, size_thorough=7,
              relevant=heads(*OPS, "dump", "wfcheck", "classes", "alltt"), nontrivial=nt_bdd)],
    rule="random operation sequences (3-45 ops over 2-6 variables: var/const/not/and/or/imp/iff/xor/restrict on earlier results) on one shared Bdd; "
         "after each sequence the real node table is dumped and checked by the verified wfCheck, handle equality of ALL issued handles is compared with "
         "truth-table equality, and the table is compared index by index with the model's; non-trivial = distinct sequence creating >= 3 inner nodes",
    assumptions=["Bdd::node called directly with unordered children is outside 'diagram-building operations' (precondition)",
                 "tie to the code explored for <= 7 variables, <= 45 operations per sequence"],
)
PROPS["C07"] = dict(
    level_text="Machine-checked refinement proof (Lean 4): for every operation sequence from any well-formed store with any sound memo contents, each returned handle denotes the "
               "named Boolean function of the operands' functions (restriction = cofactor) and no earlier handle changes its function (C07.op_correct, old_handles_unchanged, "
               "sequence_correct, sequence_correct_from). Tie to the code: the same operation sequences are run on the real Bdd; handles/node tables must equal the model's and the "
               "truth table read off the REAL node table after every operation must equal the specification's truth table computed without diagrams.",
    level_note="Trusted: Lean kernel + standard axioms; model-to-code tie is differential testing over generated sequences (<= 7 variables, <= 45 operations); usize as Nat.",
    technique="Lean 4 proof (refinement of an abstract Boolean-function spec by the memoised ite/restrict store) + correspondence check",
    jobs=[Job("bdd", 1500, 60000, size=6, size_thorough=7,
              relevant=heads(*OPS, "alltt", "dump"), nontrivial=nt_bdd)],
    rule="same sequences as C06; after every operation the truth table obtained by walking the REAL node table from the returned handle is compared with the "
         "specification's truth table (TT layer, independent of diagrams) and the handle with the proved model's handle; at the end every earlier handle is re-evaluated; "
         "non-trivial = distinct sequence creating >= 3 inner nodes",
    assumptions=["tie to the code explored for <= 7 variables"],
)
PROPS["C13"] = dict(
    level_text="Machine-checked proofs (Lean 4) about the models of modelcount_naive / var_dependencies / Bdd::interpretations / the impact measures on the proved store: "
               "models(t)*2^|vs| = #sat*2^depth (C13.models_exact_ratio), dependency set = essential variables (deps_are_essential), impact measures count exactly those "
               "(passive_counts_dependents, active_counts_dependencies), path cubes sound / covering where the goal variable has the goal value / pairwise disjoint, none for "
               "terminals (cubes_*), more_models iff models >= counter-models (repaired D4). Tie to the code: every issued handle of generated operation sequences is queried on "
               "the real Bdd (paths naive+memo, models naive+memo, depth, dependencies, impacts, cubes) and compared with the model's answers and with a specification computed "
               "from truth tables alone (satisfying-assignment counts, canonical-diagram path counts and depth, essential variables, cube clause by enumeration of all assignments).",
    level_note="Trusted: Lean kernel + standard axioms (Counts.lean imports Mathlib.Tactic.Ring for one arithmetic lemma); usize modelled as Nat (depth <= 63 in the tie); "
               "path-count and depth clauses are compared with an executable truth-table specification (not yet a theorem: counter-model ratio, paths and depth theorems are the next extension); "
               "correspondence is differential over generated sequences (<= 7 variables).",
    technique="Lean 4 proof (induction on the diagram, Shannon counting) + correspondence check against model and truth-table specification",
    jobs=[Job("bdd", 1500, 60000, size=6, size_thorough=7,
              relevant=heads("q", "cubes", "cubecheck", "impact"), nontrivial=nt_bdd)],
    rule="operation sequences as for C06; for EVERY issued handle: paths/models (naive and memoised), depth, dependencies, more_models; path cubes for random (goal, goal variable); "
         "impact measures on random handle lists; each answer compared with the Lean model (exact) and with the truth-table specification; non-trivial = distinct sequence with >= 3 inner nodes",
    assumptions=["depth <= 63 (usize arithmetic) for the tie", "terminal diagrams have no cube (reading fixed in DESIGN.md section 5)"],
)


# ----------------------------------------------------------------------------------------------

def case_hash(reqs):
    return hashlib.sha1("\n".join(reqs[1:]).encode()).hexdigest()[:16]


def run_job(prop, job, tier, seed, fset, factor=1):
    """-> dict(mism, cases, evaluations, nontrivial_hashes, samples, status, dist)"""
    harness = R.harness_path(fset)
    cases = (job.quick if tier == "quick" else job.thorough) * factor
    size = job.size if tier == "quick" else job.size_thorough
    rc, reqs, err = R.run([harness, "gen", job.family, str(seed), str(cases), str(size)] + job.extra, timeout=600)
    if rc != 0:
        raise RuntimeError("generator failed: " + err[-500:])
    # corpus of minimised past failures first
    corpus = ""
    cdir = os.path.join(R.VERIF, "corpus", prop)
    if os.path.isdir(cdir) and factor == 1:
        for f in sorted(os.listdir(cdir)):
            if f.endswith(".case"):
                corpus += open(os.path.join(cdir, f)).read().rstrip("\n") + "\n"
    return run_requests(prop, job, harness, corpus + reqs, job.timeout * (3 if tier == "thorough" else 1) * factor)


def run_requests(prop, job, harness, reqs, timeout):
    impl, status = R.run_exec(harness, reqs, timeout)
    model, mrc = R.run_driver(impl)
    mism, icases, istats = R.compare(impl, model, job.relevant)
    if status != "ok":
        # the implementation hung or died: the last request it echoed is the failing input
        last_case = icases[-1] if icases else []
        reqs_l = R.case_requests(last_case)
        lastreq = last_case[-1].req if last_case else "?"
        mism.insert(0, R.Mismatch("hang" if status == "timeout" else "crash", len(icases) - 1, len(last_case) - 1,
                                  lastreq, status, "terminates", reqs_l))
    if mrc != 0:
        mism.insert(0, R.Mismatch("struct", 0, 0, "driver", "driver exit %d" % mrc, "", []))
    nontriv = set()
    dist = {}
    allh = set()
    for case, st in zip(icases, istats):
        h = case_hash(R.case_requests(case))
        allh.add(h)
        ok = False
        for line in st:
            d = stat_dict(line)
            for k, v in d.items():
                key = f"{k}={v}" if not v.isdigit() or int(v) < 10 else f"{k}>=10"
                dist[key] = dist.get(key, 0) + 1
            if job.nontrivial(d):
                ok = True
        if ok:
            nontriv.add(h)
    samples = []
    for case in icases[:2]:
        samples.append({"requests": R.case_requests(case)[:30],
                        "impl_answers": [a for r in case[:12] for a in r.ans][:12]})
    nrec = sum(len(c) for c in icases)
    return dict(mism=mism, cases=len(icases), records=nrec, nontrivial=nontriv, distinct=allh, samples=samples,
                status=status, dist=dist)


def check_property(prop, tier, seed):
    t0 = time.time()
    cfg = PROPS[prop]
    known = R.load_known()
    R.log(f"== {prop} tier={tier} seed={seed}")
    # step 1
    proof = R.proof_step(prop, thorough=(tier == "thorough"))
    R.log(f"proof: {proof['discharged']}/{proof['obligations']} obligations discharged, ok={proof['ok']}")
    for f in proof["failures"]:
        R.log("  proof failure: " + f)
    # steps 2+3
    built = set()
    results = []
    build_fail = None
    for job in cfg["jobs"]:
        for fset in (job.fsets if tier == "quick" else job.fsets_thorough):
            if fset not in built:
                ok, err = R.build_harness(fset)
                if not ok:
                    build_fail = f"harness build failed for feature set {fset}: {err[-1500:]}"
                    break
                built.add(fset)
            res = run_job(prop, job, tier, seed, fset)
            res["job"] = job
            res["fset"] = fset
            results.append(res)
            R.log(f"job {job.label}[{fset}]: cases={res['cases']} records={res['records']} nontrivial={len(res['nontrivial'])} "
                  f"mismatches={len(res['mism'])} status={res['status']}")
        if build_fail:
            break
    extra = cfg.get("extra")
    extra_res = None
    if extra and not build_fail:
        extra_res = extra(prop, tier, seed)
        R.log(f"extra: {extra_res.get('summary', '')}")
    verdict = decide(prop, tier, seed, cfg, proof, results, build_fail, known, extra_res, t0)
    return verdict


def decide(prop, tier, seed, cfg, proof, results, build_fail, known, extra_res, t0):
    violations = []  # (replay_path, suffix)
    known_lines = []
    nrep = 0
    prop_mism = []
    corr_mism = []
    for res in results:
        for m in res["mism"]:
            m.job = res["job"]
            m.fset = res["fset"]
            if m.kind in ("prop", "hang", "crash"):
                prop_mism.append(m)
            else:
                corr_mism.append(m)
    if extra_res:
        for m in extra_res.get("prop_mism", []):
            prop_mism.append(m)
        for m in extra_res.get("corr_mism", []):
            corr_mism.append(m)
    # property failures: shrink, match known findings, report
    seen_known = set()
    reported = 0
    for m in prop_mism:
        harness = R.harness_path(getattr(m, "fset", "default"))
        job = getattr(m, "job", None)
        shr = m
        reqs = m.case_reqs
        if job is not None and m.kind in ("prop",) and reported < 3:
            try:
                reqs, shr = R.shrink(harness, m, job.relevant)
            except Exception as e:  # shrinking is best effort
                R.log(f"shrink failed: {e}")
        kf = R.match_known(prop, shr, known) or R.match_known(prop, m, known)
        if kf:
            if kf["id"] not in seen_known:
                seen_known.add(kf["id"])
                known_lines.append(f"KNOWN-FINDING: property={prop} {kf['id']}: {kf['what']}")
            continue
        if reported >= 3:
            continue
        reported += 1
        nrep += 1
        path = R.write_replay(prop, seed, nrep, {
            "property": prop, "kind": "input", "failure": shr.kind, "seed": seed, "tier": tier,
            "feature_set": getattr(m, "fset", "default"),
            "stream": reqs, "failing_request": shr.req, "impl": shr.impl, "spec_or_model": shr.model,
            "theorem": None, "how_to_replay": f"./check {prop} --replay <this file>"})
        violations.append((path, ""))
        R.log("  property failure: " + shr.brief())
    if build_fail:
        nrep += 1
        path = R.write_replay(prop, seed, nrep, {"property": prop, "kind": "no-failing-input-found", "seed": seed,
                                                 "tier": tier, "correspondence": "harness does not build against the current tree",
                                                 "detail": build_fail})
        violations.append((path, " no-failing-input-found"))
    ext_info = None
    if not violations and not build_fail and (not proof["ok"] or corr_mism):
        # extended search on the implementation against the specification
        R.log("proof or correspondence broken, property oracle clean: extended search for a failing input")
        found = None
        ext_cases = 0
        for res in results:
            job = res["job"]
            for k in range(1, 4):
                r2 = run_job(prop, job, tier, seed * 1000 + 17 * k, res["fset"], factor=7)
                ext_cases += r2["cases"]
                pm = [m for m in r2["mism"] if m.kind in ("prop", "hang", "crash")]
                pm = [m for m in pm if not R.match_known(prop, m, known)]
                if pm:
                    found = (pm[0], job, res["fset"])
                    break
            if found:
                break
        ext_info = {"extended_cases": ext_cases, "found": bool(found)}
        if found:
            m, job, fset = found
            m.fset = fset
            reqs, shr = m.case_reqs, m
            if m.kind == "prop":
                try:
                    reqs, shr = R.shrink(R.harness_path(fset), m, job.relevant)
                except Exception as e:
                    R.log(f"shrink failed: {e}")
            nrep += 1
            path = R.write_replay(prop, seed, nrep, {
                "property": prop, "kind": "input", "failure": shr.kind, "seed": seed, "tier": tier, "feature_set": fset,
                "stream": reqs, "failing_request": shr.req, "impl": shr.impl, "spec_or_model": shr.model,
                "found_by": "extended search after a broken proof/correspondence",
                "how_to_replay": f"./check {prop} --replay <this file>"})
            violations.append((path, ""))
        else:
            first = corr_mism[0] if corr_mism else None
            shr_reqs = first.case_reqs if first else None
            if first is not None and getattr(first, "job", None) is not None and first.kind == "corr":
                try:
                    shr_reqs, first2 = R.shrink(R.harness_path(first.fset), first, first.job.relevant)
                    first = first2 or first
                except Exception as e:
                    R.log(f"shrink failed: {e}")
            nrep += 1
            path = R.write_replay(prop, seed, nrep, {
                "property": prop, "kind": "no-failing-input-found", "seed": seed, "tier": tier,
                "theorems_not_checking": proof["failures"],
                "correspondence": None if first is None else {
                    "what": "implementation and algorithmic Lean model differ (no specification failure found)",
                    "kind": first.kind, "first_differing_request": first.req, "impl": first.impl, "model": first.model,
                    "stream": shr_reqs, "differences_total": len(corr_mism)},
                "extended_search": ext_info,
                "how_to_replay": f"./check {prop} --replay <this file>"})
            violations.append((path, " no-failing-input-found"))
            if first is not None:
                R.log("  correspondence differs: " + first.brief())
    # evidence
    evaluations = sum(r["cases"] for r in results) + (extra_res or {}).get("evaluations", 0)
    nontriv = set()
    for r in results:
        nontriv |= {(r["job"].label, h) for h in r["nontrivial"]}
    distinct_nontrivial = len(nontriv) + (extra_res or {}).get("distinct_nontrivial", 0)
    samples = []
    for r in results:
        samples += r["samples"][:1]
    if extra_res:
        samples += extra_res.get("samples", [])[:2]
    dist = {}
    for r in results:
        for k, v in r["dist"].items():
            dist[k] = dist.get(k, 0) + v
    coverage = {
        "obligations": proof["obligations"],
        "discharged": proof["discharged"],
        "checker_cmd": proof["checker_cmd"],
        "trusted_base": TRUSTED_COMMON + cfg.get("trusted", []),
        "theorems": sorted(proof["axioms"].keys()),
        "axioms_used": sorted({a for v in proof["axioms"].values() for a in v}),
        "proof_failures": proof["failures"],
        "evaluations": evaluations,
        "distinct_nontrivial": distinct_nontrivial,
        "rule": cfg["rule"],
        "samples": samples[:4],
        "protocol_records": sum(r["records"] for r in results),
        "feature_sets": sorted({r["fset"] for r in results}),
        "correspondence_differences": len(corr_mism),
        "property_oracle_failures": len(prop_mism),
        "known_findings_reproduced": sorted(seen_known),
        "distribution": dict(sorted(dist.items())[:60]),
    }
    if extra_res:
        coverage["extra"] = extra_res.get("coverage", {})
    if ext_info:
        coverage["extended_search"] = ext_info
    ev = {
        "property_id": prop, "tier": tier, "seed": seed, "level": cfg.get("level", "proof"),
        "coverage": coverage,
        "assumptions": cfg.get("assumptions", []),
        "wall_s": round(time.time() - t0, 2),
        "violations": len(violations),
    }
    R.write_evidence(prop, ev)
    for kl in known_lines:
        print(kl, flush=True)
    for path, suffix in violations:
        print(f"VIOLATION property={prop} replay={path}{suffix}", flush=True)
    R.log(f"== {prop}: {'FAIL' if violations else 'ok'} in {ev['wall_s']} s "
          f"(proof {proof['discharged']}/{proof['obligations']}, cases {evaluations}, non-trivial {distinct_nontrivial}, "
          f"corr-diff {len(corr_mism)}, prop-fail {len(prop_mism)})")
    return 1 if violations else 0


def replay(prop, path):
    data = json.load(open(path))
    fset = data.get("feature_set", "default")
    ok, err = R.build_harness(fset)
    if not ok:
        print("harness build failed:", err)
        return 1
    R.lake_build(["driver"])
    stream = data.get("stream") or (data.get("correspondence") or {}).get("stream")
    if not stream:
        print(json.dumps(data, indent=1))
        print("(no request stream recorded: the replay names the theorem / correspondence that no longer checks)")
        return 1
    impl, status = R.run_exec(R.harness_path(fset), "\n".join(stream) + "\n", 120)
    model, _ = R.run_driver(impl)
    mism, _, _ = R.compare(impl, model, None)
    print("--- implementation stream (status %s)" % status)
    print(impl)
    print("--- model / specification stream")
    print(model)
    for m in mism:
        print("DIFF " + m.brief())
    return 1 if (mism or status != "ok") else 0


def setup():
    t0 = time.time()
    ok, out = R.lake_build(["AdfObdd", "driver"])
    if not ok:
        print(out[-3000:])
        return 1
    R.log(f"lake build ok ({time.time() - t0:.0f} s)")
    for fset in ("default",):
        ok, err = R.build_harness(fset)
        if not ok:
            print(err)
            return 1
    R.log(f"harness built ({time.time() - t0:.0f} s)")
    return 0


def main(argv):
    if not argv:
        print(__doc__)
        return 2
    if argv[0] == "setup":
        sys.exit(setup())
    prop = argv[0]
    tier = os.environ.get("VERIF_TIER", "quick")
    seed = int(os.environ.get("VERIF_SEED", "1"))
    i = 1
    rep = None
    while i < len(argv):
        if argv[i] == "--tier":
            tier = argv[i + 1]
            i += 2
        elif argv[i] == "--seed":
            seed = int(argv[i + 1])
            i += 2
        elif argv[i] == "--replay":
            rep = argv[i + 1]
            i += 2
        else:
            i += 1
    if prop not in PROPS:
        print(f"unknown property {prop}")
        sys.exit(2)
    if rep:
        sys.exit(replay(prop, rep))
    sys.exit(check_property(prop, tier, seed))
