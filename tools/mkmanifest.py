#!/usr/bin/env python3
"""Regenerates MANIFEST.json from tools/checks.py (claimed properties) and tools/not_applicable.json."""
import json, os, sys
sys.path.insert(0, os.path.dirname(os.path.abspath(__file__)))
import checks
V = os.path.dirname(os.path.dirname(os.path.abspath(__file__)))
na = json.load(open(os.path.join(V, "tools", "not_applicable.json")))
ids = [json.loads(l)["id"] for l in open(os.path.join(V, "properties.jsonl")) if l.strip()]
cs = []
for pid in ids:
    if pid not in checks.PROPS:
        continue
    c = checks.PROPS[pid]
    cs.append({
        "property_id": pid,
        "quick_cmd": f"./check {pid} --tier quick",
        "thorough_cmd": f"./check {pid} --tier thorough",
        "evidence_file": f"/verif/evidence/{pid}.json",
        "replay_cmd_template": f"./check {pid} --replay {{path}}",
        "engine": "lean-proof+correspondence",
        "level_claimed": {"category": c.get("level", "proof"), "text": c["level_text"], "design_ref": f"DESIGN.md §7 {pid}"},
        "level_note": c["level_note"],
        "technique": c["technique"],
    })
m = {
    "version": 1,
    "setup_cmd": "./setup.sh",
    "hooks": {
        "guard": "adf_obdd_verif",
        "enable": "RUSTFLAGS=\"--cfg adf_obdd_verif\" (set by the runner when it builds the harness crate against /repo/lib)",
        "baseline_off_cmd": "cd /repo && cargo nextest run --workspace --no-fail-fast --tool-config-file pb:/w/lib/nextest.toml --profile pb --test-threads 8 --offline",
        "source_commits": json.load(open(os.path.join(V, "tools", "hook_commits.json"))),
        "add_only": True,
    },
    "engines": [{
        "name": "lean-proof+correspondence",
        "path": "/verif/lean (theorems, models, driver), /verif/harness (Rust correspondence harness), /verif/tools (runner)",
        "serves_properties": [c["property_id"] for c in cs],
        "kind_free_text": "Lean 4 theorems about hand-written executable models; models tied to /repo's current tree by a differential correspondence run and by verified checkers executed on real program state",
    }],
    "checks": cs,
    "not_applicable": [x for x in na if x["property_id"] not in checks.PROPS],
    "notes": "See DESIGN.md. known_findings.json lists recorded defects and the fix: commits made in /repo.",
}
json.dump(m, open(os.path.join(V, "MANIFEST.json"), "w"), indent=1)
print("claimed:", [c["property_id"] for c in cs])
