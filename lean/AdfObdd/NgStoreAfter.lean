import AdfObdd.NgEndToEnd
/-! # The store a nogood search leaves behind (every bound, halted or not)

Copies of `CliF.iter_store` (CliFaithful.lean) and `CallH.cState_store` (CallHistoryProofs.lean) that depend
on the simulation lemmas of `NgSimulation`/`NgEndToEnd` only.  The originals sit above `Props/C05` in the
import graph (`CliFaithful` imports `Props.C05`); the channel theorem about several searches of one object
(`NgChannelMore`, used by `Props/C05`) needs the fact below `Props/C05`. -/
namespace NConc.After
open NConc NSem

/-- one iteration keeps the store well formed and only extends it -/
theorem iter_store {s0 : Store} {n : Nat} (ac : List Nat) (stable : Bool) (w0 : WF s0)
    (hac0 : ∀ t ∈ ac, t < s0.nodes.size) (hn : ac.length = n) {h : CHeu} (hok : HeuOK h)
    {c : SM.NgS} {a : ASt} (hr : Rel c a) (hi : CInv s0 n c) :
    WF (cIter h n ac stable c).s ∧ Ext s0 (cIter h n ac stable c).s := by
  have ⟨r1, i1⟩ := sim_choice (ac.map (eval s0)) stable (fun _ => conv (h c.s c.cur c.time)) hok 0 hr hi rfl
  unfold cIter
  simp only
  by_cases hd : ((cChoice h c).backtrack && (cChoice h c).stack.isEmpty) = true
  · rw [if_pos hd]; exact ⟨i1.wf, i1.ext⟩
  · rw [if_neg hd]
    have ⟨r3, i3⟩ := sim_back (ac.map (eval s0)) stable (fun _ => conv (h c.s c.cur c.time)) r1 i1
    have ⟨_, i4⟩ := sim_tail ac stable (fun _ => conv (h c.s c.cur c.time)) w0 hac0 hn r3 i3
    exact ⟨i4.wf, i4.ext⟩

theorem cState_store (h : CHeu) (hok : HeuOK h) (s : Store) (n : Nat) (ac : List Nat) (stable : Bool)
    (w0 : WF s) (hac0 : ∀ t ∈ ac, t < s.nodes.size) (hn : ac.length = n) : ∀ k,
    WF (cState h s n ac stable k).s ∧ Ext s (cState h s n ac stable k).s ∧
    ((cState h s n ac stable k).done = true ∨
      ∃ a, Rel (cState h s n ac stable k) a ∧ CInv s n (cState h s n ac stable k)) := by
  intro k
  induction k with
  | zero =>
    have ⟨hrel, hinv, _, _⟩ := init_facts s n ac stable w0 hac0 hn
    exact ⟨hinv.wf, hinv.ext, Or.inr ⟨_, hrel, hinv⟩⟩
  | succ k ih =>
    obtain ⟨wk, ek, hk⟩ := ih
    rcases hk with hd | ⟨a, hr, hi⟩
    · have e : cState h s n ac stable (k + 1) = cState h s n ac stable k := by
        have hd' : (cRun h n ac stable k (initC s n ac)).done = true := hd
        unfold cState; rw [cRun_succ, if_pos hd']
      rw [e]; exact ⟨wk, ek, Or.inl hd⟩
    · have hnext : cState h s n ac stable (k + 1) = cIter h n ac stable (cState h s n ac stable k) := by
        have hnd : (cRun h n ac stable k (initC s n ac)).done = false := hi.nd
        unfold cState
        rw [cRun_succ, hnd]
        simp only [Bool.false_eq_true, if_false]
      have hst := iter_store ac stable w0 hac0 hn hok hr hi
      have hsim := sim_iter ac stable (rawOf h s n ac stable) w0 hac0 hn hok k hr hi rfl
      rw [hnext]
      refine ⟨hst.1, hst.2, ?_⟩
      cases hit : NGen.iter (PP s n ac stable (rawOf h s n ac stable)) k a with
      | done a1 => rw [hit] at hsim; exact Or.inl hsim.1
      | cont a1 => rw [hit] at hsim; exact Or.inr ⟨a1, hsim.1, hsim.2⟩


end NConc.After
