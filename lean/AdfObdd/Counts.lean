import AdfObdd.CountsDef
import Mathlib.Tactic.Ring
/-! prototype 34: model counts stand in the exact ratio of satisfying assignments (C13) -/

/-- Shannon count of the assignments to `vs` (others taken from `base`) that satisfy `f` -/
def sat (f : Asg → Bool) : Asg → List Nat → Nat
  | base, [] => if f base then 1 else 0
  | base, v :: vs => sat f (upd base v true) vs + sat f (upd base v false) vs

theorem sat_indep (f : Asg → Bool) (v : Nat) (hf : ∀ σ b, f (upd σ v b) = f σ) :
    ∀ (vs : List Nat) (base : Asg) (b : Bool), sat f (upd base v b) vs = sat f base vs := by
  intro vs
  induction vs with
  | nil => intro base b; simp [sat, hf]
  | cons w ws ih =>
    intro base b
    simp only [sat]
    by_cases e : w = v
    · subst e
      have : ∀ c, upd (upd base w b) w c = upd base w c := by
        intro c; funext x; simp only [upd]; split <;> rfl
      rw [this, this]
    · rw [upd_comm' base (Ne.symm e) b true, upd_comm' base (Ne.symm e) b false, ih, ih]

/-- on assignments where `v` has value `b` the two functions agree -/
theorem sat_congr_on (f g : Asg → Bool) (v : Nat) (b : Bool) (h : ∀ σ, σ v = b → f σ = g σ) :
    ∀ (vs : List Nat) (base : Asg), v ∉ vs → base v = b → sat f base vs = sat g base vs := by
  intro vs
  induction vs with
  | nil => intro base _ hb; simp [sat, h base hb]
  | cons w ws ih =>
    intro base hv hb
    have hw : w ≠ v := fun e => hv (e ▸ List.mem_cons_self ..)
    have hws : v ∉ ws := fun m => hv (List.mem_cons_of_mem _ m)
    simp only [sat]
    rw [ih _ hws (by rw [upd_other base true (Ne.symm hw)]; exact hb),
        ih _ hws (by rw [upd_other base false (Ne.symm hw)]; exact hb)]

theorem split_arith (ml mh sl sh k dl dh D : Nat) (h1 : ml * 2 ^ k = sl * 2 ^ dl) (h2 : mh * 2 ^ k = sh * 2 ^ dh)
    (hl : dl ≤ D) (hh : dh ≤ D) :
    (ml * 2 ^ (D - dl) + mh * 2 ^ (D - dh)) * 2 ^ (k + 1) = (sh + sl) * 2 ^ (D + 1) := by
  have e1 : 2 ^ D = 2 ^ dl * 2 ^ (D - dl) := by rw [← Nat.pow_add]; congr 1; omega
  have e2 : 2 ^ D = 2 ^ dh * 2 ^ (D - dh) := by rw [← Nat.pow_add]; congr 1; omega
  calc (ml * 2 ^ (D - dl) + mh * 2 ^ (D - dh)) * 2 ^ (k + 1)
      = 2 * ((ml * 2 ^ k) * 2 ^ (D - dl) + (mh * 2 ^ k) * 2 ^ (D - dh)) := by ring
    _ = 2 * ((sl * 2 ^ dl) * 2 ^ (D - dl) + (sh * 2 ^ dh) * 2 ^ (D - dh)) := by rw [h1, h2]
    _ = 2 * (sl * (2 ^ dl * 2 ^ (D - dl)) + sh * (2 ^ dh * 2 ^ (D - dh))) := by ring
    _ = 2 * (sl * 2 ^ D + sh * 2 ^ D) := by rw [← e1, ← e2]
    _ = (sh + sl) * 2 ^ (D + 1) := by ring

theorem sat_true : ∀ (vs : List Nat) (base : Asg), sat (fun _ => true) base vs = 2 ^ vs.length := by
  intro vs
  induction vs with
  | nil => intro _; rfl
  | cons v vs ih => intro base; simp only [sat, ih, List.length_cons, Nat.pow_succ]; omega

theorem sat_false : ∀ (vs : List Nat) (base : Asg), sat (fun _ => false) base vs = 0 := by
  intro vs
  induction vs with
  | nil => intro _; rfl
  | cons v vs ih => intro base; simp only [sat, ih]

theorem sat_ext (f g : Asg → Bool) (h : ∀ σ, f σ = g σ) (base : Asg) (vs : List Nat) : sat f base vs = sat g base vs := by
  have : f = g := funext h
  rw [this]

/-- C13, model-count clause: `models(t) · 2^|vs| = #sat(vs) · 2^depth(t)` for every strictly
ascending variable list `vs` containing the variables of the diagram -/
theorem models_ratio (s : Store) (w : WF s) : ∀ (fuel t : Nat), t < s.nodes.size → t < fuel →
    ∀ (vs : List Nat), vs.Pairwise (· < ·) → (∀ x ∈ depsF s fuel t, x ∈ vs) → ∀ base : Asg,
    (countF s fuel t).2.1 * 2 ^ vs.length = sat (eval s t) base vs * 2 ^ (countF s fuel t).2.2 := by
  intro fuel
  induction fuel with
  | zero => intro t _ h; omega
  | succ f ih =>
    intro t ht hf
    by_cases h1 : t = 1
    · subst h1
      intro vs _ _ base
      have : countF s (f+1) 1 = (0, 1, 0) := by simp [countF]
      rw [this, sat_ext (eval s 1) (fun _ => true) (fun σ => eval_one s σ), sat_true]; simp
    by_cases h0 : t = 0
    · subst h0
      intro vs _ _ base
      have : countF s (f+1) 0 = (1, 0, 0) := by simp [countF]
      rw [this, sat_ext (eval s 0) (fun _ => false) (fun σ => eval_zero s σ), sat_false]; simp
    have ht2 : 2 ≤ t := by omega
    obtain ⟨n, hn⟩ := get_of_lt ht
    have ⟨_, hlo, hhi, _, hvlo, hvhi⟩ := w.inner t n ht2 hn
    have hcount : countF s (f+1) t =
        ((countF s f n.lo).1 * 2 ^ (max (countF s f n.lo).2.2 (countF s f n.hi).2.2 - (countF s f n.lo).2.2) +
           (countF s f n.hi).1 * 2 ^ (max (countF s f n.lo).2.2 (countF s f n.hi).2.2 - (countF s f n.hi).2.2),
         (countF s f n.lo).2.1 * 2 ^ (max (countF s f n.lo).2.2 (countF s f n.hi).2.2 - (countF s f n.lo).2.2) +
           (countF s f n.hi).2.1 * 2 ^ (max (countF s f n.lo).2.2 (countF s f n.hi).2.2 - (countF s f n.hi).2.2),
         max (countF s f n.lo).2.2 (countF s f n.hi).2.2 + 1) := by
      conv => lhs; unfold countF
      simp only [h1, h0, if_false, hn]
    have hdeps : depsF s (f+1) t = n.var :: (depsF s f n.lo ++ depsF s f n.hi) := by
      conv => lhs; unfold depsF
      rw [if_neg (by omega)]; simp only [hn]
    have htop_lo : ∀ x ∈ depsF s f n.lo, n.var < x := by
      intro x hx
      have := depsF_ge s w f n.lo x (by omega) hx
      obtain ⟨m, hm⟩ := get_of_lt (ns := s.nodes) (i := n.lo) (by omega)
      have : topVar s n.lo = m.var := by simp [topVar, hm]
      have := hvlo m hm; omega
    have htop_hi : ∀ x ∈ depsF s f n.hi, n.var < x := by
      intro x hx
      have := depsF_ge s w f n.hi x (by omega) hx
      obtain ⟨m, hm⟩ := get_of_lt (ns := s.nodes) (i := n.hi) (by omega)
      have : topVar s n.hi = m.var := by simp [topVar, hm]
      have := hvhi m hm; omega
    intro vs
    induction vs with
    | nil =>
      intro _ hd _
      have := hd n.var (by rw [hdeps]; exact List.mem_cons_self ..)
      cases this
    | cons x vs' ihvs =>
      intro hsorted hd base
      have ⟨hxall, hs'⟩ := List.pairwise_cons.mp hsorted
      have hvmem : n.var ∈ x :: vs' := hd n.var (by rw [hdeps]; exact List.mem_cons_self ..)
      rcases Nat.lt_trichotomy x n.var with hlt | heq | hgt
      · -- a variable below the diagram: irrelevant, doubles the count
        have hindep : ∀ σ b, eval s t (upd σ x b) = eval s t σ := by
          intro σ b
          apply depsF_indep s w (f+1) t x ht hf
          intro hm
          rw [hdeps] at hm
          rcases List.mem_cons.mp hm with h | h
          · omega
          · rcases List.mem_append.mp h with h | h
            · have := htop_lo x h; omega
            · have := htop_hi x h; omega
        have hd' : ∀ y ∈ depsF s (f+1) t, y ∈ vs' := by
          intro y hy
          rcases List.mem_cons.mp (hd y hy) with h | h
          · exfalso
            subst h
            rw [hdeps] at hy
            rcases List.mem_cons.mp hy with h | h
            · omega
            · rcases List.mem_append.mp h with h | h
              · have := htop_lo y h; omega
              · have := htop_hi y h; omega
          · exact h
        have := ihvs hs' hd' base
        simp only [sat, List.length_cons]
        rw [sat_indep _ x hindep, sat_indep _ x hindep]
        calc (countF s (f+1) t).2.1 * 2 ^ (vs'.length + 1)
            = 2 * ((countF s (f+1) t).2.1 * 2 ^ vs'.length) := by ring
          _ = 2 * (sat (eval s t) base vs' * 2 ^ (countF s (f+1) t).2.2) := by rw [this]
          _ = _ := by ring
      · -- the top variable: split into the children
        subst heq
        have hnotin : n.var ∉ vs' := fun m => by have := hxall _ m; omega
        have hdlo : ∀ y ∈ depsF s f n.lo, y ∈ vs' := by
          intro y hy
          have := htop_lo y hy
          rcases List.mem_cons.mp (hd y (by rw [hdeps]; exact List.mem_cons_of_mem _ (List.mem_append_left _ hy))) with h | h
          · omega
          · exact h
        have hdhi : ∀ y ∈ depsF s f n.hi, y ∈ vs' := by
          intro y hy
          have := htop_hi y hy
          rcases List.mem_cons.mp (hd y (by rw [hdeps]; exact List.mem_cons_of_mem _ (List.mem_append_right _ hy))) with h | h
          · omega
          · exact h
        have rlo := ih n.lo (by omega) (by omega) vs' hs' hdlo (upd base n.var false)
        have rhi := ih n.hi (by omega) (by omega) vs' hs' hdhi (upd base n.var true)
        have ehi : sat (eval s t) (upd base n.var true) vs' = sat (eval s n.hi) (upd base n.var true) vs' :=
          sat_congr_on _ _ n.var true (fun σ hσ => by rw [eval_node s w t n ht2 hn, hσ, if_pos rfl]) vs' _ hnotin (upd_same base n.var true)
        have elo : sat (eval s t) (upd base n.var false) vs' = sat (eval s n.lo) (upd base n.var false) vs' :=
          sat_congr_on _ _ n.var false (fun σ hσ => by rw [eval_node s w t n ht2 hn, hσ]; simp) vs' _ hnotin (upd_same base n.var false)
        simp only [sat, List.length_cons]
        rw [ehi, elo, hcount]
        simp only
        exact split_arith _ _ _ _ _ _ _ _ rlo rhi (Nat.le_max_left _ _) (Nat.le_max_right _ _)
      · -- impossible: the top variable must be listed, and the list is ascending
        exfalso
        rcases List.mem_cons.mp hvmem with h | h
        · omega
        · have := hxall _ h; omega
#print axioms models_ratio
