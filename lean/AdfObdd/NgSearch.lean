import AdfObdd.NoGood
/-! prototype 11: the nogood-learning search (abstract machine with ghost annotations):
    if it halts, it has emitted exactly the target models, each once. -/

inductive Closure where
  | update (r : PA) | noUpdate | inconsistent

/-- everything the search uses but does not define -/
structure Params where
  gam : PA → PA                         -- one propagation step (`update_interpretation`)
  acIncons : PA → Bool                  -- decided value contradicts its restricted condition
  isTarget : PA → Bool                  -- `stability_check` (or `true` in two-valued mode)
  twoVal : PA → Bool
  heu : Nat → PA → Option (Nat × Bool)   -- indexed by the number of choices made so far (an oracle)
  closure : List PA → PA → Closure      -- `conclusion_closure` on the (flattened) store

structure Entry where
  choice : Option (PA × Nat × Bool)     -- ghost: interpretation before the choice, and the choice
  ng : PA

structure St where
  cur : PA
  store : List PA
  stack : List Entry
  backtrack : Bool
  choice : Bool
  out : List PA
  time : Nat := 0

/-- pop entries (learning each as a nogood) down to and including the first choice entry -/
def popLoop : List Entry → List PA → PA → (List Entry × List PA × PA)
  | [], store, cur => ([], store, cur)
  | e :: rest, store, cur =>
    match e.choice with
    | some (h, _, _) => (rest, e.ng :: store, h)
    | none => popLoop rest (e.ng :: store) cur

inductive Res where
  | cont (s : St) | done (s : St)

/-- 1. choice -/
def step1 (P : Params) (s : St) : St :=
  if s.choice then
    match P.heu s.time s.cur with
    | some (v, b) =>
      { s with choice := false, time := s.time + 1, cur := setAt s.cur v b,
               stack := { choice := some (s.cur, v, b), ng := setAt s.cur v b } :: s.stack }
    | none => { s with choice := false, backtrack := true }
  else s

/-- 3. backtrack -/
def step3 (s1 : St) : St :=
  if s1.backtrack then
    let r := popLoop s1.stack s1.store s1.cur
    { s1 with backtrack := false, stack := r.1, store := r.2.1, cur := r.2.2 }
  else s1

/-- 6./7. propagation step and classification of the resulting interpretation -/
def stepFinal (P : Params) (s3 : St) (updNg : Bool) : St :=
  if P.acIncons s3.cur then { s3 with backtrack := true } else
  let cur' := P.gam s3.cur
  let s4 := { s3 with cur := cur' }
  if cur' != s3.cur then s4
  else if updNg then s4
  else if !P.twoVal s4.cur then { s4 with choice := true }
  else if P.isTarget s4.cur then
    { s4 with stack := { choice := none, ng := s4.cur } :: s4.stack, out := s4.cur :: s4.out, backtrack := true }
  else
    { s4 with stack := { choice := none, ng := s4.cur } :: s4.stack, backtrack := true }

/-- 4.–7. -/
def stepTail (P : Params) (s2 : St) : St :=
  match P.closure s2.store s2.cur with
  | Closure.inconsistent => { s2 with backtrack := true }
  | Closure.update r =>
    stepFinal P { s2 with cur := r, stack := { choice := none, ng := r } :: s2.stack } true
  | Closure.noUpdate => stepFinal P s2 false

def iter (P : Params) (s : St) : Res :=
  let s1 := step1 P s
  if s1.backtrack = true ∧ s1.stack = [] then Res.done s1
  else Res.cont (stepTail P (step3 s1))

/-- run with fuel; `none` = fuel exhausted -/
def run (P : Params) : Nat → St → Option St
  | 0, _ => none
  | f+1, s => match iter P s with
    | Res.done s' => some s'
    | Res.cont s' => run P f s'

/-! ### invariants -/

def Unrep (T : Asg → Prop) (out : List PA) (σ : Asg) : Prop := T σ ∧ ∀ o ∈ out, ¬ Matches o σ

inductive Chain (U : Asg → Prop) : PA → List Entry → Prop
  | nil (cur : PA) : Chain U cur []
  | plain (cur C : PA) (rest : List Entry) :
      (∀ σ, U σ → Matches C σ → Matches cur σ) → Chain U C rest → Chain U cur (⟨none, C⟩ :: rest)
  | choice (cur H : PA) (v : Nat) (b : Bool) (rest : List Entry) :
      (∀ σ, U σ → Matches (setAt H v b) σ → Matches cur σ) → pget H v = none → Chain U H rest →
      Chain U cur (⟨some (H, v, b), setAt H v b⟩ :: rest)

def Cover (U : Asg → Prop) (cur : PA) (stack : List Entry) : Prop :=
  ∀ σ, U σ → Matches cur σ ∨
    ∃ e ∈ stack, ∃ H v b, e.choice = some (H, v, b) ∧ Matches H σ ∧ σ v = !b

def AvoidsL (store : List PA) (σ : Asg) : Prop := ∀ g ∈ store, ¬ Matches g σ

structure Sound (T : Asg → Prop) (P : Params) : Prop where
  gam_sound : ∀ A σ, T σ → Matches A σ → Matches (P.gam A) σ
  ac_sound : ∀ A, P.acIncons A = true → ∀ σ, T σ → ¬ Matches A σ
  leaf_pos : ∀ A, P.twoVal A = true → P.acIncons A = false → P.isTarget A = true → ∀ σ, Matches A σ → T σ
  leaf_neg : ∀ A, P.twoVal A = true → P.acIncons A = false → P.isTarget A = false → ∀ σ, Matches A σ → ¬ T σ
  heu_valid : ∀ t A v b, P.heu t A = some (v, b) → pget A v = none
  heu_total : ∀ t A, P.twoVal A = false → (P.heu t A).isSome = true
  cl_upd : ∀ st A R, P.closure st A = Closure.update R → ∀ σ, Matches A σ → AvoidsL st σ → Matches R σ
  cl_inc : ∀ st A, P.closure st A = Closure.inconsistent → ∀ σ, Matches A σ → ¬ AvoidsL st σ
  cl_no : ∀ st A, P.closure st A = Closure.noUpdate → ∀ g ∈ st, g ≠ A

structure SInv (T : Asg → Prop) (P : Params) (s : St) : Prop where
  chain : Chain (Unrep T s.out) s.cur s.stack
  cover : Cover (Unrep T s.out) s.cur s.stack
  storeOK : ∀ σ, Unrep T s.out σ → AvoidsL s.store σ
  dead : s.backtrack = true → ∀ σ, Unrep T s.out σ → ¬ Matches s.cur σ
  outT : ∀ o ∈ s.out, ∀ σ, Matches o σ → T σ
  outNodup : s.out.Nodup
  outStored : ∀ o ∈ s.out, o ∈ s.store ∨ (s.backtrack = true ∧ ∃ e rest, s.stack = e :: rest ∧ e.ng = o)
  choiceOK : s.choice = true → P.twoVal s.cur = false ∧ s.backtrack = false

theorem Chain.mono {U U' : Asg → Prop} (h : ∀ σ, U' σ → U σ) {cur : PA} {st : List Entry}
    (c : Chain U cur st) : Chain U' cur st := by
  induction c with
  | nil cur => exact Chain.nil cur
  | plain cur C rest f _ ih => exact Chain.plain cur C rest (fun σ u m => f σ (h σ u) m) ih
  | choice cur H v b rest f hn _ ih => exact Chain.choice cur H v b rest (fun σ u m => f σ (h σ u) m) hn ih

/-- extending the current interpretation by forced values keeps the chain -/
theorem Chain.extend {U : Asg → Prop} {cur cur' : PA} {st : List Entry} (c : Chain U cur st)
    (h : ∀ σ, U σ → Matches cur σ → Matches cur' σ) : Chain U cur' st := by
  cases c with
  | nil => exact Chain.nil cur'
  | plain _ C rest f r => exact Chain.plain cur' C rest (fun σ u m => h σ u (f σ u m)) r
  | choice _ H v b rest f hn r => exact Chain.choice cur' H v b rest (fun σ u m => h σ u (f σ u m)) hn r

theorem matches_setAt {A : PA} {v : Nat} {b : Bool} {σ : Asg} (hm : Matches A σ) (hv : σ v = b) :
    Matches (setAt A v b) σ := by
  intro i c hi
  rw [pget_setAt] at hi
  by_cases e : i = v
  · rw [if_pos e] at hi; cases hi; rw [e]; exact hv
  · rw [if_neg e] at hi; exact hm i c hi

theorem matches_of_setAt {A : PA} {v : Nat} {b : Bool} {σ : Asg} (hn : pget A v = none)
    (hm : Matches (setAt A v b) σ) : Matches A σ := by
  intro i c hi
  apply hm i c
  rw [pget_setAt]
  have : i ≠ v := by intro e; rw [e, hn] at hi; cases hi
  rw [if_neg this]; exact hi

variable {T : Asg → Prop} {P : Params}

theorem inv_step1 (hP : Sound T P) {s : St} (h : SInv T P s) : SInv T P (step1 P s) := by
  unfold step1
  by_cases hc : s.choice = true
  · rw [if_pos hc]
    have ⟨htv, hbt⟩ := h.choiceOK hc
    have hs := hP.heu_total s.time s.cur htv
    cases hh : P.heu s.time s.cur with
    | none => rw [hh] at hs; cases hs
    | some vb =>
      obtain ⟨v, b⟩ := vb
      simp only
      have hn := hP.heu_valid s.time s.cur v b hh
      refine ⟨?_, ?_, h.storeOK, ?_, h.outT, h.outNodup, ?_, ?_⟩
      · exact Chain.choice _ s.cur v b s.stack (fun _ _ m => m) hn h.chain
      · intro σ u
        rcases h.cover σ u with hm | ⟨e, he, H, v', b', hc', hm, hv⟩
        · by_cases hv : σ v = b
          · left; exact matches_setAt hm hv
          · right
            refine ⟨_, List.mem_cons_self .., s.cur, v, b, rfl, hm, ?_⟩
            cases hσ : σ v <;> cases b <;> simp_all
        · right; exact ⟨e, List.mem_cons_of_mem _ he, H, v', b', hc', hm, hv⟩
      · intro hb; simp only at hb; rw [hbt] at hb; cases hb
      · intro o ho
        rcases h.outStored o ho with h1 | ⟨h1, _⟩
        · left; exact h1
        · rw [hbt] at h1; cases h1
      · intro hcc; simp at hcc
  · rw [if_neg hc]; exact h

/-- invariant of the pop loop: `X` plays the role of the current interpretation for the part
of the stack that is still there; it is dead, so every popped entry is a sound nogood -/
theorem popLoop_spec {U : Asg → Prop} : ∀ (stack : List Entry) (store : List PA) (X cur : PA),
    Chain U X stack → (∀ σ, U σ → ¬ Matches X σ) → (∀ σ, U σ → AvoidsL store σ) →
    (∀ σ, U σ → ¬ Matches cur σ) →
    let r := popLoop stack store cur
    (∀ σ, U σ → AvoidsL r.2.1 σ) ∧ (∀ g ∈ store, g ∈ r.2.1) ∧
    (∀ e rest, stack = e :: rest → e.ng ∈ r.2.1) ∧
    Chain U r.2.2 r.1 ∧
    -- coverage transfer: a level of the old stack is either still there or became the new cur
    (∀ σ, U σ → (∃ e ∈ stack, ∃ H v b, e.choice = some (H, v, b) ∧ Matches H σ ∧ σ v = !b) →
        Matches r.2.2 σ ∨ ∃ e ∈ r.1, ∃ H v b, e.choice = some (H, v, b) ∧ Matches H σ ∧ σ v = !b) ∧
    -- if nothing is left and no level was found, cur is unchanged (and dead)
    (∀ σ, U σ → ¬ Matches r.2.2 σ ∨ ∃ e ∈ stack, e.choice.isSome = true) := by
  intro stack
  induction stack with
  | nil =>
    intro store X cur _ _ hst hcur
    simp only [popLoop]
    refine ⟨hst, fun g hg => hg, (fun e rest he => by cases he), Chain.nil _, ?_, fun σ u => Or.inl (hcur σ u)⟩
    intro σ _ ⟨e, he, _⟩; cases he
  | cons e rest ih =>
    intro store X cur hch hX hst hcur
    cases hch with
    | plain _ C _ f r =>
      simp only [popLoop]
      have hC : ∀ σ, U σ → ¬ Matches C σ := fun σ u m => hX σ u (f σ u m)
      have hst' : ∀ σ, U σ → AvoidsL (C :: store) σ := by
        intro σ u g hg
        rcases List.mem_cons.mp hg with rfl | hg
        · exact hC σ u
        · exact hst σ u g hg
      have ⟨a, b, c, d, e', f'⟩ := ih (C :: store) C cur r hC hst' hcur
      refine ⟨a, fun g hg => b g (List.mem_cons_of_mem _ hg), ?_, d, ?_, ?_⟩
      · intro x rest' hx
        cases hx
        exact b _ (List.mem_cons_self ..)
      · intro σ u ⟨x, hx, H, v, b', hc', hm, hv⟩
        rcases List.mem_cons.mp hx with rfl | hx
        · cases hc'
        · exact e' σ u ⟨x, hx, H, v, b', hc', hm, hv⟩
      · intro σ u
        rcases f' σ u with h1 | ⟨x, hx, hs⟩
        · exact Or.inl h1
        · exact Or.inr ⟨x, List.mem_cons_of_mem _ hx, hs⟩
    | choice _ H v b _ f hn r =>
      simp only [popLoop]
      have hC : ∀ σ, U σ → ¬ Matches (setAt H v b) σ := fun σ u m => hX σ u (f σ u m)
      refine ⟨?_, fun g hg => List.mem_cons_of_mem _ hg, ?_, r, ?_, fun σ _ => Or.inr ⟨_, List.mem_cons_self .., rfl⟩⟩
      · intro σ u g hg
        rcases List.mem_cons.mp hg with rfl | hg
        · exact hC σ u
        · exact hst σ u g hg
      · intro x rest' hx
        cases hx
        exact List.mem_cons_self ..
      · intro σ _ ⟨x, hx, H', v', b', hc', hm, hv⟩
        rcases List.mem_cons.mp hx with rfl | hx
        · simp only [Option.some.injEq, Prod.mk.injEq] at hc'
          obtain ⟨rfl, rfl, rfl⟩ := hc'
          exact Or.inl hm
        · exact Or.inr ⟨x, hx, H', v', b', hc', hm, hv⟩

theorem step1_choice (s : St) : (step1 P s).choice = false := by
  unfold step1
  by_cases hc : s.choice = true
  · rw [if_pos hc]; cases P.heu s.time s.cur with
    | none => rfl
    | some vb => rfl
  · rw [if_neg hc]; simpa using hc

theorem inv_step3 {s1 : St} (h : SInv T P s1) (hc : s1.choice = false) :
    SInv T P (step3 s1) ∧ (step3 s1).backtrack = false ∧ (step3 s1).choice = false := by
  unfold step3
  by_cases hb : s1.backtrack = true
  · rw [if_pos hb]
    have ⟨a, b, c, d, e, _⟩ := popLoop_spec (U := Unrep T s1.out) s1.stack s1.store s1.cur s1.cur
      h.chain (h.dead hb) h.storeOK (h.dead hb)
    refine ⟨⟨d, ?_, a, ?_, h.outT, h.outNodup, ?_, ?_⟩, rfl, hc⟩
    · intro σ u
      rcases h.cover σ u with hm | hl
      · exact absurd hm (h.dead hb σ u)
      · exact e σ u hl
    · intro hbb; cases hbb
    · intro o ho
      rcases h.outStored o ho with h1 | ⟨_, x, rest, hst, hx⟩
      · left; exact b o h1
      · left; rw [← hx]; exact c x rest hst
    · intro hcc; simp only at hcc; rw [hc] at hcc; cases hcc
  · rw [if_neg hb]
    exact ⟨h, by simpa using hb, hc⟩

theorem inv_final (hP : Sound T P) {s3 : St} (h : SInv T P s3) (hb : s3.backtrack = false)
    (hc : s3.choice = false) (updNg : Bool) (hno : updNg = false → ∀ g ∈ s3.store, g ≠ s3.cur) :
    SInv T P (stepFinal P s3 updNg) := by
  have stored : ∀ o ∈ s3.out, o ∈ s3.store := by
    intro o ho
    rcases h.outStored o ho with h1 | ⟨h1, _⟩
    · exact h1
    · rw [hb] at h1; cases h1
  unfold stepFinal
  by_cases hac : P.acIncons s3.cur = true
  · rw [if_pos hac]
    refine ⟨h.chain, h.cover, h.storeOK, ?_, h.outT, h.outNodup, fun o ho => Or.inl (stored o ho), ?_⟩
    · intro _ σ u; exact hP.ac_sound _ hac σ u.1
    · intro hcc; simp only at hcc; rw [hc] at hcc; cases hcc
  · rw [if_neg hac]
    have hac' : P.acIncons s3.cur = false := by simpa using hac
    have forced : ∀ σ, Unrep T s3.out σ → Matches s3.cur σ → Matches (P.gam s3.cur) σ :=
      fun σ u m => hP.gam_sound _ σ u.1 m
    have base : SInv T P { s3 with cur := P.gam s3.cur } := by
      refine ⟨h.chain.extend forced, ?_, h.storeOK, ?_, h.outT, h.outNodup, fun o ho => Or.inl (stored o ho), ?_⟩
      · intro σ u
        rcases h.cover σ u with hm | hl
        · exact Or.inl (forced σ u hm)
        · exact Or.inr hl
      · intro hbb; simp only at hbb; rw [hb] at hbb; cases hbb
      · intro hcc; simp only at hcc; rw [hc] at hcc; cases hcc
    simp only
    by_cases hfp : (P.gam s3.cur != s3.cur) = true
    · rw [if_pos hfp]; exact base
    · rw [if_neg hfp]
      have heq : P.gam s3.cur = s3.cur := by simpa using hfp
      by_cases hun : updNg = true
      · rw [if_pos hun]; exact base
      · rw [if_neg hun]
        have hun' : updNg = false := by simpa using hun
        by_cases htv : (!P.twoVal (P.gam s3.cur)) = true
        · rw [if_pos htv]
          refine ⟨base.chain, base.cover, base.storeOK, ?_, base.outT, base.outNodup, base.outStored, ?_⟩
          · intro hbb; simp only at hbb; rw [hb] at hbb; cases hbb
          · intro _; exact ⟨by simpa using htv, hb⟩
        · rw [if_neg htv]
          have htv' : P.twoVal s3.cur = true := by rw [heq] at htv; simpa using htv
          by_cases hit : P.isTarget (P.gam s3.cur) = true
          · rw [if_pos hit]
            rw [heq] at hit ⊢
            have sub : ∀ σ, Unrep T (s3.cur :: s3.out) σ → Unrep T s3.out σ :=
              fun σ u => ⟨u.1, fun o ho => u.2 o (List.mem_cons_of_mem _ ho)⟩
            refine ⟨?_, ?_, ?_, ?_, ?_, ?_, ?_, ?_⟩
            · exact Chain.plain _ _ _ (fun _ _ m => m) (h.chain.mono sub)
            · intro σ u
              rcases h.cover σ (sub σ u) with hm | ⟨e, he, hl⟩
              · exact Or.inl hm
              · exact Or.inr ⟨e, List.mem_cons_of_mem _ he, hl⟩
            · intro σ u; exact h.storeOK σ (sub σ u)
            · intro _ σ u; exact u.2 _ (List.mem_cons_self ..)
            · intro o ho σ m
              rcases List.mem_cons.mp ho with rfl | ho
              · exact hP.leaf_pos _ htv' hac' hit σ m
              · exact h.outT o ho σ m
            · refine List.nodup_cons.mpr ⟨?_, h.outNodup⟩
              intro hmem
              exact hno hun' _ (stored _ hmem) rfl
            · intro o ho
              rcases List.mem_cons.mp ho with rfl | ho
              · right; exact ⟨rfl, _, _, rfl, rfl⟩
              · left; exact stored o ho
            · intro hcc; simp only at hcc; rw [hc] at hcc; cases hcc
          · rw [if_neg hit]
            rw [heq] at hit ⊢
            have hit' : P.isTarget s3.cur = false := by simpa using hit
            refine ⟨?_, ?_, h.storeOK, ?_, h.outT, h.outNodup, fun o ho => Or.inl (stored o ho), ?_⟩
            · exact Chain.plain _ _ _ (fun _ _ m => m) h.chain
            · intro σ u
              rcases h.cover σ u with hm | ⟨e, he, hl⟩
              · exact Or.inl hm
              · exact Or.inr ⟨e, List.mem_cons_of_mem _ he, hl⟩
            · intro _ σ u m; exact hP.leaf_neg _ htv' hac' hit' σ m u.1
            · intro hcc; simp only at hcc; rw [hc] at hcc; cases hcc

theorem inv_tail (hP : Sound T P) {s2 : St} (h : SInv T P s2) (hb : s2.backtrack = false)
    (hc : s2.choice = false) : SInv T P (stepTail P s2) := by
  have stored : ∀ o ∈ s2.out, o ∈ s2.store := by
    intro o ho
    rcases h.outStored o ho with h1 | ⟨h1, _⟩
    · exact h1
    · rw [hb] at h1; cases h1
  unfold stepTail
  cases hcl : P.closure s2.store s2.cur with
  | inconsistent =>
    simp only
    refine ⟨h.chain, h.cover, h.storeOK, ?_, h.outT, h.outNodup, fun o ho => Or.inl (stored o ho), ?_⟩
    · intro _ σ u m; exact hP.cl_inc _ _ hcl σ m (h.storeOK σ u)
    · intro hcc; simp only at hcc; rw [hc] at hcc; cases hcc
  | update r =>
    simp only
    have forced : ∀ σ, Unrep T s2.out σ → Matches s2.cur σ → Matches r σ :=
      fun σ u m => hP.cl_upd _ _ r hcl σ m (h.storeOK σ u)
    have base : SInv T P { s2 with cur := r, stack := { choice := none, ng := r } :: s2.stack } := by
      refine ⟨?_, ?_, h.storeOK, ?_, h.outT, h.outNodup, fun o ho => Or.inl (stored o ho), ?_⟩
      · exact Chain.plain _ _ _ (fun _ _ m => m) (h.chain.extend forced)
      · intro σ u
        rcases h.cover σ u with hm | ⟨e, he, hl⟩
        · exact Or.inl (forced σ u hm)
        · exact Or.inr ⟨e, List.mem_cons_of_mem _ he, hl⟩
      · intro hbb; simp only at hbb; rw [hb] at hbb; cases hbb
      · intro hcc; simp only at hcc; rw [hc] at hcc; cases hcc
    exact inv_final hP base hb hc true (fun hh => by cases hh)
  | noUpdate =>
    simp only
    exact inv_final hP h hb hc false (fun _ g hg => hP.cl_no _ _ hcl g hg)

/-- the invariant is preserved by every iteration that does not halt -/
theorem iter_inv (hP : Sound T P) {s s' : St} (h : SInv T P s) (hi : iter P s = Res.cont s') :
    SInv T P s' := by
  unfold iter at hi
  simp only at hi
  by_cases hd : (step1 P s).backtrack = true ∧ (step1 P s).stack = []
  · rw [if_pos hd] at hi; cases hi
  · rw [if_neg hd] at hi
    cases hi
    have h1 := inv_step1 hP h
    have ⟨h3, hb, hc⟩ := inv_step3 h1 (step1_choice s)
    exact inv_tail hP h3 hb hc

/-- when the loop halts, every target model has been emitted, each output is a target model,
and no output occurs twice -/
theorem iter_done (hP : Sound T P) {s s' : St} (h : SInv T P s) (hi : iter P s = Res.done s') :
    (∀ σ, T σ → ∃ o ∈ s'.out, Matches o σ) ∧ (∀ o ∈ s'.out, ∀ σ, Matches o σ → T σ) ∧ s'.out.Nodup := by
  unfold iter at hi
  simp only at hi
  by_cases hd : (step1 P s).backtrack = true ∧ (step1 P s).stack = []
  · rw [if_pos hd] at hi; cases hi
    have h1 := inv_step1 hP h
    refine ⟨?_, h1.outT, h1.outNodup⟩
    intro σ hT
    false_or_by_contra
    rename_i hne
    have u : Unrep T (step1 P s).out σ := ⟨hT, fun o ho m => hne ⟨o, ho, m⟩⟩
    rcases h1.cover σ u with hm | ⟨e, he, _⟩
    · exact h1.dead hd.1 σ u hm
    · rw [hd.2] at he; cases he
  · rw [if_neg hd] at hi; cases hi

/-- C05, safety half: if the search halts (with any fuel), it has emitted exactly the target
models, each once. Holds for every heuristic that proposes undecided statements. -/
theorem run_exact (hP : Sound T P) : ∀ (fuel : Nat) (s s' : St), SInv T P s → run P fuel s = some s' →
    (∀ σ, T σ → ∃ o ∈ s'.out, Matches o σ) ∧ (∀ o ∈ s'.out, ∀ σ, Matches o σ → T σ) ∧ s'.out.Nodup := by
  intro fuel
  induction fuel with
  | zero => intro s s' _ hr; cases hr
  | succ f ih =>
    intro s s' h hr
    unfold run at hr
    cases hi : iter P s with
    | done s1 => rw [hi] at hr; cases hr; exact iter_done hP h hi
    | cont s1 => rw [hi] at hr; exact ih s1 s' (iter_inv hP h hi) hr

/-- the initial state (current = grounded interpretation `g`, everything else empty)
satisfies the invariant as soon as every target model extends `g` -/
theorem inv_init (g : PA) (hg : ∀ σ, T σ → Matches g σ) :
    SInv T P { cur := g, store := [], stack := [], backtrack := false, choice := false, out := [] } := by
  refine ⟨Chain.nil _, fun σ u => Or.inl (hg σ u.1), (fun _ _ _ hx => by cases hx), (fun hb => by cases hb),
    (fun _ ho => by cases ho), List.nodup_nil, (fun _ ho => by cases ho), (fun hc => by cases hc)⟩
#print axioms run_exact
#print axioms inv_init
