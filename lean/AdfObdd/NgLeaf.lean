import AdfObdd.NgConcrete
/-! # The leaf test (`stability_check`) and the heuristics of the concrete nogood loop

* `stabilityCheck_spec` — the concrete test (restrict every condition by the false statements of
  the candidate, ground the result, compare information values at all positions) decides
  "the least fixpoint of the reduct is the candidate";
* `heuCall_valid` / `heuCall_none` — every answer of a concrete heuristic (`SM.Heu`: Simple, the two
  counting heuristics, scripted/Rand-shaped) is an undecided statement with a truth value, and an
  answer is given whenever an undecided statement exists. -/
namespace NConc
open NSem

/-! ### the reduct -/

theorem falsePart_toPA (cand : List Nat) :
    falsePart (toPA cand) = cand.map (fun c => if c = 0 then some false else none) := by
  unfold falsePart toPA
  rw [List.map_map]
  apply List.map_congr_left
  intro c _
  simp only [Function.comp]
  unfold storeIsConst
  by_cases h0 : c = 0
  · subst h0; simp
  · rw [if_neg h0, if_neg h0]
    by_cases h1 : c = 1
    · subst h1; simp
    · rw [if_neg h1]; simp

theorem restrictFalse_spec : ∀ (cs : List Nat) (k : Nat) (s : Store) (t : Nat), WF s → t < s.nodes.size →
    WF (restrictFalse s t k cs).1 ∧ Ext s (restrictFalse s t k cs).1 ∧
    (restrictFalse s t k cs).2 < (restrictFalse s t k cs).1.nodes.size ∧
    eval (restrictFalse s t k cs).1 (restrictFalse s t k cs).2 =
      fun σ => eval s t (over σ k (cs.map (fun c => if c = 0 then some false else none))) := by
  intro cs
  induction cs with
  | nil => intro k s t w ht; exact ⟨w, Ext.refl s, ht, rfl⟩
  | cons c cs ih =>
    intro k s t w ht
    unfold restrictFalse
    by_cases hc : c = 0
    · subst hc
      simp only [beq_self_eq_true, if_true]
      have ⟨i1, l1, v1, _, d1⟩ := restrictF_spec (t+1) s t k false w ht (Nat.lt_succ_self _)
      have ⟨i2, l2, v2, d2⟩ := ih (k+1) _ _ i1 v1
      refine ⟨i2, Ext.trans l1 l2, v2, ?_⟩
      rw [d2]
      funext σ
      rw [d1]
      simp only [List.map_cons, if_true, over]
      rw [over_upd _ σ k (k+1) false (by omega)]
    · have hc' : (c == 0) = false := by simpa using hc
      simp only [hc', Bool.false_eq_true, if_false]
      have ⟨i2, l2, v2, d2⟩ := ih (k+1) s t w ht
      refine ⟨i2, l2, v2, ?_⟩
      rw [d2]
      funext σ
      simp only [List.map_cons, if_neg hc, over]

theorem mapFalse_spec (cand : List Nat) : ∀ (acs : List Nat) (s : Store), WF s → (∀ t ∈ acs, t < s.nodes.size) →
    WF (mapFalse s cand acs).1 ∧ Ext s (mapFalse s cand acs).1 ∧
    (∀ t ∈ (mapFalse s cand acs).2, t < (mapFalse s cand acs).1.nodes.size) ∧
    (mapFalse s cand acs).2.map (eval (mapFalse s cand acs).1) =
      acs.map (fun a σ => eval s a (over σ 0 (falsePart (toPA cand)))) := by
  intro acs
  induction acs with
  | nil => intro s w _; exact ⟨w, Ext.refl s, (fun _ h => by cases h), rfl⟩
  | cons a acs ih =>
    intro s w ha
    have hav : a < s.nodes.size := ha a (List.mem_cons_self ..)
    have ⟨i0, l0, v0, d0⟩ := restrictFalse_spec cand 0 s a w hav
    have hacs' : ∀ t ∈ acs, t < (restrictFalse s a 0 cand).1.nodes.size :=
      fun t ht => Nat.lt_of_lt_of_le (ha t (List.mem_cons_of_mem _ ht)) l0.1
    have ⟨i1, l1, v1, d1⟩ := ih _ i0 hacs'
    simp only [mapFalse]
    refine ⟨i1, Ext.trans l0 l1, ?_, ?_⟩
    · intro t ht
      rcases List.mem_cons.mp ht with rfl | ht
      · exact Nat.lt_of_lt_of_le v0 l1.1
      · exact v1 t ht
    · simp only [List.map_cons, d1]
      congr 1
      · funext σ
        rw [eval_ext i0 l1 _ σ v0, d0, falsePart_toPA]
      · apply List.map_congr_left
        intro y hy
        funext σ
        rw [eval_ext w l0 y _ (ha y (List.mem_cons_of_mem _ hy))]

theorem mapFalse_length (cand : List Nat) : ∀ (acs : List Nat) (s : Store),
    (mapFalse s cand acs).2.length = acs.length := by
  intro acs
  induction acs with
  | nil => intro s; rfl
  | cons a acs ih => intro s; simp only [mapFalse, List.length_cons, ih]

theorem redu_map_eval (s : Store) (ac : List Nat) (v : I3) :
    redu (ac.map (eval s)) v = ac.map (fun a σ => eval s a (over σ 0 (falsePart v))) := by
  unfold redu
  rw [List.map_map]
  rfl

/-- the comparison at all positions -/
theorem all_sameInfo_iff : ∀ (a b : List Nat), a.length = b.length →
    ((a.zip b).all (fun (x, y) => sameInfo x y) = true ↔ toPA a = toPA b) := by
  intro a
  induction a with
  | nil => intro b hl; cases b with
    | nil => simp [toPA]
    | cons _ _ => simp at hl
  | cons x a ih =>
    intro b hl
    cases b with
    | nil => simp at hl
    | cons y b =>
      have hl' : a.length = b.length := by simpa using hl
      simp only [List.zip_cons_cons, List.all_cons, Bool.and_eq_true, ih b hl']
      simp only [toPA, List.map_cons, List.cons.injEq, sameInfo, beq_iff_eq]

theorem isLfp_unique {D : List BoolFn} {w w' : I3} (h : IsLfp D w) (h' : IsLfp D w') : w = w' := by
  have l1 : w.length = D.length := by have := congrArg List.length h.1; rw [Gam_length] at this; exact this.symm
  have l2 : w'.length = D.length := by have := congrArg List.length h'.1; rw [Gam_length] at this; exact this.symm
  exact Le3_antisymm (by rw [l1, l2]) (h.2 w' h'.1) (h'.2 w h.1)

/-- the concrete leaf test decides "the least fixpoint of the reduct is the candidate" -/
theorem stabilityCheck_spec (s : Store) (n : Nat) (ac cand : List Nat) (w : WF s)
    (hac : ∀ t ∈ ac, t < s.nodes.size) (hl : ac.length = n) (hc : cand.length = n) :
    WF (stabilityCheck s n ac cand).1 ∧ Ext s (stabilityCheck s n ac cand).1 ∧
    ((stabilityCheck s n ac cand).2 = true ↔
      ∀ w', IsLfp (redu (ac.map (eval s)) (toPA cand)) w' → w' = toPA cand) := by
  have ⟨i0, l0, v0, d0⟩ := mapFalse_spec cand ac s w hac
  have hlen : (mapFalse s cand ac).2.length < n + 1 := by rw [mapFalse_length, hl]; omega
  have ⟨i1, l1, _, _⟩ := groundedLoop_sem StoreRA (n + 1) _ _ i0 v0
  have hg := grounded_correct StoreRA (n + 1) _ _ i0 v0 hlen
  simp only at hg
  have hD : (mapFalse s cand ac).2.map (StoreRA.den (mapFalse s cand ac).1) = redu (ac.map (eval s)) (toPA cand) := by
    rw [redu_map_eval]; exact d0
  rw [hD] at hg
  have hlfp : IsLfp (redu (ac.map (eval s)) (toPA cand))
      (toPA (groundedLoop StoreRA (n + 1) (mapFalse s cand ac).1 (mapFalse s cand ac).2).2) := hg
  have hglen : (groundedLoop StoreRA (n + 1) (mapFalse s cand ac).1 (mapFalse s cand ac).2).2.length = cand.length := by
    have := congrArg List.length hlfp.1
    rw [Gam_length, toPA_length] at this
    rw [← this, hc]
    simp [redu, hl]
  unfold stabilityCheck
  refine ⟨i1, Ext.trans l0 l1, ?_⟩
  simp only
  rw [all_sameInfo_iff _ _ hglen]
  constructor
  · intro he w' hw'
    rw [← he]; exact isLfp_unique hw' hlfp
  · intro h
    exact h _ hlfp

/-! ### the heuristics -/

theorem mem_undecided {v : List Nat} {p : Nat × Nat} (hp : p ∈ SM.undecided v) :
    p.1 < v.length ∧ v[p.1]? = some p.2 ∧ isTV p.2 = false := by
  simp only [SM.undecided, List.mem_map, List.mem_filter] at hp
  obtain ⟨⟨x, j⟩, ⟨hm, hx⟩, rfl⟩ := hp
  have := List.mem_zipIdx hm
  simp only [Nat.zero_add, Nat.zero_le, true_and] at this
  obtain ⟨h1, h2⟩ := this
  refine ⟨h1, ?_, by simpa using hx⟩
  simp only [Nat.sub_zero] at h2
  rw [List.getElem?_eq_getElem h1, h2]

theorem undecided_nil {v : List Nat} (h : SM.undecided v = []) : v.all isTV = true := by
  rw [List.all_eq_true]
  intro x hx
  false_or_by_contra
  rename_i hne
  obtain ⟨i, hi, rfl⟩ := List.getElem_of_mem hx
  have : (i, v[i]) ∈ SM.undecided v := by
    simp only [SM.undecided, List.mem_map, List.mem_filter]
    refine ⟨(v[i], i), ⟨?_, by simpa using hne⟩, rfl⟩
    rw [List.mem_zipIdx_iff_getElem?]
    simp [List.getElem?_eq_getElem hi]
  rw [h] at this; cases this

theorem minBy_mem (cmp : (Nat × Nat) → (Nat × Nat) → Ordering) (l : List (Nat × Nat)) (r : Nat × Nat)
    (hr : minBy cmp l = some r) : r ∈ l := by
  cases l with
  | nil => simp [minBy] at hr
  | cons x xs =>
    simp only [minBy, Option.some.injEq] at hr
    subst hr
    have : ∀ (ys : List (Nat × Nat)) (m : Nat × Nat),
        ys.foldl (fun m y => if cmp m y == .gt then y else m) m = m ∨
        ys.foldl (fun m y => if cmp m y == .gt then y else m) m ∈ ys := by
      intro ys
      induction ys with
      | nil => intro m; left; rfl
      | cons y ys ih =>
        intro m
        simp only [List.foldl_cons]
        rcases ih (if cmp m y == .gt then y else m) with h | h
        · rw [h]; split
          · right; simp
          · left; rfl
        · right; exact List.mem_cons_of_mem _ h
    rcases this xs x with h | h
    · rw [h]; simp
    · exact List.mem_cons_of_mem _ h

theorem minBy_none (cmp : (Nat × Nat) → (Nat × Nat) → Ordering) (l : List (Nat × Nat))
    (h : minBy cmp l = none) : l = [] := by
  cases l with
  | nil => rfl
  | cons x xs => simp [minBy] at h

/-- every answer is an undecided statement with a handle `0` or `1` -/
theorem heuCall_valid (h : SM.Heu) (s : Store) (v : List Nat) (time i t : Nat)
    (hc : SM.heuCall h s v time = some (i, t)) :
    t < 2 ∧ i < v.length ∧ ∃ x, v[i]? = some x ∧ isTV x = false := by
  cases h with
  | simple =>
    simp only [SM.heuCall, Option.map_eq_some_iff] at hc
    obtain ⟨⟨j, x⟩, hh, he⟩ := hc
    cases he
    have := mem_undecided (List.mem_of_mem_head? hh)
    exact ⟨by omega, this.1, x, this.2⟩
  | minPathsMaxVarImp =>
    simp only [SM.heuCall, Option.map_eq_some_iff] at hc
    obtain ⟨⟨j, x⟩, hh, he⟩ := hc
    cases he
    have := mem_undecided (minBy_mem _ _ _ hh)
    exact ⟨by split <;> omega, this.1, x, this.2⟩
  | maxVarImpMinPaths =>
    simp only [SM.heuCall, Option.map_eq_some_iff] at hc
    obtain ⟨⟨j, x⟩, hh, he⟩ := hc
    cases he
    have := mem_undecided (minBy_mem _ _ _ hh)
    exact ⟨by split <;> omega, this.1, x, this.2⟩
  | script seed =>
    simp only [SM.heuCall] at hc
    split at hc
    · rename_i j x hget
      simp only [Option.some.injEq, Prod.mk.injEq] at hc
      obtain ⟨hi, ht⟩ := hc
      subst hi
      have := mem_undecided (List.mem_of_getElem? hget)
      exact ⟨by omega, this.1, x, this.2⟩
    · cases hc

/-- no answer only when nothing is undecided -/
theorem heuCall_none (h : SM.Heu) (s : Store) (v : List Nat) (time : Nat)
    (hc : SM.heuCall h s v time = none) : v.all isTV = true := by
  apply undecided_nil
  cases h with
  | simple =>
    simp only [SM.heuCall, Option.map_eq_none_iff] at hc
    exact List.head?_eq_none_iff.mp hc
  | minPathsMaxVarImp =>
    simp only [SM.heuCall, Option.map_eq_none_iff] at hc
    exact minBy_none _ _ hc
  | maxVarImpMinPaths =>
    simp only [SM.heuCall, Option.map_eq_none_iff] at hc
    exact minBy_none _ _ hc
  | script seed =>
    simp only [SM.heuCall] at hc
    split at hc
    · cases hc
    · rename_i hget
      false_or_by_contra
      rename_i hne
      have hpos : 0 < (SM.undecided v).length := List.length_pos_iff.mpr hne
      have hlt := Nat.mod_lt (SM.splitmix (UInt64.ofNat seed + UInt64.ofNat time * 0x2545F4914F6CDD1D)).toNat hpos
      rw [List.getElem?_eq_getElem hlt] at hget; cases hget

end NConc
#print axioms NConc.stabilityCheck_spec
#print axioms NConc.heuCall_valid
