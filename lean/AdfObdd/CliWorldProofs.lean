import AdfObdd.CliWorld
import AdfObdd.CliModesProofs
import AdfObdd.HybridModel
/-! # The driver's world satisfies the assumptions of the text-level CLI theorems

* `Bio.Lawful.tag`: tagging a lawful library keeps it lawful;
* `Bio.ttDump_spec`: for EVERY number of variables `nv ≤ VBOT` the decision-tree dump of a truth table
  satisfies `Bio.DumpSpec (ttLawful nv) (ttDump nv)` (ordered, children first with larger variables,
  root last, the root denotes the table's function);
* `CliMP.drvWorldOK : WorldOK CliM.drvWorld`, `CliMP.drvWorld_dump : DumpOKW CliM.drvWorld drvWorldOK`
  — so `C15.cli_text_faithful` / `three_modes_print_same_sets` apply to exactly the world the model
  driver executes (`C15.driver_world_faithful`). -/
namespace Bio
open TT (numOf bitsAsg)

/-! ## tagging -/

/-- a lawful library stays lawful when its diagrams are tagged; the valid diagrams of the tagged
library carry the tag of the library -/
def Lawful.tag {T K : Type} {L : Lib T} {nv : Nat} (W : Lawful L nv) (k : K) : Lawful (L.tag k) nv where
  Valid := fun p => p.1 = k ∧ W.Valid p.2
  den := fun p => W.den p.2
  evalExpr_spec := fun e he => ⟨⟨rfl, (W.evalExpr_spec e he).1⟩, (W.evalExpr_spec e he).2⟩
  mkFalse_spec := ⟨⟨rfl, W.mkFalse_spec.1⟩, W.mkFalse_spec.2⟩
  isTrue_spec := fun p hp => W.isTrue_spec p.2 hp.2
  isFalse_spec := fun p hp => W.isFalse_spec p.2 hp.2
  select_spec := fun p l hp hl => ⟨⟨rfl, (W.select_spec p.2 l hp.2 hl).1⟩, (W.select_spec p.2 l hp.2 hl).2⟩
  exist_spec := fun p vs hp hv => ⟨⟨rfl, (W.exist_spec p.2 vs hp.2 hv).1⟩, (W.exist_spec p.2 vs hp.2 hv).2⟩
  restrict_spec := fun p l hp hl hnd => ⟨⟨rfl, (W.restrict_spec p.2 l hp.2 hl hnd).1⟩, (W.restrict_spec p.2 l hp.2 hl hnd).2⟩
  and_spec := fun p q hp hq => ⟨⟨rfl, (W.and_spec p.2 q.2 hp.2 hq.2).1⟩, (W.and_spec p.2 q.2 hp.2 hq.2).2⟩
  iff_spec := fun p q hp hq => ⟨⟨rfl, (W.iff_spec p.2 q.2 hp.2 hq.2).1⟩, (W.iff_spec p.2 q.2 hp.2 hq.2).2⟩
  sat_spec := fun p hp => W.sat_spec p.2 hp.2

/-! ## the dump -/

theorem Den.mono {d d' : List Node} (h : ∀ (j : Nat) (n : Node), d[j]? = some n → d'[j]? = some n) :
    ∀ {j : Nat} {f : BoolFn}, Den d j f → Den d' j f := by
  intro j f hd
  induction hd with
  | bot => exact Den.bot
  | top => exact Den.top
  | inner j n fl fh h2 hn _ _ ihl ihh => exact Den.inner j n fl fh h2 (h j n hn) ihl ihh

theorem getElem?_append_of_some {d e : List Node} {j : Nat} {n : Node} (h : d[j]? = some n) :
    (d ++ e)[j]? = some n := by
  have hl : j < d.length := by
    rcases Nat.lt_or_ge j d.length with h' | h'
    · exact h'
    · rw [List.getElem?_eq_none h'] at h; cases h
  rw [List.getElem?_append_left hl]; exact h

/-- appending a node whose children are present (and below it in the variable order) keeps a dump ordered -/
theorem dumpOK_snoc {d : List Node} (h : DumpOK d) (n : Node) (hv : n.var < VBOT)
    (hlo : n.lo < d.length) (hhi : n.hi < d.length)
    (hol : ∀ m, 2 ≤ n.lo → d[n.lo]? = some m → n.var < m.var)
    (ohh : ∀ m, 2 ≤ n.hi → d[n.hi]? = some m → n.var < m.var) : DumpOK (d ++ [n]) := by
  intro j m hj hget
  rcases Nat.lt_or_ge j d.length with hlt | hge
  · rw [List.getElem?_append_left hlt] at hget
    have ⟨a, b, c, e, f⟩ := h j m hj hget
    refine ⟨a, b, c, ?_, ?_⟩
    · intro m' h2 hm'
      rw [List.getElem?_append_left (by omega)] at hm'
      exact e m' h2 hm'
    · intro m' h2 hm'
      rw [List.getElem?_append_left (by omega)] at hm'
      exact f m' h2 hm'
  · rw [List.getElem?_append_right hge] at hget
    have hz : j - d.length = 0 := by
      rcases Nat.eq_zero_or_pos (j - d.length) with h' | h'
      · exact h'
      · rw [List.getElem?_eq_none (by simp; omega)] at hget; cases hget
    rw [hz] at hget
    simp only [List.getElem?_cons_zero, Option.some.injEq] at hget
    subst hget
    have hjd : j = d.length := by omega
    subst hjd
    refine ⟨hv, hlo, hhi, ?_, ?_⟩
    · intro m' h2 hm'
      rw [List.getElem?_append_left hlo] at hm'
      exact hol m' h2 hm'
    · intro m' h2 hm'
      rw [List.getElem?_append_left hhi] at hm'
      exact ohh m' h2 hm'

/-- the assignment that follows the number `a` below variable `k` and `σ` from `k` on -/
def mixAsg (k a : Nat) (σ : Asg) : Asg := fun x => if x < k then a.testBit x else σ x

theorem den_ttBit (d : List Node) (t a : Nat) : Den d (ttBit t a) (fun _ => t.testBit a) := by
  unfold ttBit
  cases h : t.testBit a
  · simp only [Bool.false_eq_true, if_false]; exact Den.bot
  · simp only [if_true]; exact Den.top

theorem ttBit_lt (t a : Nat) : ttBit t a < 2 := by unfold ttBit; split <;> omega

/-- the invariant of the dump construction -/
structure GoSpec (t nv k f a : Nat) (d : List Node) (r : List Node × Nat) : Prop where
  ext : ∃ e, r.1 = d ++ e
  ok : DumpOK r.1
  den : Den r.1 r.2 (fun σ => t.testBit (numOf nv (mixAsg k a σ)))
  leaf : f = 0 → r.2 < 2
  node : 0 < f → r.2 + 1 = r.1.length ∧ ∃ lo hi, r.1[r.2]? = some ⟨k, lo, hi⟩

theorem mix_lo {nv k a : Nat} (ha : a < 2 ^ k) (σ : Asg) (h : σ k = false) :
    numOf nv (mixAsg k a σ) = numOf nv (mixAsg (k + 1) a σ) := by
  apply numOf_congr
  intro x _
  unfold mixAsg
  by_cases h1 : x < k
  · rw [if_pos h1, if_pos (by omega)]
  · rw [if_neg h1]
    by_cases h2 : x = k
    · subst h2
      rw [if_pos (by omega), h, Nat.testBit_lt_two_pow ha]
    · rw [if_neg (by omega)]

theorem mix_hi {nv k a : Nat} (ha : a < 2 ^ k) (σ : Asg) (h : σ k = true) :
    numOf nv (mixAsg k a σ) = numOf nv (mixAsg (k + 1) (2 ^ k + a) σ) := by
  apply numOf_congr
  intro x _
  unfold mixAsg
  by_cases h1 : x < k
  · rw [if_pos h1, if_pos (by omega), Nat.testBit_two_pow_add_gt h1]
  · rw [if_neg h1]
    by_cases h2 : x = k
    · subst h2
      rw [if_pos (by omega), h, Nat.testBit_two_pow_add_eq, Nat.testBit_lt_two_pow ha]; rfl
    · rw [if_neg (by omega)]

theorem ttDumpGo_spec (t nv : Nat) (hnv : nv ≤ VBOT) : ∀ (f k a : Nat) (d : List Node), k + f = nv → a < 2 ^ k →
    DumpOK d → 2 ≤ d.length → GoSpec t nv k f a d (ttDumpGo t f k a d) := by
  intro f
  induction f with
  | zero =>
    intro k a d hk ha hd hlen
    have hkn : k = nv := by omega
    subst hkn
    refine ⟨⟨[], by simp [ttDumpGo]⟩, hd, ?_, fun _ => ttBit_lt t a, fun h => absurd h (by omega)⟩
    have e : (fun σ : Asg => t.testBit (numOf k (mixAsg k a σ))) = fun _ => t.testBit a := by
      funext σ
      have : numOf k (mixAsg k a σ) = a := by
        rw [numOf_congr (σ' := bitsAsg a) (fun x hx => by simp [mixAsg, hx, bitsAsg])]
        exact numOf_bitsAsg ha
      rw [this]
    rw [e]
    exact den_ttBit _ t a
  | succ f ih =>
    intro k a d hk ha hd hlen
    have ha1 : a < 2 ^ (k + 1) := by rw [Nat.pow_succ]; omega
    have ha2 : 2 ^ k + a < 2 ^ (k + 1) := by rw [Nat.pow_succ]; omega
    have L := ih (k + 1) a d (by omega) ha1 hd hlen
    obtain ⟨e1, he1⟩ := L.ext
    have hlen1 : 2 ≤ (ttDumpGo t f (k + 1) a d).1.length := by rw [he1]; simp; omega
    have H := ih (k + 1) (2 ^ k + a) (ttDumpGo t f (k + 1) a d).1 (by omega) ha2 L.ok hlen1
    obtain ⟨e2, he2⟩ := H.ext
    -- names for the two recursive results
    generalize hl : ttDumpGo t f (k + 1) a d = l at L he1 hlen1 H he2
    generalize hh : ttDumpGo t f (k + 1) (2 ^ k + a) l.1 = h at H he2
    have hres : ttDumpGo t (f + 1) k a d = (h.1 ++ [⟨k, l.2, h.2⟩], h.1.length) := by
      simp only [ttDumpGo, hl, hh]
    rw [hres]
    have hlen2 : 2 ≤ h.1.length := by rw [he2]; simp; omega
    -- the indices of the two subtrees are inside `h.1`
    have l2lt : l.2 < l.1.length := by
      rcases Nat.eq_zero_or_pos f with h0 | h0
      · have := L.leaf h0; omega
      · have := (L.node h0).1; omega
    have l2lt' : l.2 < h.1.length := by rw [he2]; simp; omega
    have h2lt : h.2 < h.1.length := by
      rcases Nat.eq_zero_or_pos f with h0 | h0
      · have := H.leaf h0; omega
      · have := (H.node h0).1; omega
    have mono1 : ∀ (j : Nat) (n : Node), l.1[j]? = some n → h.1[j]? = some n := by
      intro j n hj; rw [he2]; exact getElem?_append_of_some hj
    have mono2 : ∀ (j : Nat) (n : Node), h.1[j]? = some n → (h.1 ++ [(⟨k, l.2, h.2⟩ : Node)])[j]? = some n :=
      fun j n hj => getElem?_append_of_some hj
    have hol : ∀ m, 2 ≤ l.2 → h.1[l.2]? = some m → k < m.var := by
      intro m h2 hm
      rcases Nat.eq_zero_or_pos f with h0 | h0
      · have := L.leaf h0; omega
      · obtain ⟨_, lo, hi, hn⟩ := L.node h0
        rw [mono1 _ _ hn] at hm
        cases hm; show k < k + 1; omega
    have ohh : ∀ m, 2 ≤ h.2 → h.1[h.2]? = some m → k < m.var := by
      intro m h2 hm
      rcases Nat.eq_zero_or_pos f with h0 | h0
      · have := H.leaf h0; omega
      · obtain ⟨_, lo, hi, hn⟩ := H.node h0
        rw [hn] at hm
        cases hm; show k < k + 1; omega
    have hok : DumpOK (h.1 ++ [(⟨k, l.2, h.2⟩ : Node)]) :=
      dumpOK_snoc H.ok ⟨k, l.2, h.2⟩ (by show k < VBOT; omega) l2lt' h2lt hol ohh
    have hget : (h.1 ++ [(⟨k, l.2, h.2⟩ : Node)])[h.1.length]? = some ⟨k, l.2, h.2⟩ := by
      rw [List.getElem?_append_right (Nat.le_refl _)]; simp
    refine ⟨⟨e1 ++ e2 ++ [⟨k, l.2, h.2⟩], by rw [he2, he1]; simp⟩, hok, ?_, fun h => by omega,
      fun _ => ⟨by simp, l.2, h.2, hget⟩⟩
    have dl := Den.mono mono2 (Den.mono mono1 L.den)
    have dh := Den.mono mono2 H.den
    have dn := Den.inner h.1.length ⟨k, l.2, h.2⟩ _ _ hlen2 hget dl dh
    have e : (fun σ : Asg => t.testBit (numOf nv (mixAsg k a σ))) =
        fun σ => if σ (⟨k, l.2, h.2⟩ : Node).var then
          (fun σ => t.testBit (numOf nv (mixAsg (k + 1) (2 ^ k + a) σ))) σ
          else (fun σ => t.testBit (numOf nv (mixAsg (k + 1) a σ))) σ := by
      funext σ
      show _ = if σ k then _ else _
      cases hσ : σ k
      · simp only [Bool.false_eq_true, if_false]; rw [mix_lo ha σ hσ]
      · simp only [if_true]; rw [mix_hi ha σ hσ]
    rw [e]; exact dn

theorem dumpOK_terminals (nv : Nat) : DumpOK [⟨nv, 0, 0⟩, ⟨nv, 1, 1⟩] := by
  intro j n hj hget
  rw [List.getElem?_eq_none (by simp; omega)] at hget; cases hget

theorem mixAsg_zero (a : Nat) (σ : Asg) : mixAsg 0 a σ = σ := by
  funext x; simp [mixAsg]

/-- **the dump of a truth table over ANY number of variables** (that fit the own store's variable
type) satisfies the assumption about the external dump: for every table that is not constant the dump
is ordered, has the two terminal entries, and its last entry denotes the table's function -/
theorem ttDump_spec (nv : Nat) (hnv : nv ≤ VBOT) : DumpSpec (ttLawful nv) (ttDump nv) := by
  refine ⟨fun t hv h1 h0 => ?_⟩
  have S := ttDumpGo_spec t nv hnv nv 0 0 [⟨nv, 0, 0⟩, ⟨nv, 1, 1⟩] (by omega) (by simp)
    (dumpOK_terminals nv) (by simp)
  obtain ⟨e, he⟩ := S.ext
  have hlen : 2 ≤ (ttDump nv t).length := by unfold ttDump; rw [he]; simp
  refine ⟨S.ok, hlen, ?_⟩
  -- a non-constant table has at least one variable, so the root is the last entry
  have hpos : 0 < nv := by
    rcases Nat.eq_zero_or_pos nv with h | h
    · subst h
      exfalso
      -- tables over no variable: only bit 0 can be set
      have hv' : ∀ a, 1 ≤ a → t.testBit a = false := fun a ha => hv a (by simpa using ha)
      have : t = 0 ∨ t = 1 := by
        cases hb : t.testBit 0
        · left; apply Nat.eq_of_testBit_eq; intro i
          rcases Nat.eq_zero_or_pos i with hi | hi
          · subst hi; simp [hb]
          · simp [hv' i hi]
        · right; apply Nat.eq_of_testBit_eq; intro i
          rcases Nat.eq_zero_or_pos i with hi | hi
          · subst hi; simp [hb]
          · rw [hv' i hi]; exact (Nat.testBit_lt_two_pow (by
              calc 1 < 2 ^ 1 := by decide
                _ ≤ 2 ^ i := Nat.pow_le_pow_right (by decide) hi)).symm
      rcases this with h | h
      · subst h; simp [ttLib] at h0
      · subst h; simp [ttLib, TT.mask] at h1
    · exact h
  have hroot := (S.node hpos).1
  have hd := S.den
  have e2 : (fun σ : Asg => t.testBit (numOf nv (mixAsg 0 0 σ))) = ttDen nv t := by
    funext σ; rw [mixAsg_zero]; rfl
  rw [e2] at hd
  have : (ttDump nv t).length - 1 = (ttDumpGo t nv 0 0 [⟨nv, 0, 0⟩, ⟨nv, 1, 1⟩]).2 := by
    unfold ttDump; omega
  rw [this]; exact hd

end Bio

namespace CliMP
open CliM

/-- `DumpSpec` (HybridModel.lean) is the assumption `DumpLaw` of the CLI theorems -/
theorem dumpLaw_of_spec {T : Type} {L : Bio.Lib T} {n : Nat} {W : Bio.Lawful L n} {dump : T → List Node}
    (h : Bio.DumpSpec W dump) : DumpLaw W dump := h.ok

/-- the driver's world satisfies the assumptions about the external world: the tagged truth-table
library is lawful for every variable set, the alphanumeric sort returns a permutation -/
def drvWorldOK : WorldOK drvWorld where
  law := fun nv _ => (Bio.ttLawful nv).tag nv
  an := fun ns => SortModel.isort_perm NatLex.le ns

/-- … and the assumption about the dump, by `Bio.ttDump_spec`: a valid diagram of the variable set
`nv` carries the tag `nv`, so its dump is the decision tree over `nv` variables -/
theorem drvWorld_dump : DumpOKW drvWorld drvWorldOK := by
  intro nv hnv p hv h1 h0
  obtain ⟨k, t⟩ := p
  obtain ⟨hk, hv⟩ := hv
  simp only at hk
  subst hk
  exact (Bio.ttDump_spec k hnv).ok t hv h1 h0

/-- the store-based world satisfies the assumptions too (`Bio.storeLawful`, `Bio.storeDump_spec`): the
hybrid-arm theorems hold for a world whose dumps are reduced, shared diagrams -/
def storeWorldOK : WorldOK storeWorld where
  law := fun nv h => Bio.storeLawful nv h
  an := fun ns => SortModel.isort_perm NatLex.le ns

theorem storeWorld_dump : DumpOKW storeWorld storeWorldOK :=
  fun nv h => (Bio.storeDump_spec nv h).ok

end CliMP
#print axioms Bio.ttDump_spec
#print axioms CliMP.drvWorldOK
#print axioms CliMP.drvWorld_dump
