import AdfObdd.SortModel
import AdfObdd.FromParserProofs
import AdfObdd.EquivarMore
/-! proofs about the sorting functions of the parser object (`SortModel`): the regenerated
    dictionary, `from_parser` on a re-sorted parser object, the renumbering as a `Renamed`
    re-presentation, label maps, permutations of the facts, consistent renaming, byte order. -/
namespace SortModel
open ParserM FromParser

/-! ### the regenerated dictionary -/

theorem indexOf_none_of_not_mem (xs : List Label) (l : Label) (h : l ∉ xs) : indexOf xs l = none := by
  have := indexOf_isSome xs l
  cases hi : indexOf xs l with
  | none => rfl
  | some v => rw [hi] at this; simp [h] at this

theorem indexOf_some_of_mem (xs : List Label) (l : Label) (h : l ∈ xs) : ∃ i, indexOf xs l = some i := by
  have := indexOf_isSome xs l
  cases hi : indexOf xs l with
  | none => rw [hi] at this; simp [h] at this
  | some v => exact ⟨v, rfl⟩

theorem dictGet_regenFrom : ∀ (ls : List Label) (k : Nat) (d : List (Label × Nat)) (l : Label), ls.Nodup →
    dictGet (regenFrom k ls d) l =
      match indexOf ls l with
      | some i => some (k + i)
      | none => dictGet d l := by
  intro ls
  induction ls with
  | nil => intro k d l _; simp [regenFrom, indexOf]
  | cons x xs ih =>
    intro k d l nd
    have ⟨hx, nd'⟩ := List.nodup_cons.mp nd
    simp only [regenFrom]
    rw [ih (k + 1) _ l nd']
    simp only [indexOf, dictGet]
    by_cases e : x = l
    · subst e
      rw [indexOf_none_of_not_mem xs x hx]
      simp
    · simp only [if_neg e]
      cases indexOf xs l with
      | none => simp
      | some i => simp only [Option.map_some, Option.some.injEq]; omega

theorem dictSize_regenFrom : ∀ (ls : List Label) (k : Nat) (d : List (Label × Nat)),
    (∀ l ∈ ls, (dictGet d l).isSome = true) → dictSize (regenFrom k ls d) = dictSize d := by
  intro ls
  induction ls with
  | nil => intro k d _; rfl
  | cons x xs ih =>
    intro k d h
    simp only [regenFrom]
    rw [ih (k + 1) ((x, k) :: d)]
    · simp [dictSize, h x (by simp)]
    · intro l hl
      simp only [dictGet]
      by_cases e : x = l
      · simp [e]
      · simp [e, h l (by simp [hl])]

/-! ### parser objects that present a name list and a list of conditions -/

/-- what `from_parser` reads off a parser object: the dictionary is the position map of `names`,
which are pairwise different; the conditions are `acs` in file order -/
structure Presents (st : PState) (names : List Label) (acs : List (Label × Fml)) : Prop where
  dict : ∀ l, dictGet st.dict l = indexOf names l
  size : dictSizeOf st = names.length
  fname : st.formulaname = acs.map (·.1)
  fml : st.formulae = acs.map (·.2)
  nodup : names.Nodup

theorem presents_ofFacts (fs : List Fact) : Presents (PState.ofFacts fs) (namesOf fs) (acsOf fs) := by
  obtain ⟨_, hd, hfn, hfm, _⟩ := ofFacts_spec fs
  exact ⟨hd, dictSizeOf_ofFacts fs, hfn, hfm, namesOf_nodup fs⟩

/-- `dict` after the two sorting functions: the position map of the new name list, and `dict_size()`
is unchanged -/
theorem presents_resort {st : PState} {names : List Label} {acs : List (Label × Fml)}
    (h : Presents st names acs) (ns' : List Label) (hp : ns'.Perm names) :
    Presents (st.resort ns') ns' acs := by
  have nd' : ns'.Nodup := hp.nodup_iff.mpr h.nodup
  refine ⟨?_, ?_, h.fname, h.fml, nd'⟩
  · intro l
    show dictGet (regenFrom 0 ns' st.dict) l = indexOf ns' l
    rw [dictGet_regenFrom ns' 0 st.dict l nd']
    cases hi : indexOf ns' l with
    | some i => simp
    | none =>
      have : l ∉ ns' := by
        intro hm
        obtain ⟨i, e⟩ := indexOf_some_of_mem ns' l hm
        rw [hi] at e; cases e
      have : l ∉ names := fun hm => this (hp.mem_iff.mpr hm)
      simp only []
      rw [h.dict l, indexOf_none_of_not_mem names l this]
  · show dictSize (regenFrom 0 ns' st.dict) = ns'.length
    rw [dictSize_regenFrom, hp.length_eq]
    · exact h.size
    · intro l hl
      rw [h.dict l, indexOf_isSome]
      simpa using hp.mem_iff.mp hl

/-- `dict.get` after re-sorting (the content of `presents_resort`, first part) -/
theorem dictGet_resort (fs : List Fact) (ns' : List Label) (hp : ns'.Perm (namesOf fs)) (l : Label) :
    dictGet ((PState.ofFacts fs).resort ns').dict l = indexOf ns' l :=
  (presents_resort (presents_ofFacts fs) ns' hp).dict l

/-- the work list of `from_parser` (generalises `workList_ofFacts`) -/
theorem workList_presents {st : PState} {names : List Label} {acs : List (Label × Fml)}
    (h : Presents st names acs) : workList st = omap (itemOf names) acs := by
  have hdict : dictGet st.dict = indexOf names := funext h.dict
  unfold workList PState.formulaOrder
  rw [h.fname, mapM_eq_omap, hdict, h.fml]
  cases ho : omap (indexOf names) (acs.map (·.1)) with
  | none =>
    symm
    cases hr : omap (itemOf names) acs with
    | none => rfl
    | some items =>
      have h1 := (omap_isSome (itemOf names) acs).mp (by rw [hr]; rfl)
      have h2 : (omap (indexOf names) (acs.map (·.1))).isSome = true := by
        rw [omap_isSome]
        intro a ha
        obtain ⟨lf, hlf, rfl⟩ := List.mem_map.mp ha
        exact ((itemOf_isSome _ lf).mp (h1 lf hlf)).1
      rw [ho] at h2; cases h2
  | some ord =>
    have hlen : ord.length = acs.length := by simpa using omap_length _ _ _ ho
    have hbound : ∀ p ∈ ord, p < names.length := by
      intro p hp
      obtain ⟨l, _, hl⟩ := omap_mem _ _ _ ho p hp
      exact indexOf_lt _ _ _ hl
    have c1 : ¬ (acs.map (·.2)).length < ord.length := by simp [hlen]
    have c2 : ¬ (ord.any (fun p => decide (dictSizeOf st ≤ p)) = true) := by
      rw [List.any_eq_true, h.size]
      rintro ⟨p, hp, hle⟩
      have := hbound p hp
      simp at hle
      omega
    simp only [if_neg c1, if_neg c2]
    rw [List.take_of_length_le (by simp [hlen]), mapM_eq_omap]
    cases hf : omap (resolveFml (indexOf names)) (acs.map (·.2)) with
    | none =>
      symm
      cases hr : omap (itemOf names) acs with
      | none => rfl
      | some items =>
        have h1 := (omap_isSome (itemOf names) acs).mp (by rw [hr]; rfl)
        have h2 : (omap (resolveFml (indexOf names)) (acs.map (·.2))).isSome = true := by
          rw [omap_isSome]
          intro a ha
          obtain ⟨lf, hlf, rfl⟩ := List.mem_map.mp ha
          exact ((itemOf_isSome _ lf).mp (h1 lf hlf)).2
        rw [hf] at h2; cases h2
    | some fms =>
      exact (omap_zip acs ord fms ho hf).symm

/-- `from_parser` does not panic on a parser object that presents well-formed conditions -/
theorem fromParser_presents_isSome {st : PState} {names : List Label} {acs : List (Label × Fml)}
    (h : Presents st names acs)
    (hwf : ∀ lf ∈ acs, lf.1 ∈ names ∧ ∀ a ∈ atomsOf lf.2, a ∈ names) :
    (fromParser st).isSome = true := by
  unfold fromParser
  rw [Option.isSome_map, workList_presents h, omap_isSome]
  intro lf hlf
  have ⟨h1, h2⟩ := hwf lf hlf
  rw [itemOf_isSome, indexOf_isSome, resolve_isSome]
  refine ⟨by simpa using h1, ?_⟩
  intro a ha
  rw [indexOf_isSome]
  simpa using h2 a ha

/-- the index-level Boolean functions of the conditions `c` (label ↦ condition) when the statements
are numbered by their position in `names` -/
def condFnsOn (names : List Label) (c : Label → Fml) : List BoolFn :=
  names.map fun l σ => (c l).eval (labelAsg (indexOf names) σ)

theorem condFns_eq (fs : List Fact) : condFns fs = condFnsOn (namesOf fs) (condOf fs) := rfl

/-- `from_parser` on a parser object that presents `names` / `acs` (generalises `fromParser_correct`) -/
theorem fromParser_presents_correct {st : PState} {names : List Label} {acs : List (Label × Fml)}
    (hP : Presents st names acs) (s : Store) (ac : List Nat)
    (h : fromParser st = some (s, ac)) (hn : names.length ≤ VBOT) :
    WF s ∧ ac.length = names.length ∧ (∀ t ∈ ac, t < s.nodes.size) ∧
    ac.map (eval s) = condFnsOn names (fun l => (lastCond acs l).getD .bot) := by
  unfold fromParser at h
  rw [workList_presents hP, hP.size] at h
  cases hi : omap (itemOf names) acs with
  | none => rw [hi] at h; simp at h
  | some items =>
    rw [hi] at h
    simp only [Option.map_some, Option.some.injEq] at h
    have w0 := buildVars_WF _ hn
    have hok : ∀ pf ∈ items, pf.2.atomsOK := by
      intro pf hpf
      obtain ⟨lf, _, hlf⟩ := omap_mem _ _ _ hi pf hpf
      unfold itemOf at hlf
      cases h1 : indexOf names lf.1 with
      | none => simp [h1] at hlf
      | some q =>
        cases h2 : resolveFml (indexOf names) lf.2 with
        | none => simp [h1, h2] at hlf
        | some φ =>
          simp [h1, h2] at hlf
          rw [← hlf]
          exact resolve_atomsOK _ (fun l p hl => Nat.lt_of_lt_of_le (indexOf_lt _ _ _ hl) hn) _ _ h2
    have spec := placeCompile_spec items (buildVars names.length Store.init)
      (List.replicate names.length 0) (List.replicate names.length Fm.bot) w0
      (by intro t ht; rw [List.mem_replicate] at ht; rw [ht.2]; exact zero_lt _ w0)
      (by rw [List.map_replicate, List.map_replicate]; congr 1 <;> (funext σ; exact eval_zero _ σ))
      hok
    rw [h] at spec
    obtain ⟨a, _, c, d, e⟩ := spec
    refine ⟨a, by simpa using c, d, ?_⟩
    rw [e]
    apply List.ext_getElem?
    intro p
    unfold condFnsOn
    simp only [List.getElem?_map]
    cases hp : names[p]? with
    | none =>
      have : (placeFm (List.replicate names.length Fm.bot) items)[p]? = none := by
        rw [List.getElem?_eq_none_iff] at hp ⊢
        rw [placeFm_length]; simpa using hp
      rw [this]; rfl
    | some l =>
      have hlt : p < names.length := (List.getElem?_eq_some_iff.mp hp).1
      rw [placeFm_get items _ p Fm.bot (by rw [List.getElem?_replicate, if_pos hlt])]
      simp only [Option.map_some, Option.some.injEq]
      funext σ
      have := lastAt_items names hP.nodup p l hp acs items hi
      cases hl : lastCond acs l with
      | none => rw [hl] at this; simp [this, Fm.sem, Fml.eval]
      | some f =>
        rw [hl] at this
        obtain ⟨φ, r1, r2⟩ := this
        simp [r2, resolve_sem _ f φ r1 σ]

/-! ### the renumbering between two name lists -/

section reindex
variable {xs ys : List Label}

theorem reindex_of_get (_nd : xs.Nodup) (hp : xs.Perm ys) {i : Nat} {l : Label} (h : xs[i]? = some l) :
    indexOf ys l = some (reindex xs ys i) := by
  have hm : l ∈ ys := hp.mem_iff.mp (List.mem_of_getElem? h)
  obtain ⟨j, hj⟩ := indexOf_some_of_mem ys l hm
  simp [reindex, h, hj]

theorem reindex_outside (_hp : xs.Perm ys) {i : Nat} (h : xs.length ≤ i) : reindex xs ys i = i := by
  simp [reindex, List.getElem?_eq_none h]

theorem reindex_get (nd : xs.Nodup) (hp : xs.Perm ys) {i : Nat} {l : Label} (h : xs[i]? = some l) :
    ys[reindex xs ys i]? = some l := indexOf_get ys l _ (reindex_of_get nd hp h)

theorem reindex_lt (nd : xs.Nodup) (hp : xs.Perm ys) {i : Nat} (h : i < xs.length) :
    reindex xs ys i < xs.length := by
  have := reindex_of_get nd hp (List.getElem?_eq_getElem h)
  rw [hp.length_eq]
  exact indexOf_lt _ _ _ this

theorem reindex_inv (nd : xs.Nodup) (hp : xs.Perm ys) (k : Nat) : reindex ys xs (reindex xs ys k) = k := by
  rcases Nat.lt_or_ge k xs.length with hk | hk
  · have h1 := reindex_get nd hp (List.getElem?_eq_getElem hk)
    have h2 := reindex_of_get (hp.nodup_iff.mp nd) hp.symm h1
    have h3 := indexOf_of_get xs nd _ k (List.getElem?_eq_getElem hk)
    rw [h3] at h2
    exact (Option.some.inj h2).symm
  · rw [reindex_outside hp hk, reindex_outside hp.symm (by rw [← hp.length_eq]; exact hk)]

theorem reindex_indexOf (nd : xs.Nodup) (hp : xs.Perm ys) {a : Label} {k : Nat} (h : indexOf xs a = some k) :
    indexOf ys a = some (reindex xs ys k) := reindex_of_get nd hp (indexOf_get xs a k h)

/-- **the renumbering is a re-presentation**: the conditions `c`, numbered by `xs` and numbered by any
permutation `ys` of `xs`, are `Renamed` through `reindex xs ys` (old index ↦ new index) with inverse
`reindex ys xs` -/
theorem renamed_condFnsOn (nd : xs.Nodup) (hp : xs.Perm ys) (c : Label → Fml) :
    Renamed (reindex xs ys) (reindex ys xs) (condFnsOn xs c) (condFnsOn ys c) := by
  have nd' : ys.Nodup := hp.nodup_iff.mp nd
  have hl : (condFnsOn xs c).length = xs.length := by simp [condFnsOn]
  refine ⟨reindex_inv nd hp, reindex_inv nd' hp.symm, by simp [condFnsOn, hp.length_eq], ?_, ?_, ?_⟩
  · intro i hi; rw [hl] at hi ⊢; exact reindex_lt nd hp hi
  · intro j hj; rw [hl] at hj ⊢
    have := reindex_lt nd' hp.symm (by rw [← hp.length_eq]; exact hj)
    rw [hp.length_eq]; exact this
  · intro i f hf
    unfold condFnsOn at hf ⊢
    rw [List.getElem?_map] at hf ⊢
    cases hx : xs[i]? with
    | none => rw [hx] at hf; cases hf
    | some l =>
      rw [hx] at hf
      simp only [Option.map_some, Option.some.injEq] at hf
      subst hf
      rw [reindex_get nd hp hx]
      simp only [Option.map_some, Option.some.injEq]
      funext σ'
      congr 1
      funext a
      unfold labelAsg
      cases ha : indexOf xs a with
      | some k => rw [reindex_indexOf nd hp ha]
      | none =>
        have : a ∉ ys := by
          intro hm
          obtain ⟨k, e⟩ := indexOf_some_of_mem xs a (hp.mem_iff.mpr hm)
          rw [ha] at e; cases e
        rw [indexOf_none_of_not_mem ys a this]

end reindex

/-! ### `from_parser` after re-sorting -/

/-- `from_parser` on ANY parser object that presents a permutation `ns'` of the declared names as name
list (dictionary = its position map) together with the conditions of `fs` -/
theorem fromParser_presented (fs : List Fact) (hwf : WellFormedAdf fs) (st : PState) (ns' : List Label)
    (hp : ns'.Perm (namesOf fs)) (hP : Presents st ns' (acsOf fs)) (hn : (namesOf fs).length ≤ VBOT) :
    ∃ s' ac', fromParser st = some (s', ac') ∧
      WF s' ∧ ac'.length = (namesOf fs).length ∧ (∀ t ∈ ac', t < s'.nodes.size) ∧
      ac'.map (eval s') = condFnsOn ns' (condOf fs) ∧
      Renamed (reindex (namesOf fs) ns') (reindex ns' (namesOf fs)) (condFns fs) (ac'.map (eval s')) := by
  have hs := fromParser_presents_isSome hP (fun lf hlf =>
    ⟨hp.mem_iff.mpr (hwf lf hlf).1, fun a ha => hp.mem_iff.mpr ((hwf lf hlf).2 a ha)⟩)
  cases hr : fromParser st with
  | none => rw [hr] at hs; cases hs
  | some r =>
    obtain ⟨a, b, c, d⟩ := fromParser_presents_correct hP r.1 r.2 hr (by rw [hp.length_eq]; exact hn)
    refine ⟨r.1, r.2, rfl, a, by rw [b, hp.length_eq], c, d, ?_⟩
    rw [d]
    exact renamed_condFnsOn (namesOf_nodup fs) hp.symm (condOf fs)

/-- **`from_parser` on the re-sorted parser object** (`ns'`: ANY permutation of the declared names as
new `namelist`, indices regenerated — both sorting functions are instances): it does not panic (it
panics exactly when it does on the unsorted object), `ac` has one valid handle per statement, and
the functions the handles denote are the re-presentation of the unsorted conditions under the
renumbering `reindex (namesOf fs) ns'` (old index ↦ new index). Only `WellFormedAdf fs` is needed;
a statement may have none or several conditions (the last one wins, before and after sorting). -/
theorem fromParser_resorted (fs : List Fact) (hwf : WellFormedAdf fs) (ns' : List Label)
    (hp : ns'.Perm (namesOf fs)) (hn : (namesOf fs).length ≤ VBOT) :
    ∃ s' ac', fromParser ((PState.ofFacts fs).resort ns') = some (s', ac') ∧
      WF s' ∧ ac'.length = (namesOf fs).length ∧ (∀ t ∈ ac', t < s'.nodes.size) ∧
      ac'.map (eval s') = condFnsOn ns' (condOf fs) ∧
      Renamed (reindex (namesOf fs) ns') (reindex ns' (namesOf fs)) (condFns fs) (ac'.map (eval s')) :=
  fromParser_presented fs hwf _ ns' hp (presents_resort (presents_ofFacts fs) ns' hp) hn

/-- sorting twice (the CLI applies `varsort_lexi` and then `varsort_alphanum` when both flags are
given): the second sort decides -/
theorem presents_resort_twice (fs : List Fact) (ns1 ns2 : List Label) (h1 : ns1.Perm (namesOf fs))
    (h2 : ns2.Perm (namesOf fs)) : Presents (((PState.ofFacts fs).resort ns1).resort ns2) ns2 (acsOf fs) :=
  presents_resort (presents_resort (presents_ofFacts fs) ns1 h1) ns2 (h2.trans h1.symm)

/-! ### label maps -/

theorem labelled_of_renamedI {xs ys : List Label} (nd : xs.Nodup) (hp : xs.Perm ys) {v v' : I3}
    (h : RenamedI (reindex xs ys) xs.length v v') : labelled xs v = labelled ys v' := by
  funext l
  unfold labelled
  cases hi : indexOf xs l with
  | some i =>
    rw [reindex_indexOf nd hp hi]
    simp only [Option.bind_some]
    exact (h.2.2 i (indexOf_lt _ _ _ hi)).symm
  | none =>
    have : l ∉ ys := by
      intro hm
      obtain ⟨k, e⟩ := indexOf_some_of_mem xs l (hp.mem_iff.mpr hm)
      rw [hi] at e; cases e
    rw [indexOf_none_of_not_mem ys l this]
    rfl

/-- every vector of the right length has its re-presentation -/
theorem exists_renamedI {xs ys : List Label} (nd : xs.Nodup) (hp : xs.Perm ys) (v : I3)
    (hl : v.length = xs.length) : ∃ v', RenamedI (reindex xs ys) xs.length v v' := by
  have nd' := hp.nodup_iff.mp nd
  have h1 := EquivarMore.pull_spec (reindex ys xs) xs.length v hl (fun i hi => by
    have := reindex_lt nd' hp.symm (by rw [← hp.length_eq]; exact hi)
    rw [hp.length_eq]; exact this)
  exact ⟨_, EquivarMore.RenamedI.symm (reindex_inv nd hp) (fun j hj => reindex_lt nd hp hj) h1⟩

theorem exists_renamedI' {xs ys : List Label} (nd : xs.Nodup) (hp : xs.Perm ys) (v' : I3)
    (hl : v'.length = xs.length) : ∃ v, RenamedI (reindex xs ys) xs.length v v' :=
  ⟨_, EquivarMore.pull_spec (reindex xs ys) xs.length v' hl (fun _ hi => reindex_lt nd hp hi)⟩

/-- two families of vectors that correspond under the renumbering yield the same set of label maps -/
theorem label_maps_of_corr {xs ys : List Label} (nd : xs.Nodup) (hp : xs.Perm ys) (P P' : I3 → Prop)
    (hl : ∀ v, P v → v.length = xs.length) (hl' : ∀ v', P' v' → v'.length = xs.length)
    (hc : ∀ v v', RenamedI (reindex xs ys) xs.length v v' → (P v ↔ P' v'))
    (m : Label → Option (Option Bool)) :
    (∃ v, P v ∧ labelled xs v = m) ↔ (∃ v', P' v' ∧ labelled ys v' = m) := by
  constructor
  · rintro ⟨v, hv, rfl⟩
    obtain ⟨v', hr⟩ := exists_renamedI nd hp v (hl v hv)
    exact ⟨v', (hc v v' hr).mp hv, (labelled_of_renamedI nd hp hr).symm⟩
  · rintro ⟨v', hv', rfl⟩
    obtain ⟨v, hr⟩ := exists_renamedI' nd hp v' (hl' v' hv')
    exact ⟨v, (hc v v' hr).mpr hv', labelled_of_renamedI nd hp hr⟩

theorem totalI_of_renamedI {p q : Nat → Nat} {n : Nat} {v v' : I3} (inv2 : ∀ k, p (q k) = k)
    (rangeq : ∀ j, j < n → q j < n) (h : RenamedI p n v v') (ht : TotalI v) : TotalI v' := by
  intro j hj
  have hjn : j < n := by rw [← h.1]; exact hj
  have a := h.2.2 (q j) (rangeq j hjn)
  rw [inv2 j] at a
  rw [a]
  exact ht (q j) (by rw [h.2.1]; exact rangeq j hjn)

/-! ### insertion sort: a permutation, sorted for a total preorder -/

theorem insertBy_perm (le : Label → Label → Bool) (x : Label) : ∀ ys, (insertBy le x ys).Perm (x :: ys) := by
  intro ys
  induction ys with
  | nil => exact .refl _
  | cons y ys ih =>
    simp only [insertBy]
    split
    · exact .refl _
    · exact (ih.cons y).trans (.swap x y ys)

/-- sorting permutes, whatever the comparison function is -/
theorem isort_perm (le : Label → Label → Bool) : ∀ xs, (isort le xs).Perm xs := by
  intro xs
  induction xs with
  | nil => exact .refl _
  | cons x xs ih => exact (insertBy_perm le x _).trans (ih.cons x)

theorem insertBy_sorted (le : Label → Label → Bool) (total : ∀ a b, le a b = true ∨ le b a = true)
    (trans : ∀ a b c, le a b = true → le b c = true → le a c = true) (x : Label) :
    ∀ ys, ys.Pairwise (fun a b => le a b = true) → (insertBy le x ys).Pairwise (fun a b => le a b = true) := by
  intro ys
  induction ys with
  | nil => intro _; simp [insertBy]
  | cons y ys ih =>
    intro h
    have ⟨h1, h2⟩ := List.pairwise_cons.mp h
    simp only [insertBy]
    by_cases e : le x y = true
    · rw [if_pos e]
      refine List.pairwise_cons.mpr ⟨?_, h⟩
      intro z hz
      rcases List.mem_cons.mp hz with rfl | hz
      · exact e
      · exact trans _ _ _ e (h1 z hz)
    · rw [if_neg e]
      have hyx : le y x = true := (total x y).resolve_left e
      refine List.pairwise_cons.mpr ⟨?_, ih h2⟩
      intro z hz
      rcases List.mem_cons.mp ((insertBy_perm le x ys).mem_iff.mp hz) with rfl | hz
      · exact hyx
      · exact h1 z hz

theorem isort_sorted (le : Label → Label → Bool) (total : ∀ a b, le a b = true ∨ le b a = true)
    (trans : ∀ a b c, le a b = true → le b c = true → le a c = true) :
    ∀ xs, (isort le xs).Pairwise (fun a b => le a b = true) := by
  intro xs
  induction xs with
  | nil => simp [isort]
  | cons x xs ih => exact insertBy_sorted le total trans x _ ih

/-- the sorting function of the model is an instance of the re-sorting of `fromParser_resorted` -/
theorem sortBy_eq_resort (le : Label → Label → Bool) (st : PState) :
    st.sortBy le = st.resort (isort le st.namelist) ∧ (isort le st.namelist).Perm st.namelist :=
  ⟨rfl, isort_perm le _⟩

/-! ### the lexicographic order on sequences -/

theorem lexLt_nil_right (x : List Nat) : lexLt x [] = false := by cases x <;> rfl

theorem lexLt_asymm : ∀ x y, lexLt x y = true → lexLt y x = false := by
  intro x
  induction x with
  | nil => intro y _; exact lexLt_nil_right y
  | cons a as ih =>
    intro y h
    cases y with
    | nil => simp [lexLt] at h
    | cons b bs =>
      simp only [lexLt, Bool.or_eq_true, Bool.and_eq_true, decide_eq_true_eq] at h
      rcases h with h | ⟨rfl, h⟩
      · have h1 : ¬ b < a := by omega
        have h2 : ¬ b = a := by omega
        simp [lexLt, h1, h2]
      · simp [lexLt, ih bs h]

theorem lexLt_irrefl (x : List Nat) : lexLt x x = false := by
  cases h : lexLt x x with
  | false => rfl
  | true => have := lexLt_asymm x x h; rw [h] at this; cases this

theorem lexLt_trichotomy : ∀ x y, lexLt x y = false → lexLt y x = false → x = y := by
  intro x
  induction x with
  | nil => intro y h _; cases y with
    | nil => rfl
    | cons b bs => simp [lexLt] at h
  | cons a as ih =>
    intro y h h'
    cases y with
    | nil => simp [lexLt] at h'
    | cons b bs =>
      simp only [lexLt, Bool.or_eq_false_iff, Bool.and_eq_false_iff, decide_eq_false_iff_not] at h h'
      have e : a = b := by omega
      subst e
      have h1 := h.2.resolve_left (by simp)
      have h2 := h'.2.resolve_left (by simp)
      rw [ih bs h1 h2]

theorem lexLt_trans : ∀ x y z, lexLt x y = true → lexLt y z = true → lexLt x z = true := by
  intro x
  induction x with
  | nil =>
    intro y z _ h2
    cases z with
    | nil => rw [lexLt_nil_right] at h2; cases h2
    | cons c cs => rfl
  | cons a as ih =>
    intro y z h1 h2
    cases y with
    | nil => simp [lexLt] at h1
    | cons b bs =>
      cases z with
      | nil => simp [lexLt] at h2
      | cons c cs =>
        simp only [lexLt, Bool.or_eq_true, Bool.and_eq_true, decide_eq_true_eq] at h1 h2 ⊢
        rcases h1 with h1 | ⟨rfl, h1⟩
        · rcases h2 with h2 | ⟨rfl, _⟩
          · left; omega
          · left; exact h1
        · rcases h2 with h2 | ⟨rfl, h2⟩
          · left; exact h2
          · right; exact ⟨rfl, ih bs cs h1 h2⟩

theorem lexLt_append_same : ∀ (p A B : List Nat), lexLt (p ++ A) (p ++ B) = lexLt A B := by
  intro p
  induction p with
  | nil => intro A B; rfl
  | cons a p ih => intro A B; simp [lexLt, ih]

/-- smaller at a position inside both sequences (not merely a proper prefix) -/
def diffLt : List Nat → List Nat → Bool
  | a :: as, b :: bs => decide (a < b) || (decide (a = b) && diffLt as bs)
  | _, _ => false

theorem lexLt_append_of_diffLt : ∀ (x y A B : List Nat), diffLt x y = true → lexLt (x ++ A) (y ++ B) = true := by
  intro x
  induction x with
  | nil => intro y A B h; simp [diffLt] at h
  | cons a as ih =>
    intro y A B h
    cases y with
    | nil => simp [diffLt] at h
    | cons b bs =>
      simp only [diffLt, Bool.or_eq_true, Bool.and_eq_true, decide_eq_true_eq] at h
      simp only [List.cons_append, lexLt, Bool.or_eq_true, Bool.and_eq_true, decide_eq_true_eq]
      rcases h with h | ⟨rfl, h⟩
      · left; exact h
      · right; exact ⟨rfl, ih bs A B h⟩

/-! ### UTF-8 preserves the order of code points -/

theorem utf8Nat_ne_nil (n : Nat) : ∃ b r, utf8Nat n = b :: r := by
  unfold utf8Nat
  split
  · exact ⟨_, _, rfl⟩
  · split
    · exact ⟨_, _, rfl⟩
    · split <;> exact ⟨_, _, rfl⟩

/-- a smaller code point has an encoding that is smaller at a byte inside both encodings -/
theorem utf8Nat_mono (n m : Nat) (h : n < m) (hm : m < 0x110000) : diffLt (utf8Nat n) (utf8Nat m) = true := by
  have e1 : n / 64 / 64 = n / 4096 := Nat.div_div_eq_div_mul n 64 64
  have e2 : n / 4096 / 64 = n / 262144 := Nat.div_div_eq_div_mul n 4096 64
  have e3 : m / 64 / 64 = m / 4096 := Nat.div_div_eq_div_mul m 64 64
  have e4 : m / 4096 / 64 = m / 262144 := Nat.div_div_eq_div_mul m 4096 64
  by_cases h1 : n ≤ 0x7f <;> by_cases h2 : n ≤ 0x7ff <;> by_cases h3 : n ≤ 0xffff <;>
  by_cases g1 : m ≤ 0x7f <;> by_cases g2 : m ≤ 0x7ff <;> by_cases g3 : m ≤ 0xffff <;>
  simp only [utf8Nat, diffLt, h1, h2, h3, g1, g2, g3, if_true, if_false, Bool.or_eq_true, Bool.and_eq_true,
    decide_eq_true_eq, Bool.false_eq_true, and_false, or_false] <;>
  first
  | omega
  | (rcases Nat.lt_trichotomy (n / 262144) (m / 262144) with t1 | t1 | t1 <;>
     rcases Nat.lt_trichotomy (n / 4096) (m / 4096) with t2 | t2 | t2 <;>
     rcases Nat.lt_trichotomy (n / 64) (m / 64) with t3 | t3 | t3 <;> omega)

theorem char_toNat_lt (c : Char) : c.toNat < 0x110000 := by
  have := c.valid
  simp only [UInt32.isValidChar, Nat.isValidChar] at this
  unfold Char.toNat
  omega

/-- `utf8Nat` is Lean's UTF-8 encoder (`String.utf8EncodeChar`, the encoder behind `String`) -/
theorem utf8Nat_eq_core (c : Char) : (String.utf8EncodeChar c).map UInt8.toNat = utf8Nat c.toNat := by
  have hc := char_toNat_lt c
  unfold Char.toNat at hc
  unfold String.utf8EncodeChar utf8Nat Char.toNat
  simp only []
  split
  · simp only [List.map_cons, List.map_nil, UInt8.toNat_ofNat']; congr 1; omega
  · split
    · simp only [List.map_cons, List.map_nil, UInt8.toNat_ofNat']
      congr 1
      · omega
      · congr 1; omega
    · split
      · simp only [List.map_cons, List.map_nil, UInt8.toNat_ofNat']
        congr 1
        · omega
        · congr 1
          · omega
          · congr 1; omega
      · simp only [List.map_cons, List.map_nil, UInt8.toNat_ofNat']
        congr 1
        · omega
        · congr 1
          · omega
          · congr 1
            · omega
            · congr 1; omega

/-- **byte order = code-point order**: comparing two labels byte-wise on their UTF-8 encodings (what
`Ord for String` does) is comparing their sequences of code points lexicographically -/
theorem byteLt_eq_cpLt : ∀ (a b : Label), byteLt a b = cpLt a b := by
  intro a
  induction a with
  | nil =>
    intro b
    cases b with
    | nil => rfl
    | cons d b =>
      obtain ⟨x, r, e⟩ := utf8Nat_ne_nil d.toNat
      simp [byteLt, cpLt, bytes, e, lexLt]
  | cons c a ih =>
    intro b
    cases b with
    | nil => simp [byteLt, cpLt, bytes, lexLt_nil_right]
    | cons d b =>
      have ih' := ih b
      unfold byteLt cpLt at ih' ⊢
      simp only [bytes, List.flatMap_cons, List.map_cons] at ih' ⊢
      rcases Nat.lt_trichotomy c.toNat d.toNat with h | h | h
      · rw [lexLt_append_of_diffLt _ _ _ _ (utf8Nat_mono _ _ h (char_toNat_lt d))]
        simp [lexLt, h]
      · rw [h, lexLt_append_same, ih']
        simp [lexLt]
      · rw [lexLt_asymm _ _ (lexLt_append_of_diffLt _ _ _ _ (utf8Nat_mono _ _ h (char_toNat_lt c)))]
        have h1 : ¬ c.toNat < d.toNat := by omega
        have h2 : ¬ c.toNat = d.toNat := by omega
        simp [lexLt, h1, h2]

theorem map_toNat_inj : ∀ (a b : Label), a.map Char.toNat = b.map Char.toNat → a = b := by
  intro a
  induction a with
  | nil => intro b h; cases b with
    | nil => rfl
    | cons _ _ => simp at h
  | cons c a ih =>
    intro b h
    cases b with
    | nil => simp at h
    | cons d b =>
      simp only [List.map_cons, List.cons.injEq] at h
      rw [Char.toNat_inj.mp h.1, ih b h.2]

/-- the byte-wise order is a strict total order on labels -/
theorem byteLt_asymm (a b : Label) (h : byteLt a b = true) : byteLt b a = false := lexLt_asymm _ _ h

theorem byteLt_irrefl (a : Label) : byteLt a a = false := lexLt_irrefl _

theorem byteLt_trans (a b c : Label) (h1 : byteLt a b = true) (h2 : byteLt b c = true) : byteLt a c = true :=
  lexLt_trans _ _ _ h1 h2

theorem byteLt_trichotomy (a b : Label) (h1 : byteLt a b = false) (h2 : byteLt b a = false) : a = b := by
  rw [byteLt_eq_cpLt] at h1 h2
  exact map_toNat_inj a b (lexLt_trichotomy _ _ h1 h2)

/-- in particular the encoding is injective: different labels are different byte strings -/
theorem bytes_injective (a b : Label) (h : bytes a = bytes b) : a = b := by
  apply byteLt_trichotomy <;> unfold byteLt <;> rw [h] <;> exact lexLt_irrefl _

theorem byteLe_total (a b : Label) : byteLe a b = true ∨ byteLe b a = true := by
  unfold byteLe
  cases h : byteLt b a with
  | false => left; rfl
  | true => right; rw [byteLt_asymm b a h]; rfl

theorem byteLe_trans (a b c : Label) (h1 : byteLe a b = true) (h2 : byteLe b c = true) : byteLe a c = true := by
  unfold byteLe at *
  simp only [Bool.not_eq_true'] at *
  cases h : byteLt c a with
  | false => rfl
  | true =>
    cases hab : byteLt a b with
    | true => rw [byteLt_trans c a b h hab] at h2; cases h2
    | false =>
      have := byteLt_trichotomy a b hab h1
      subst this
      rw [h] at h2; cases h2

theorem byteLt_of_le_ne (a b : Label) (h : byteLe a b = true) (hne : a ≠ b) : byteLt a b = true := by
  unfold byteLe at h
  simp only [Bool.not_eq_true'] at h
  cases hab : byteLt a b with
  | true => rfl
  | false => exact absurd (byteLt_trichotomy a b hab h) hne

/-- the name list `varsort_lexi` leaves: a permutation of the old one, in STRICTLY ascending byte order
when the names are pairwise different (as they are in `namelist`) -/
theorem isort_byteLe_strict (xs : List Label) (nd : xs.Nodup) :
    (isort byteLe xs).Pairwise (fun a b => byteLt a b = true) := by
  have h1 := isort_sorted byteLe byteLe_total byteLe_trans xs
  have h2 : (isort byteLe xs).Nodup := (isort_perm byteLe xs).nodup_iff.mpr nd
  have h3 := h1.and h2
  exact h3.imp (fun ⟨h, hne⟩ => byteLt_of_le_ne _ _ h hne)

/-- in a strictly ascending list the position of a member is the number of members below it -/
theorem indexOf_sorted_count (lt : Label → Label → Bool) (irr : ∀ a, lt a a = false)
    (asym : ∀ a b, lt a b = true → lt b a = false) :
    ∀ (ys : List Label), ys.Pairwise (fun a b => lt a b = true) → ∀ l ∈ ys,
      indexOf ys l = some (ys.filter (fun x => lt x l)).length := by
  intro ys
  induction ys with
  | nil => intro _ l hl; simp at hl
  | cons y ys ih =>
    intro h l hl
    have ⟨h1, h2⟩ := List.pairwise_cons.mp h
    simp only [indexOf]
    by_cases e : y = l
    · subst e
      rw [if_pos rfl]
      have : (y :: ys).filter (fun x => lt x y) = [] := by
        rw [List.filter_eq_nil_iff]
        intro z hz
        rcases List.mem_cons.mp hz with rfl | hz
        · simp [irr]
        · simp [asym _ _ (h1 z hz)]
      rw [this]; rfl
    · rw [if_neg e]
      have hl' : l ∈ ys := by
        rcases List.mem_cons.mp hl with h | h
        · exact absurd h.symm e
        · exact h
      rw [ih h2 l hl', List.filter_cons, if_pos (h1 l hl')]
      simp

/-! ### permutations of the facts -/

theorem namesOf_perm {fs gs : List Fact} (hp : fs.Perm gs) : (namesOf fs).Perm (namesOf gs) :=
  (List.perm_ext_iff_of_nodup (namesOf_nodup fs) (namesOf_nodup gs)).mpr fun l => by
    rw [namesOf_mem, namesOf_mem]; exact hp.mem_iff

theorem acsOf_perm {fs gs : List Fact} (hp : fs.Perm gs) : (acsOf fs).Perm (acsOf gs) := by
  rw [acsOf_eq_filterMap, acsOf_eq_filterMap]; exact hp.filterMap _

/-- with at most one condition per statement the condition of a label does not depend on the order
of the facts -/
theorem condOf_perm {fs gs : List Fact} (hp : fs.Perm gs) (hone : ((acsOf fs).map (·.1)).Nodup) :
    condOf fs = condOf gs := by
  have hperm := acsOf_perm hp
  have hone' : ((acsOf gs).map (·.1)).Nodup := (hperm.map _).nodup_iff.mp hone
  funext l
  unfold condOf
  congr 1
  apply Option.ext
  intro f
  rw [lastCond_eq_some_iff_of_nodup _ hone, lastCond_eq_some_iff_of_nodup _ hone']
  exact hperm.mem_iff

theorem wellFormed_perm {fs gs : List Fact} (hp : fs.Perm gs) (h : WellFormedAdf fs) : WellFormedAdf gs := by
  intro lf hlf
  have hm := (acsOf_perm hp).mem_iff.mpr hlf
  have hn := namesOf_perm hp
  exact ⟨hn.mem_iff.mp (h lf hm).1, fun a ha => hn.mem_iff.mp ((h lf hm).2 a ha)⟩

/-- **any permutation of the facts** (the `s(..)` facts included, so the numbering of the statements
may change): both files are built, and the functions of the second are the re-presentation of those
of the first under the renumbering of the statements. Needs: at most one condition per statement
(otherwise false: the last one wins). -/
theorem fromParser_facts_perm (fs gs : List Fact) (hp : fs.Perm gs) (hone : ((acsOf fs).map (·.1)).Nodup)
    (hwf : WellFormedAdf fs) (hn : (namesOf fs).length ≤ VBOT) :
    ∃ s ac s' ac', fromParser (PState.ofFacts fs) = some (s, ac) ∧
      fromParser (PState.ofFacts gs) = some (s', ac') ∧
      WF s ∧ WF s' ∧ ac.length = (namesOf fs).length ∧ ac'.length = (namesOf fs).length ∧
      (∀ t ∈ ac, t < s.nodes.size) ∧ (∀ t ∈ ac', t < s'.nodes.size) ∧
      Renamed (reindex (namesOf fs) (namesOf gs)) (reindex (namesOf gs) (namesOf fs))
        (ac.map (eval s)) (ac'.map (eval s')) := by
  have hnp := namesOf_perm hp
  have hn' : (namesOf gs).length ≤ VBOT := by rw [← hnp.length_eq]; exact hn
  cases h1 : fromParser (PState.ofFacts fs) with
  | none => have := fromParser_isSome fs hwf; rw [h1] at this; cases this
  | some r =>
    cases h2 : fromParser (PState.ofFacts gs) with
    | none => have := fromParser_isSome gs (wellFormed_perm hp hwf); rw [h2] at this; cases this
    | some r' =>
      obtain ⟨a, b, c, d⟩ := fromParser_correct fs r.1 r.2 h1 hn
      obtain ⟨a', b', c', d'⟩ := fromParser_correct gs r'.1 r'.2 h2 hn'
      refine ⟨r.1, r.2, r'.1, r'.2, rfl, rfl, a, a', b, by rw [b', hnp.length_eq], c, c', ?_⟩
      rw [d, d', condFns_eq, condFns_eq, ← condOf_perm hp hone]
      exact renamed_condFnsOn (namesOf_nodup fs) hnp (condOf fs)

/-! ### consistent renaming -/

section rename
variable (ρ : Label → Label) (inj : ∀ a b, ρ a = ρ b → a = b)
include inj

theorem namesOf_rename (fs : List Fact) : namesOf (fs.map (Fact.rename ρ)) = (namesOf fs).map ρ := by
  induction fs with
  | nil => rfl
  | cons x fs ih =>
    cases x with
    | ac l f => simpa [Fact.rename, namesOf] using ih
    | stmt l =>
      simp only [List.map_cons, Fact.rename, namesOf, ih, List.filter_map, List.cons.injEq, true_and]
      congr 1
      apply List.filter_congr
      intro y _
      by_cases e : y = l
      · simp [e]
      · have : ¬ ρ y = ρ l := fun h => e (inj _ _ h)
        simp [e, this]

omit inj in
theorem acsOf_rename (fs : List Fact) :
    acsOf (fs.map (Fact.rename ρ)) = (acsOf fs).map fun lf => (ρ lf.1, lf.2.rename ρ) := by
  induction fs with
  | nil => rfl
  | cons x fs ih => cases x <;> simp [Fact.rename, acsOf, ih]

theorem indexOf_rename (xs : List Label) (l : Label) : indexOf (xs.map ρ) (ρ l) = indexOf xs l := by
  induction xs with
  | nil => rfl
  | cons x xs ih =>
    simp only [List.map_cons, indexOf, ih]
    by_cases e : x = l
    · simp [e]
    · have : ¬ ρ x = ρ l := fun h => e (inj _ _ h)
      simp [e, this]

theorem resolve_rename (xs : List Label) (f : Fml) :
    resolveFml (indexOf (xs.map ρ)) (f.rename ρ) = resolveFml (indexOf xs) f := by
  induction f with
  | top => rfl
  | bot => rfl
  | atom l => simp [Fml.rename, resolveFml, indexOf_rename ρ inj]
  | not f ih => simp [Fml.rename, resolveFml, ih]
  | and a b iha ihb | or a b iha ihb | imp a b iha ihb | xor a b iha ihb | iff a b iha ihb =>
    simp [Fml.rename, resolveFml, iha, ihb]

omit inj in
theorem omap_map {α β γ : Type} (f : β → Option γ) (g : α → β) (l : List α) :
    omap f (l.map g) = omap (fun a => f (g a)) l := by
  induction l with
  | nil => rfl
  | cons a l ih => simp [omap, ih]

/-- **renaming is invisible to `from_parser`**: the store and the `ac` vector built from the renamed
facts are literally those built from the original facts -/
theorem fromParser_rename (fs : List Fact) :
    fromParser (PState.ofFacts (fs.map (Fact.rename ρ))) = fromParser (PState.ofFacts fs) := by
  unfold fromParser
  rw [workList_ofFacts, workList_ofFacts, dictSizeOf_ofFacts, dictSizeOf_ofFacts, namesOf_rename ρ inj,
    acsOf_rename, omap_map, List.length_map]
  congr 2
  funext lf
  unfold itemOf
  simp only [indexOf_rename ρ inj, resolve_rename ρ inj]

/-- the label map of the renamed file: the renamed label carries what the original label carried … -/
theorem labelled_rename (xs : List Label) (v : I3) (l : Label) :
    labelled (xs.map ρ) v (ρ l) = labelled xs v l := by
  unfold labelled; rw [indexOf_rename ρ inj]

omit inj in
/-- … and labels that are not the new name of a statement carry nothing -/
theorem labelled_rename_outside (xs : List Label) (v : I3) (l' : Label) (h : ∀ l ∈ xs, ρ l ≠ l') :
    labelled (xs.map ρ) v l' = none := by
  unfold labelled
  rw [indexOf_none_of_not_mem]
  · rfl
  · intro hm
    obtain ⟨l, hl, e⟩ := List.mem_map.mp hm
    exact h l hl e

end rename

#print axioms fromParser_resorted
#print axioms fromParser_facts_perm
#print axioms fromParser_rename
#print axioms byteLt_eq_cpLt
#print axioms utf8Nat_eq_core
#print axioms isort_byteLe_strict
#print axioms indexOf_sorted_count

end SortModel
