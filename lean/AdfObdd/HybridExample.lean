import AdfObdd.HybridParser
import AdfObdd.IsoCheck
/-! # Non-vacuity of the hybrid theorems: a lawful library WITH a dump satisfying `Bio.DumpSpec`

The computable truth-table library over two variables (`Bio.ttLib 2`, lawful: `Bio.ttLawful 2`) with the
dump "complete (unreduced) decision tree of the table, in biodivine's layout" - two terminal entries,
the two `x1`-nodes, the `x0`-root last. `Bio.ttDump2_spec` proves `DumpSpec` for it (for EVERY table,
so the hypotheses of all hybrid theorems are jointly satisfiable for every two-statement framework). -/
namespace Bio

def bitT (t k : Nat) : Nat := if t.testBit k then 1 else 0

theorem bitT_lt (t k : Nat) : bitT t k < 2 := by unfold bitT; split <;> omega

/-- `|2,0,0|2,1,1|1,·,·|1,·,·|0,2,3|` -/
def ttDump2 (t : Nat) : List Node :=
  [⟨2, 0, 0⟩, ⟨2, 1, 1⟩, ⟨1, bitT t 0, bitT t 2⟩, ⟨1, bitT t 1, bitT t 3⟩, ⟨0, 2, 3⟩]

theorem den_bitT (d : List Node) (t k : Nat) : Den d (bitT t k) (fun _ => t.testBit k) := by
  unfold bitT
  cases h : t.testBit k
  · simp only [Bool.false_eq_true, if_false]; exact Den.bot
  · simp only [if_true]; exact Den.top

theorem numOf2 (σ : Asg) : TT.numOf 2 σ = (if σ 0 then 1 else 0) + (if σ 1 then 2 else 0) := by
  cases h0 : σ 0 <;> cases h1 : σ 1 <;> simp [TT.numOf, List.range_succ, h0, h1]

theorem ttDump2_den (t : Nat) : Den (ttDump2 t) 4 (ttDen 2 t) := by
  have d2 : Den (ttDump2 t) 2 (fun σ => if σ 1 then t.testBit 2 else t.testBit 0) :=
    Den.inner 2 ⟨1, bitT t 0, bitT t 2⟩ _ _ (by omega) rfl (den_bitT _ t 0) (den_bitT _ t 2)
  have d3 : Den (ttDump2 t) 3 (fun σ => if σ 1 then t.testBit 3 else t.testBit 1) :=
    Den.inner 3 ⟨1, bitT t 1, bitT t 3⟩ _ _ (by omega) rfl (den_bitT _ t 1) (den_bitT _ t 3)
  have d4 := Den.inner 4 ⟨0, 2, 3⟩ _ _ (by omega) (rfl : (ttDump2 t)[4]? = some _) d2 d3
  have e : ttDen 2 t = fun σ => if σ (⟨0, 2, 3⟩ : Node).var then
      (fun σ => if σ 1 then t.testBit 3 else t.testBit 1) σ
      else (fun σ => if σ 1 then t.testBit 2 else t.testBit 0) σ := by
    funext σ
    unfold ttDen
    rw [numOf2]
    cases h0 : σ 0 <;> cases h1 : σ 1 <;> simp [h0, h1]
  rw [e]; exact d4

theorem ttDump2_ok (t : Nat) : DumpOK (ttDump2 t) := by
  intro j n hj hget
  have hV : (1 : Nat) < VBOT := by simp [VBOT]
  have hV0 : (0 : Nat) < VBOT := by simp [VBOT]
  match j, hj, hget with
  | 2, _, hget =>
    simp only [ttDump2, List.getElem?_cons_succ, List.getElem?_cons_zero, Option.some.injEq] at hget
    subst hget
    have a := bitT_lt t 0; have b := bitT_lt t 2
    exact ⟨hV, a, b, fun m h => by simp only at h; omega, fun m h => by simp only at h; omega⟩
  | 3, _, hget =>
    simp only [ttDump2, List.getElem?_cons_succ, List.getElem?_cons_zero, Option.some.injEq] at hget
    subst hget
    have a := bitT_lt t 1; have b := bitT_lt t 3
    exact ⟨hV, by show bitT t 1 < 3; omega, by show bitT t 3 < 3; omega,
      fun m h => by simp only at h; omega, fun m h => by simp only at h; omega⟩
  | 4, _, hget =>
    simp only [ttDump2, List.getElem?_cons_succ, List.getElem?_cons_zero, Option.some.injEq] at hget
    subst hget
    refine ⟨hV0, by show 2 < 4; omega, by show 3 < 4; omega, ?_, ?_⟩
    · intro m _ hm
      simp only [ttDump2, List.getElem?_cons_succ, List.getElem?_cons_zero, Option.some.injEq] at hm
      subst hm; show 0 < 1; omega
    · intro m _ hm
      simp only [ttDump2, List.getElem?_cons_succ, List.getElem?_cons_zero, Option.some.injEq] at hm
      subst hm; show 0 < 1; omega
  | j + 5, _, hget => simp [ttDump2] at hget

/-- the assumption `DumpSpec` is satisfiable: truth tables over two variables, decision-tree dump -/
theorem ttDump2_spec : DumpSpec (ttLawful 2) ttDump2 :=
  ⟨fun t _ _ _ => ⟨ttDump2_ok t, by simp [ttDump2], ttDump2_den t⟩⟩

/-! ## semantic facts about WRITTEN frameworks by evaluation on the truth-table library

For a written framework `fms` (atoms are statements) the biodivine back-end's algorithms on the
computable lawful library `ttLib` decide the least fixpoint, the fixpoints of Γ and the stable models of
`fms.map Fm.sem` - so concrete instances of the semantic side of every theorem are `decide`. -/
section tt
variable (fms : List Fm) (hv : ∀ f ∈ fms, NConc.atomsLt fms.length f)
include hv

theorem tt_lfp : IsLfp (fms.map Fm.sem)
    ((bioGrounded (ttLib fms.length) (fromFormulas (ttLib fms.length) fms)).map storeIsConst) := by
  have ⟨a, b, c, _⟩ := fromFormulas_spec fms (ttLawful fms.length) hv
  have := (bioGrounded_lfp (ttLawful fms.length) _ b a).2
  rw [c] at this; exact this

theorem tt_complete (w : I3) :
    w ∈ (bioComplete (ttLib fms.length) (fromFormulas (ttLib fms.length) fms)).map (fun v => v.map storeIsConst) ↔
      (w.length = fms.length ∧ Gam (fms.map Fm.sem) w = w) := by
  have ⟨a, b, c, _⟩ := fromFormulas_spec fms (ttLawful fms.length) hv
  have := (bioComplete_exact (ttLawful fms.length) _ b a).2.1 w
  rw [c] at this; exact this

theorem tt_stable (v : I3) :
    v ∈ (bioStable (ttLib fms.length) (fromFormulas (ttLib fms.length) fms)).map (fun v => v.map storeIsConst) ↔
      (v.length = fms.length ∧ StableExact.StableI (fms.map Fm.sem) v) := by
  have ⟨a, b, c, _⟩ := fromFormulas_spec fms (ttLawful fms.length) hv
  have := (bioStable_exact (ttLawful fms.length) _ b a).2 v
  rw [c] at this; exact this

end tt

/-- the frameworks used as examples in the Props files -/
def exMutual : List Fm := [.not (.atom 1), .not (.atom 0)]
def exChain : List Fm := [.top, .atom 0, .not (.atom 1)]
def exChain2 : List Fm := [.top, .atom 0]

theorem exMutual_ok : ∀ f ∈ exMutual, NConc.atomsLt exMutual.length f := by
  intro f hf
  simp only [exMutual, List.mem_cons, List.not_mem_nil, or_false] at hf
  rcases hf with rfl | rfl <;> simp [NConc.atomsLt, exMutual]
theorem exChain_ok : ∀ f ∈ exChain, NConc.atomsLt exChain.length f := by
  intro f hf
  simp only [exChain, List.mem_cons, List.not_mem_nil, or_false] at hf
  rcases hf with rfl | rfl | rfl <;> simp [NConc.atomsLt, exChain]
theorem exChain2_ok : ∀ f ∈ exChain2, NConc.atomsLt exChain2.length f := by
  intro f hf
  simp only [exChain2, List.mem_cons, List.not_mem_nil, or_false] at hf
  rcases hf with rfl | rfl <;> simp [NConc.atomsLt, exChain2]

end Bio
