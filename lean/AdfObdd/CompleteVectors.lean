import AdfObdd.CompleteExact
/-! what the vectors emitted by `Adf::complete` look like (for the graphs the web service stores with
them, C16): every emitted vector is a refinement of the grounded vector — a decided entry of the
grounded vector is kept, an undecided one is kept (the handle of the grounded residual) or replaced
by a constant — and the final store extends the store after grounding. -/
open IterFull

namespace CompleteExact

theorem completeAll_vectors (s : Store) (n : Nat) (ac : List Nat) (hw : WF s) (hn : ac.length = n)
    (hv : ∀ t ∈ ac, t < s.nodes.size) :
    WF (completeAll s n ac).1 ∧ Ext (groundedLoop StoreRA (n + 1) s ac).1 (completeAll s n ac).1 ∧
    ∀ v ∈ (completeAll s n ac).2.2, isRefinement v (groundedLoop StoreRA (n + 1) s ac).2 := by
  obtain ⟨gi, gle, gv, _⟩ := groundedLoop_sem StoreRA (n+1) s ac hw hv
  obtain ⟨gfix, _⟩ := grounded_native (n+1) s ac hw hv (by omega)
  generalize hg : groundedLoop StoreRA (n+1) s ac = g at gi gle gv gfix
  have hglen : g.2.length = n := by
    have := congrArg List.length gfix
    simpa [Gam, hn] using this.symm
  have hac : AllValid StoreRA g.1 ac := AllValid.mono StoreRA hv gle
  have hvs : ∀ v ∈ threeValAll g.2, AllValid StoreRA g.1 v ∧ ac.length = v.length := by
    intro v hv'
    have hr := (mem_enum3_iff_refinement g.2 v).mp (by rw [← threeValAll_eq_enum3]; exact hv')
    exact ⟨refinement_valid g.1 gi.len g.2 v gv hr, by rw [hr.1, hglen, hn]⟩
  have key := fold_spec StoreRA g.1 ac gi hac (threeValAll g.2) (g.1, []) hvs gi (Ext.refl _)
  have h1 : (completeAll s n ac).1 = ((threeValAll g.2).foldl (cstep StoreRA ac) (g.1, [])).1 := by
    rw [← hg]; rfl
  have h2 : (completeAll s n ac).2.2 = ((threeValAll g.2).foldl (cstep StoreRA ac) (g.1, [])).2 := by
    rw [← hg]; rfl
  rw [h1, h2]
  refine ⟨key.1, key.2.1, ?_⟩
  intro v hvm
  rw [key.2.2] at hvm
  simp only [List.nil_append] at hvm
  have := (List.mem_filter.mp hvm).1
  exact (mem_enum3_iff_refinement g.2 v).mp (by rw [← threeValAll_eq_enum3]; exact this)

end CompleteExact
