import AdfObdd.NgEndToEnd
/-! # What `nogood_internal` does when the heuristic gives no answer (`HeuOK.total` is necessary)

In the Rust (`adf.rs:846-853`) a heuristic answer `None` sets `backtrack = true`: the current partial
interpretation is treated like a conflict - the stack is popped down to the last choice (learning the popped
entries as nogoods), or, if the stack is empty, the search ends.  `NConc.cChoice` models exactly that
(`cIter_none`).  A built-in heuristic answers `None` only when nothing is undecided (`heuCall_none`), and
then the classification step would not have asked.  A custom heuristic that answers `None` while a statement
is undecided abandons the whole subtree below the current interpretation, models included.

`first_call_none_loses_everything`: for EVERY framework that has two different target models (so the grounded
interpretation leaves something undecided) and EVERY heuristic that answers `None` when it is first asked,
the search halts with the EMPTY result.  Hence `HeuOK.total` cannot be dropped from
`search_exact_any_heuristic`.

Proof: up to its first heuristic call the run is the run of any reference heuristic (`cState_congr`); on
that stretch nothing is pushed, learned or emitted (`pre_invariant`: the closure over an empty nogood store
is `NoUpdate` - `closureF_empty` -, and a leaf or a conflict before the first choice is impossible when two
models exist, by the invariant `NGen.SInv` of the simulated semantic machine); so at the first call the stack
is empty and `None` ends the search. -/
namespace NConc
open NSem

/-! ### the iteration and the heuristic -/

/-- the iteration does not consult the heuristic unless `choice` is set -/
theorem cIter_congr (h1 h2 : CHeu) (n : Nat) (ac : List Nat) (stable : Bool) (st : SM.NgS) (hc : st.choice = false) :
    cIter h1 n ac stable st = cIter h2 n ac stable st := by
  unfold cIter cChoice; simp [hc]

/-- **`None` is treated as a conflict**: the iteration continues exactly as if `backtrack` had been set -/
theorem cIter_none (hc : CHeu) (n : Nat) (ac : List Nat) (stable : Bool) (st : SM.NgS) (hch : st.choice = true)
    (hn : hc st.s st.cur st.time = none) :
    cIter hc n ac stable st =
      cIter hc n ac stable { st with choice := false, backtrack := true, trace := st.trace ++ [st.cur], time := st.time + 1 } := by
  unfold cIter cChoice; simp [hch, hn]

/-- … and on an empty stack it ends the search with what has been emitted so far -/
theorem cIter_none_empty_stack (hc : CHeu) (n : Nat) (ac : List Nat) (stable : Bool) (st : SM.NgS) (hch : st.choice = true)
    (hn : hc st.s st.cur st.time = none) (hs : st.stack = []) :
    (cIter hc n ac stable st).done = true ∧ (cIter hc n ac stable st).out = st.out := by
  unfold cIter cChoice; simp [hch, hn, hs]

/-! ### the closure over an empty nogood store -/

theorem foldl_bucketStep_empty (A acc : PA) : ∀ k : Nat,
    (List.replicate k ([] : List PA)).foldl (bucketStep A) (some acc) = some acc
  | 0 => rfl
  | k+1 => by
    rw [List.replicate_succ, List.foldl_cons]
    have : bucketStep A (some acc) [] = some acc := by simp [bucketStep]
    rw [this]; exact foldl_bucketStep_empty A acc k

theorem conclusions_empty (m : Nat) (A : PA) : conclusions (List.replicate m ([] : List PA)) A = some A := by
  unfold conclusions relevant
  rw [List.take_replicate, foldl_bucketStep_empty]
  simp only
  rw [if_neg]
  simp only [List.any_eq_true, not_exists, not_and]
  intro b hb
  rw [List.eq_of_mem_replicate hb]
  simp

theorem updateVec_self_flag (A : PA) : (updateVec A A).2 = false := by
  unfold updateVec
  simp only
  rw [List.any_eq_false]
  intro i _
  cases pget A i <;> simp

theorem conclusionClosure_empty (m : Nat) (A : PA) :
    conclusionClosure (List.replicate m ([] : List PA)) A = Closure.noUpdate := by
  unfold conclusionClosure
  rw [conclusions_empty]
  simp only [updateVec_self_flag]
  rfl

theorem closureF_empty (m : Nat) (v : List Nat) : SM.closureF (List.replicate m ([] : List PA)) v = ClosT.noUpdate := by
  rw [closureF_eq, conclusionClosure_empty]; rfl

/-! ### the run before the first heuristic call -/

/-- nothing has been pushed, learned or emitted yet -/
structure Pre (n : Nat) (c : SM.NgS) : Prop where
  time : c.time = 0
  out : c.out = []
  stack : c.stack = []
  buckets : c.buckets = List.replicate (n + 1) []
  bt : c.backtrack = false
  nd : c.done = false

theorem cClass_cases (n : Nat) (ac : List Nat) (stable : Bool) (st : SM.NgS) :
    cClass n ac stable st = { st with choice := true } ∨
    (∃ s', cClass n ac stable st =
      { st with s := s', stack := (false, toPA st.cur) :: st.stack, out := st.out ++ [st.cur], backtrack := true }) ∨
    (∃ s', cClass n ac stable st = { st with s := s', stack := (false, toPA st.cur) :: st.stack, backtrack := true }) := by
  unfold cClass
  by_cases h1 : (!(st.cur.all isTV)) = true
  · rw [if_pos h1]; left; rfl
  · rw [if_neg h1]
    simp only
    by_cases h2 : (if stable then stabilityCheck st.s n ac st.cur else (st.s, true)).2 = true
    · rw [if_pos h2]; right; left; exact ⟨_, rfl⟩
    · rw [if_neg h2]; right; right; exact ⟨_, rfl⟩

/-- one iteration from such a state (no choice pending): either the state is still of that kind, or the
iteration ended in a conflict / a leaf: `backtrack` set, at most one output, only non-choice stack entries -/
theorem cIter_pre (hc : CHeu) (n : Nat) (ac : List Nat) (stable : Bool) (c : SM.NgS) (hp : Pre n c) (hch : c.choice = false) :
    Pre n (cIter hc n ac stable c) ∨
    ((cIter hc n ac stable c).backtrack = true ∧ (cIter hc n ac stable c).out.length ≤ 1 ∧
      ∀ e ∈ (cIter hc n ac stable c).stack, e.1 = false) := by
  have e1 : cChoice hc c = c := by unfold cChoice; simp [hch]
  have e2 : cBack c = c := by unfold cBack; simp [hp.bt]
  have e3 : cIter hc n ac stable c = cTail n ac stable c := by
    unfold cIter
    simp only [e1, hp.bt, Bool.false_and, Bool.false_eq_true, if_false, e2]
  rw [e3]
  unfold cTail
  rw [hp.buckets, closureF_empty]
  simp only
  unfold cFinal
  simp only
  split
  · right
    refine ⟨rfl, by simp [hp.out], ?_⟩
    intro e he
    have : e ∈ c.stack := he
    rw [hp.stack] at this; cases this
  · unfold cProp
    simp only
    split
    · left; exact ⟨hp.time, hp.out, hp.stack, hp.buckets, hp.bt, hp.nd⟩
    · simp only [Bool.false_eq_true, if_false]
      rcases cClass_cases n ac stable
        { c with s := (applyInterp (applyInterp c.s c.cur ac).1 c.cur c.cur).1,
                 cur := (applyInterp (applyInterp c.s c.cur ac).1 c.cur c.cur).2 } with hq | ⟨s', hq⟩ | ⟨s', hq⟩
      · left; rw [hq]; exact ⟨hp.time, hp.out, hp.stack, hp.buckets, hp.bt, hp.nd⟩
      · right; rw [hq]
        refine ⟨rfl, by simp [hp.out], ?_⟩
        intro e he
        have : e ∈ (false, toPA (applyInterp (applyInterp c.s c.cur ac).1 c.cur c.cur).2) :: c.stack := he
        rw [hp.stack] at this
        simp at this; rw [this]
      · right; rw [hq]
        refine ⟨rfl, by simp [hp.out], ?_⟩
        intro e he
        have : e ∈ (false, toPA (applyInterp (applyInterp c.s c.cur ac).1 c.cur c.cur).2) :: c.stack := he
        rw [hp.stack] at this
        simp at this; rw [this]

theorem stackRel_no_choice {s : Store} {st : List (Bool × PA)} {hs : List (List Nat)} {as : List AEntry}
    (h : StackRel s st hs as) (hf : ∀ e ∈ st, e.1 = false) : ∀ e ∈ as, e.choice = none := by
  induction h with
  | nil hs => intro e he; cases he
  | plain g rest hs as _ ih =>
    intro e he
    rcases List.mem_cons.mp he with rfl | hm
    · rfl
    · exact ih (fun x hx => hf x (List.mem_cons_of_mem _ hx)) e hm
  | choice g rest x hs v b as _ _ =>
    have := hf (true, g) (List.mem_cons_self ..)
    cases this

theorem exists_least {p : Nat → Prop} (m : Nat) : p m → ∃ k, p k ∧ ∀ j, j < k → ¬ p j := by
  induction m using Nat.strongRecOn with
  | _ m ih =>
    intro hm
    by_cases h : ∃ j, j < m ∧ p j
    · obtain ⟨j, hj, hpj⟩ := h
      exact ih j hj hpj
    · exact ⟨m, hm, fun j hj hp => h ⟨j, hj, hp⟩⟩

section run
variable (h : CHeu) (s : Store) (n : Nat) (ac : List Nat) (stable : Bool)

theorem cState_succ (k : Nat) : cState h s n ac stable (k + 1) =
    (if (cState h s n ac stable k).done then cState h s n ac stable k else cIter h n ac stable (cState h s n ac stable k)) :=
  cRun_succ h n ac stable k _

/-- the abstract companion: every state of the concrete run that has not halted is related to a state of the
semantic machine satisfying its invariant -/
theorem companion (hok : HeuOK h) (w0 : WF s) (hac0 : ∀ t ∈ ac, t < s.nodes.size) (hn : ac.length = n)
    (hS : stable = false → ∀ f ∈ ac.map (eval s), Supp n f) :
    ∀ k, (cState h s n ac stable k).done = false →
      ∃ a, Rel (cState h s n ac stable k) a ∧ CInv s n (cState h s n ac stable k) ∧
        NGen.SInv (Target (ac.map (eval s)) n stable) (PP s n ac stable (rawOf h s n ac stable)) a := by
  have hDl : (ac.map (eval s)).length = n := by simp [hn]
  intro k
  induction k with
  | zero =>
    intro _
    have ⟨hrel, hinv, hokv, hg⟩ := init_facts s n ac stable w0 hac0 hn
    exact ⟨_, hrel, hinv,
      NGen.inv_init (P := semP (ac.map (eval s)) n stable (rawOf h s n ac stable)) _ _ hg hokv (replicate_inv n)
        (replicate_not_stored n)⟩
  | succ k ih =>
    intro hnd
    have hd : (cState h s n ac stable k).done = false := by
      cases hd : (cState h s n ac stable k).done with
      | false => rfl
      | true =>
        exfalso
        rw [cState_succ, if_pos hd, hd] at hnd; cases hnd
    have hnext : cState h s n ac stable (k + 1) = cIter h n ac stable (cState h s n ac stable k) := by
      rw [cState_succ, hd]; simp
    rw [hnext] at hnd ⊢
    ·
      obtain ⟨a, hr, hi, hs⟩ := ih hd
      have hsim := sim_iter ac stable (rawOf h s n ac stable) w0 hac0 hn hok k hr hi rfl
      cases hit : NGen.iter (PP s n ac stable (rawOf h s n ac stable)) k a with
      | done a1 =>
        rw [hit] at hsim
        rw [hsim.1] at hnd; cases hnd
      | cont a1 =>
        rw [hit] at hsim
        exact ⟨a1, hsim.1, hsim.2, NGen.iter_inv (sem_sound hDl hS _) k hs hit⟩

/-- before the first heuristic call nothing is pushed, learned or emitted, provided two different target models exist -/
theorem pre_invariant (hok : HeuOK h) (w0 : WF s) (hac0 : ∀ t ∈ ac, t < s.nodes.size) (hn : ac.length = n)
    (hS : stable = false → ∀ f ∈ ac.map (eval s), Supp n f)
    (σ1 σ2 : Asg) (h1 : Target (ac.map (eval s)) n stable σ1) (h2 : Target (ac.map (eval s)) n stable σ2)
    (i : Nat) (hi : i < n) (hne : σ1 i ≠ σ2 i) :
    ∀ k, (∀ j, j < k → (cState h s n ac stable j).choice = false) → Pre n (cState h s n ac stable k) := by
  intro k
  induction k with
  | zero => intro _; exact ⟨rfl, rfl, rfl, rfl, rfl, rfl⟩
  | succ k ih =>
    intro hall
    have hp := ih (fun j hj => hall j (by omega))
    have hch := hall k (by omega)
    rw [cState_succ, hp.nd]
    simp only [Bool.false_eq_true, if_false]
    rcases cIter_pre h n ac stable _ hp hch with hgood | ⟨hbt, hlen, hstk⟩
    · exact hgood
    · exfalso
      -- the state after the iteration
      have hnext : cState h s n ac stable (k + 1) = cIter h n ac stable (cState h s n ac stable k) := by
        rw [cState_succ, hp.nd]; simp
      have hnd : (cState h s n ac stable (k + 1)).done = false := by
        rw [hnext]
        have e1 : cChoice h (cState h s n ac stable k) = cState h s n ac stable k := by unfold cChoice; simp [hch]
        have hcomp := companion h s n ac stable hok w0 hac0 hn hS k hp.nd
        obtain ⟨a, hr, hi', hs⟩ := hcomp
        have hsim := sim_iter ac stable (rawOf h s n ac stable) w0 hac0 hn hok k hr hi' rfl
        cases hit : NGen.iter (PP s n ac stable (rawOf h s n ac stable)) k a with
        | done a1 =>
          exfalso
          unfold NGen.iter at hit
          simp only at hit
          have hb : (NGen.step1 (PP s n ac stable (rawOf h s n ac stable)) k a).backtrack = false := by
            unfold NGen.step1
            rw [hr.ch, hch]; simp only [Bool.false_eq_true, if_false]
            rw [hr.bt]; exact hp.bt
          rw [if_neg (by rw [hb]; simp)] at hit
          cases hit
        | cont a1 =>
          rw [hit] at hsim
          exact hsim.2.nd
      obtain ⟨a, hr, hi', hs⟩ := companion h s n ac stable hok w0 hac0 hn hS (k + 1) hnd
      rw [hnext] at hr hi'
      have habt : a.backtrack = true := by rw [hr.bt]; exact hbt
      have hnoch := stackRel_no_choice hr.stack hstk
      -- every target model has been reported
      have hrep : ∀ σ, Target (ac.map (eval s)) n stable σ → ∃ o ∈ a.out, Matches o σ := by
        intro σ hT
        false_or_by_contra
        rename_i hno
        have u : Unrep (Target (ac.map (eval s)) n stable) a.out σ := ⟨hT, fun o ho m => hno ⟨o, ho, m⟩⟩
        rcases hs.cover σ u with hm | ⟨e, he, H, v, b, hc', _⟩
        · exact hs.dead habt σ u hm
        · rw [hnoch e he] at hc'; cases hc'
      obtain ⟨o1, ho1, hm1⟩ := hrep σ1 h1
      obtain ⟨o2, ho2, hm2⟩ := hrep σ2 h2
      have hlen' : a.out.length ≤ 1 := by rw [hr.out, List.length_map]; exact hlen
      have heq : o1 = o2 := by
        cases hao : a.out with
        | nil => rw [hao] at ho1; cases ho1
        | cons x xs =>
          rw [hao] at hlen' ho1 ho2
          have : xs = [] := by
            cases xs with
            | nil => rfl
            | cons y ys => simp at hlen'
          subst this
          simp at ho1 ho2
          rw [ho1, ho2]
      subst heq
      have ⟨htv, hol⟩ := hs.outTV o1 ho1
      have hol' : o1.length = n := hol
      obtain ⟨b, hb⟩ := twoV_true htv i (by rw [hol']; exact hi)
      have hpg : pget o1 i = some b := pget_eq_some.mpr hb
      exact hne ((hm1 i b hpg).trans (hm2 i b hpg).symm)

/-- up to the first heuristic call of the reference run, the run with any other heuristic is the same run -/
theorem cState_congr (hc : CHeu) : ∀ k, (∀ j, j < k → (cState h s n ac stable j).choice = false) →
    cState hc s n ac stable k = cState h s n ac stable k := by
  intro k
  induction k with
  | zero => intro _; rfl
  | succ k ih =>
    intro hall
    have e := ih (fun j hj => hall j (by omega))
    rw [cState_succ, cState_succ, e]
    rw [cIter_congr hc h n ac stable _ (hall k (by omega))]

end run

/-- **`HeuOK.total` is necessary.** Take any framework with two different target models (stable models resp.
two-valued models, differing on a statement `i < n`) and any heuristic `hc` that answers `None` the first
time it is asked.  Then the search halts, and its result is EMPTY: every model is lost.  (The reference
heuristic `SM.Heu.simple` only serves to name the iteration in which the first call happens.) -/
theorem first_call_none_loses_everything (hc : CHeu) (hfirst : ∀ st v, hc st v 0 = none)
    (s : Store) (n : Nat) (ac : List Nat) (stable : Bool)
    (w0 : WF s) (hn : ac.length = n) (hac0 : ∀ t ∈ ac, t < s.nodes.size)
    (hsup : stable = false → ∀ t ∈ ac, ∀ σ τ : Asg, (∀ i, i < n → σ i = τ i) → eval s t σ = eval s t τ)
    (σ1 σ2 : Asg) (h1 : Target (ac.map (eval s)) n stable σ1) (h2 : Target (ac.map (eval s)) n stable σ2)
    (i : Nat) (hi : i < n) (hne : σ1 i ≠ σ2 i) :
    ∃ fuel, (cSearch hc fuel s n ac stable).2.2.2 = true ∧ (cSearch hc fuel s n ac stable).2.1 = [] := by
  have hS : stable = false → ∀ f ∈ ac.map (eval s), Supp n f := by
    intro hst f hf
    obtain ⟨t, ht, rfl⟩ := List.mem_map.mp hf
    exact hsup hst t ht
  let h : CHeu := SM.heuCall SM.Heu.simple
  have hok : HeuOK h := heuOK_builtin _
  have hpre := pre_invariant h s n ac stable hok w0 hac0 hn hS σ1 σ2 h1 h2 i hi hne
  -- the reference run halts, so it makes a first heuristic call
  obtain ⟨m, hdone, _⟩ := search_exact_any_heuristic h hok s n ac stable w0 hn hac0 hsup
  have hex : ∃ j, (cState h s n ac stable j).choice = true := by
    false_or_by_contra
    rename_i hno
    have hall : ∀ j, (cState h s n ac stable j).choice = false := by
      intro j
      cases hcj : (cState h s n ac stable j).choice with
      | false => rfl
      | true => exact absurd ⟨j, hcj⟩ hno
    have := (hpre m (fun j _ => hall j)).nd
    have hd : (cState h s n ac stable m).done = true := hdone
    rw [hd] at this; cases this
  obtain ⟨j0, hj0⟩ := hex
  obtain ⟨k0, hk0, hleast⟩ := exists_least (p := fun j => (cState h s n ac stable j).choice = true) j0 hj0
  have hall : ∀ j, j < k0 → (cState h s n ac stable j).choice = false := by
    intro j hj
    cases hcj : (cState h s n ac stable j).choice with
    | false => rfl
    | true => exact absurd hcj (hleast j hj)
  have hp := hpre k0 hall
  have hsame := cState_congr h s n ac stable hc k0 hall
  have hnext : cState hc s n ac stable (k0 + 1) = cIter hc n ac stable (cState h s n ac stable k0) := by
    rw [cState_succ, hsame, hp.nd]; simp
  have hnone : hc (cState h s n ac stable k0).s (cState h s n ac stable k0).cur (cState h s n ac stable k0).time = none := by
    rw [hp.time]; exact hfirst _ _
  have ⟨hd, ho⟩ := cIter_none_empty_stack hc n ac stable _ hk0 hnone hp.stack
  refine ⟨k0 + 1, ?_, ?_⟩
  · show (cState hc s n ac stable (k0 + 1)).done = true
    rw [hnext]; exact hd
  · show (cState hc s n ac stable (k0 + 1)).out = []
    rw [hnext, ho]; exact hp.out

/-- a total interpretation `v` satisfying the model condition of `ng_search_exact` is a target -/
theorem target_of_model {D : List BoolFn} {n : Nat} {stable : Bool} (hDl : D.length = n) {v : I3}
    (hl : v.length = n) (ht : TotalI v) (hfix : Gam D v = v)
    (hcond : stable = true → ∀ w : I3, IsLfp (redu D v) w → ∀ i : Nat, v[i]? = some (some true) → w[i]? = some (some true)) :
    Target D n stable (sigOf v) := by
  have t1 := twoV_of_total ht
  have hvo := vOf_of_matches hl t1 (matches_sigOf v)
  rw [Target, hvo]
  refine ⟨hfix, ?_⟩
  intro hs w hw
  exact (stable_check_iff _ v w (by rw [hl, hDl]) ht hw).mpr ⟨hfix, hcond hs w hw⟩

theorem sigOf_ne {v1 v2 : I3} (t1 : TotalI v1) (t2 : TotalI v2) {i : Nat} (h1 : i < v1.length) (h2 : i < v2.length)
    (hne : v1[i]? ≠ v2[i]?) : sigOf v1 i ≠ sigOf v2 i := by
  obtain ⟨b1, e1⟩ := t1 i h1
  obtain ⟨b2, e2⟩ := t2 i h2
  have p1 : pget v1 i = some b1 := pget_eq_some.mpr e1
  have p2 : pget v2 i = some b2 := pget_eq_some.mpr e2
  simp only [sigOf, p1, p2, Option.getD_some]
  intro e; subst e
  exact hne (e1.trans e2.symm)

/-- the same in the vocabulary of `ng_search_exact`: `v1`, `v2` are two different interpretations satisfying the
right-hand side of the exactness theorem (so a search with a total heuristic emits both) -/
theorem first_call_none_models (hc : CHeu) (hfirst : ∀ st v, hc st v 0 = none)
    (s : Store) (n : Nat) (ac : List Nat) (stable : Bool)
    (w0 : WF s) (hn : ac.length = n) (hac0 : ∀ t ∈ ac, t < s.nodes.size)
    (hsup : stable = false → ∀ t ∈ ac, ∀ σ τ : Asg, (∀ i, i < n → σ i = τ i) → eval s t σ = eval s t τ)
    (D : List BoolFn) (hD : ac.map (eval s) = D)
    (model : I3 → Prop)
    (hmodel : ∀ v, model v ↔ (v.length = n ∧ TotalI v ∧ Gam D v = v ∧
          (stable = true → ∀ w : I3, IsLfp (redu D v) w → ∀ i : Nat, v[i]? = some (some true) → w[i]? = some (some true))))
    (v1 v2 : I3) (m1 : model v1) (m2 : model v2) (hne : v1 ≠ v2) :
    ∃ fuel, (cSearch hc fuel s n ac stable).2.2.2 = true ∧ (cSearch hc fuel s n ac stable).2.1 = [] := by
  subst hD
  have hDl : (ac.map (eval s)).length = n := by simp [hn]
  obtain ⟨l1, t1, f1, c1⟩ := (hmodel v1).mp m1
  obtain ⟨l2, t2, f2, c2⟩ := (hmodel v2).mp m2
  have ⟨i, hi, hd⟩ : ∃ i, i < n ∧ v1[i]? ≠ v2[i]? := by
    false_or_by_contra
    rename_i hno
    apply hne
    apply List.ext_getElem?
    intro i
    rcases Nat.lt_or_ge i n with hi | hi
    · false_or_by_contra
      rename_i hx
      exact hno ⟨i, hi, hx⟩
    · rw [List.getElem?_eq_none (by omega), List.getElem?_eq_none (by omega)]
  exact first_call_none_loses_everything hc hfirst s n ac stable w0 hn hac0 hsup (sigOf v1) (sigOf v2)
    (target_of_model hDl l1 t1 f1 c1) (target_of_model hDl l2 t2 f2 c2) i hi
    (sigOf_ne t1 t2 (by omega) (by omega) hd)

/-- … and from written acceptance conditions (`from_parser` model) -/
theorem first_call_none_compiled (hc : CHeu) (hfirst : ∀ st v, hc st v 0 = none) (fms : List Fm) (stable : Bool)
    (hn : fms.length ≤ VBOT) (hv : ∀ f ∈ fms, atomsLt fms.length f)
    (v1 v2 : I3) (hne : v1 ≠ v2)
    (m : ∀ v, v = v1 ∨ v = v2 → (v.length = fms.length ∧ TotalI v ∧ Gam (fms.map Fm.sem) v = v ∧
          (stable = true → ∀ w : I3, IsLfp (redu (fms.map Fm.sem) v) w → ∀ i : Nat, v[i]? = some (some true) → w[i]? = some (some true)))) :
    ∃ fuel, (cSearch hc fuel (buildNative fms.length fms).1 fms.length (buildNative fms.length fms).2 stable).2.2.2 = true ∧
      (cSearch hc fuel (buildNative fms.length fms).1 fms.length (buildNative fms.length fms).2 stable).2.1 = [] := by
  have hok : ∀ f ∈ fms, f.atomsOK := fun f hf => atomsOK_of_lt hn f (hv f hf)
  have ⟨w, hl, hcc⟩ := buildNative_correct fms.length fms hn hok
  have hvalid : ∀ t ∈ (buildNative fms.length fms).2, t < (buildNative fms.length fms).1.nodes.size := by
    intro t ht
    obtain ⟨i, hi, rfl⟩ := List.getElem_of_mem ht
    have hi' : i < fms.length := by omega
    exact (hcc i _ _ (List.getElem?_eq_getElem hi) (List.getElem?_eq_getElem hi')).1
  have e : (buildNative fms.length fms).2.map (eval (buildNative fms.length fms).1) = fms.map Fm.sem :=
    map_eval_eq_sem _ _ fms hl (fun i t f a c => (hcc i t f a c).2)
  have hsup : stable = false → ∀ t ∈ (buildNative fms.length fms).2, ∀ σ τ : Asg,
      (∀ i, i < fms.length → σ i = τ i) → eval (buildNative fms.length fms).1 t σ = eval (buildNative fms.length fms).1 t τ := by
    intro _ t ht σ τ hst
    obtain ⟨i, hi, rfl⟩ := List.getElem_of_mem ht
    have hi' : i < fms.length := by omega
    have hev := (hcc i _ _ (List.getElem?_eq_getElem hi) (List.getElem?_eq_getElem hi')).2
    rw [hev σ, hev τ]
    exact sem_supp _ (hv _ (List.getElem_mem hi')) σ τ hst
  exact first_call_none_models hc hfirst _ fms.length _ stable w hl hvalid hsup (fms.map Fm.sem) e
    (fun v => v.length = fms.length ∧ TotalI v ∧ Gam (fms.map Fm.sem) v = v ∧
          (stable = true → ∀ w : I3, IsLfp (redu (fms.map Fm.sem) v) w → ∀ i : Nat, v[i]? = some (some true) → w[i]? = some (some true)))
    (fun _ => Iff.rfl) v1 v2 (m v1 (Or.inl rfl)) (m v2 (Or.inr rfl)) hne

end NConc
#print axioms NConc.first_call_none_loses_everything
