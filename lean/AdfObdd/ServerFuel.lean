import AdfObdd.ServerAnswers
/-! # C16 — the iteration bound of the nogood-learning search is irrelevant once the search has halted

`nogood_internal` (lib/src/adf.rs) is a `loop { … }` WITHOUT a bound; the executable model
`SM.ngRun h n ac stable fuel` runs at most `fuel` iterations and reports in `NgS.done` whether the loop
reached its `break`. This file proves **fuel monotonicity**: if the model halts within `F` iterations it
returns the very same state for every `F' ≥ F` (`ngRun_mono`), hence `SM.ngSearch`, `CliF.runSectionF`
and the server's solve task `SrvA.solveAdfF` do not depend on the bound from `F` on
(`solveAdfF_mono`), and the halting flag stays set (`strategyHalts_mono`). So "the search halted within
the driver's 10^6 iterations" is one instance of "the search halted within SOME bound `F0`, and the
answer is that of every bound `F ≥ F0`" - the latter is a statement about the unbounded Rust loop. -/
namespace SM

/-- a halted run is not changed by more fuel -/
theorem ngRun_mono (h : Heu) (n : Nat) (ac : List Nat) (stable : Bool) : ∀ (fuel : Nat) (st : NgS),
    (ngRun h n ac stable fuel st).done = true → ∀ k, ngRun h n ac stable (fuel + k) st = ngRun h n ac stable fuel st := by
  intro fuel
  induction fuel with
  | zero =>
    intro st hd k
    simp only [ngRun] at hd ⊢
    cases k with
    | zero => rfl
    | succ k => simp only [Nat.zero_add, ngRun, hd, if_true]
  | succ f ih =>
    intro st hd k
    have e : f + 1 + k = (f + k) + 1 := by omega
    rw [e]
    simp only [ngRun] at hd ⊢
    by_cases hdone : st.done = true
    · simp only [hdone, if_true]
    · simp only [hdone, Bool.false_eq_true, if_false] at hd ⊢
      exact ih _ hd k

/-- … hence the whole search (store, emitted vectors, trace, flag) -/
theorem ngSearch_mono (h : Heu) (F F' : Nat) (s : Store) (n : Nat) (ac : List Nat) (stable : Bool)
    (hh : (ngSearch h F s n ac stable).2.2.2 = true) (hF : F ≤ F') :
    ngSearch h F' s n ac stable = ngSearch h F s n ac stable := by
  obtain ⟨k, rfl⟩ := Nat.exists_eq_add_of_le hF
  unfold ngSearch at hh ⊢
  simp only at hh ⊢
  rw [ngRun_mono h n ac stable F _ hh k]

end SM

namespace CliF
open Cli

theorem runSectionF_mono (F F' : Nat) (heu : SM.Heu) (sec : Section) (s : Store) (n : Nat) (ac : List Nat)
    (hh : sectionHaltsF F heu sec s n ac = true) (hF : F ≤ F') :
    runSectionF F' heu sec s n ac = runSectionF F heu sec s n ac ∧ sectionHaltsF F' heu sec s n ac = true := by
  cases sec with
  | twoval =>
    have := SM.ngSearch_mono heu F F' s n ac false hh hF
    simp only [runSectionF, sectionHaltsF, this]
    exact ⟨trivial, hh⟩
  | stmng =>
    have := SM.ngSearch_mono heu F F' s n ac true hh hF
    simp only [runSectionF, sectionHaltsF, this]
    exact ⟨trivial, hh⟩
  | _ => exact ⟨rfl, rfl⟩

end CliF

namespace SrvA
open ServerM ServerAdf

/-- **fuel monotonicity of the solve task**: if the strategy's search halted within `F` iterations, the
solve task's result is the same for every bound `F' ≥ F` -/
theorem solveAdfF_mono (F F' : Nat) (a : SAdf) (s : Strategy) (hh : strategyHalts F a s = true) (hF : F ≤ F') :
    solveAdfF F' a s = solveAdfF F a s := by
  unfold solveAdfF
  rw [(CliF.runSectionF_mono F F' .simple (secOf s) (rebuild a.nodes) a.ac.length a.ac hh hF).1]

theorem strategyHalts_mono (F F' : Nat) (a : SAdf) (s : Strategy) (hh : strategyHalts F a s = true) (hF : F ≤ F') :
    strategyHalts F' a s = true :=
  (CliF.runSectionF_mono F F' .simple (secOf s) (rebuild a.nodes) a.ac.length a.ac hh hF).2

/-- **the answer of the unbounded loop**: if the search halts within `F0` iterations there is ONE result
`res` that the solve task returns for EVERY bound `F ≥ F0`, and it is - as a multiset of three-valued
interpretations - the specification's answer, and the definitional one -/
theorem stored_answers_exact_from_bound (F0 : Nat) (a : SAdf) (n : Nat) (fms : List Fm) (s : Strategy)
    (h : Denotes a n fms) (hh : strategyHalts F0 a s = true) :
    ∃ res, (∀ F, F0 ≤ F → solveAdfF F a s = .ok res ∧ strategyHalts F a s = true) ∧
      (storedI3 res).Perm (Cli.specSection n (CliF.tablesOf n fms) (secOf s)) := by
  obtain ⟨res, h1, h2⟩ := stored_answers_exact_any_table F0 a n fms s h hh
  exact ⟨res, fun F hF => ⟨by rw [solveAdfF_mono F0 F a s hh hF]; exact h1, strategyHalts_mono F0 F a s hh hF⟩, h2⟩

end SrvA
