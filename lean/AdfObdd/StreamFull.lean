import AdfObdd.OpsProofs
/-! C19: the streaming mirror of the node table (`Bdd::with_sender`, `with_receiver`,
    `with_sender_receiver`, `Bdd::recv` of `obdd/frontend.rs`; the `send` in `Bdd::node`).

    producer --pend--> (scheduler) --q1--> relay --q2--> receiver

    * `recvLoop` / `recv` are literal models of `Bdd::recv`: answer `true` at once if the handle
      is present; otherwise `try_recv` message after message — push, forward if there is a
      sender, stop with `true` when the pushed node got the requested handle, stop with `false`
      when `try_recv` fails (`Empty` and `Disconnected` are the same arm in the code, and crossbeam
      reports `Disconnected` only on an empty queue, so "queue is `[]`" models both).
    * channels are FIFO lists (crossbeam: FIFO, lossless — assumption of DESIGN §4).
    * `pend` is the part of the stream that the producer has sent (or is blocked sending) and the
      scheduler has not yet put into the relay's channel; `deliver k` moves `k` messages.  With it
      every cut of the message stream can be placed before every poll.
    * the node type is a parameter: nothing in `recv` looks inside a node. -/
namespace StreamF

variable {α : Type}

/-- result of one `recv` call -/
structure PollRes (α : Type) where
  q : List α          -- what is left in the own receiving channel
  tbl : List α        -- own node table afterwards
  fwd : List α        -- what was sent on through the own sender, in order
  consumed : Nat      -- messages taken from the channel
  found : Bool        -- return value

/-- the `loop { match recv.try_recv() … }` of `Bdd::recv` -/
def recvLoop : List α → List α → Nat → PollRes α
  | [], tbl, _ => { q := [], tbl := tbl, fwd := [], consumed := 0, found := false }
  | n :: q, tbl, t =>
    -- `new_term = Term(self.nodes.len()); self.nodes.push(node); send.send(node)`
    if tbl.length = t then { q := q, tbl := tbl ++ [n], fwd := [n], consumed := 1, found := true }
    else
      let r := recvLoop q (tbl ++ [n]) t
      { q := r.q, tbl := r.tbl, fwd := n :: r.fwd, consumed := r.consumed + 1, found := r.found }

/-- `Bdd::recv(term)`; `hasRecv = false` is a store without a receiving end (the producer) -/
def recv (hasRecv : Bool) (q tbl : List α) (t : Nat) : PollRes α :=
  if t < tbl.length then { q := q, tbl := tbl, fwd := [], consumed := 0, found := true }
  else if hasRecv then recvLoop q tbl t
  else { q := q, tbl := tbl, fwd := [], consumed := 0, found := false }

theorem recvLoop_spec : ∀ (q tbl : List α) (t : Nat), tbl.length ≤ t →
    let r := recvLoop q tbl t
    r.tbl ++ r.q = tbl ++ q ∧ r.tbl = tbl ++ r.fwd ∧ r.fwd.length = r.consumed ∧
    (r.found = true ↔ t < r.tbl.length) ∧
    (r.found = true → r.tbl.length = t + 1) ∧ (r.found = false → r.q = []) := by
  intro q
  induction q with
  | nil => intro tbl t h; simp [recvLoop]; omega
  | cons n q ih =>
    intro tbl t h
    unfold recvLoop
    by_cases he : tbl.length = t
    · rw [if_pos he]; simp; omega
    · rw [if_neg he]
      have ⟨a, b, c, d, e, f⟩ := ih (tbl ++ [n]) t (by simp; omega)
      simp only
      refine ⟨by rw [a]; simp, by rw [b]; simp, by simp [c], d, e, f⟩

theorem recv_spec (q tbl : List α) (t : Nat) :
    let r := recv true q tbl t
    r.tbl ++ r.q = tbl ++ q ∧ r.tbl = tbl ++ r.fwd ∧ r.fwd.length = r.consumed ∧
    (r.found = true ↔ t < r.tbl.length) := by
  unfold recv
  by_cases h : t < tbl.length
  · rw [if_pos h]; simp [h]
  · rw [if_neg h]
    have ⟨a, b, c, d, _, _⟩ := recvLoop_spec q tbl t (by omega)
    exact ⟨a, b, c, d⟩

/-- a poll consumes exactly as many messages as needed: nothing if the handle is present;
stops right at the requested handle when it arrives; empties the channel otherwise -/
theorem recv_exact (q tbl : List α) (t : Nat) :
    let r := recv true q tbl t
    (t < tbl.length → r.tbl = tbl ∧ r.q = q ∧ r.found = true) ∧
    (tbl.length ≤ t → r.found = true → r.tbl.length = t + 1) ∧
    (r.found = false → r.q = [] ∧ r.tbl = tbl ++ q) := by
  unfold recv
  by_cases h : t < tbl.length
  · rw [if_pos h]
    exact ⟨fun _ => ⟨rfl, rfl, rfl⟩, fun h' => by omega, fun hf => by simp at hf⟩
  · rw [if_neg h]
    have ⟨a, _, _, _, e, f⟩ := recvLoop_spec q tbl t (by omega)
    refine ⟨fun h' => absurd h' h, fun _ => e, ?_⟩
    intro hf
    have hq := f hf
    simp only [if_true] at hq a ⊢
    rw [hq, List.append_nil] at a
    exact ⟨hq, a⟩

/-- a store without receiving end answers from its own table only -/
theorem recv_noReceiver (q tbl : List α) (t : Nat) :
    let r := recv false q tbl t
    r.tbl = tbl ∧ r.q = q ∧ (r.found = true ↔ t < tbl.length) := by
  unfold recv
  by_cases h : t < tbl.length
  · rw [if_pos h]; simp [h]
  · rw [if_neg h]; simp [h]

/-! ## the system and its events -/

structure Sys (α : Type) where
  prod : List α     -- producer's node table
  pend : List α     -- sent by the producer, not yet in the relay's channel
  q1 : List α       -- channel producer → relay
  relay : List α    -- relay's node table
  q2 : List α       -- channel relay → receiver
  recv : List α     -- receiver's node table
  k1 : Nat          -- messages the relay has consumed so far
  k2 : Nat          -- messages the receiver has consumed so far

inductive Ev (α : Type) where
  | create (ns : List α)     -- a producer operation inserts these fresh nodes (0..many), sending each
  | deliver (k : Nat)        -- `k` pending messages reach the relay's channel
  | relayPoll (t : Nat)      -- `relay.recv(t)`
  | recvPoll (t : Nat)       -- `receiver.recv(t)`
  | prodPoll (t : Nat)       -- `producer.recv(t)` (no receiving end)

/-- all three stores start as `Bdd::new()`: the same constants `c` (two nodes), nothing in flight -/
def Sys.init (c : List α) : Sys α :=
  { prod := c, pend := [], q1 := [], relay := c, q2 := [], recv := c, k1 := 0, k2 := 0 }

def stepEv (s : Sys α) : Ev α → Sys α × Option Bool
  | .create ns => ({ s with prod := s.prod ++ ns, pend := s.pend ++ ns }, none)
  | .deliver k => ({ s with pend := s.pend.drop k, q1 := s.q1 ++ s.pend.take k }, none)
  | .relayPoll t =>
    let r := recv true s.q1 s.relay t
    ({ s with q1 := r.q, relay := r.tbl, q2 := s.q2 ++ r.fwd, k1 := s.k1 + r.consumed }, some r.found)
  | .recvPoll t =>
    let r := recv true s.q2 s.recv t
    ({ s with q2 := r.q, recv := r.tbl, k2 := s.k2 + r.consumed }, some r.found)
  | .prodPoll t => (s, some (recv false [] s.prod t).found)

def run (evs : List (Ev α)) (s : Sys α) : Sys α := evs.foldl (fun s e => (stepEv s e).1) s

/-- nothing is lost, duplicated or reordered; the counters count the mirrored nodes -/
structure Inv (c : List α) (s : Sys α) : Prop where
  up : s.relay ++ s.q1 ++ s.pend = s.prod
  down : s.recv ++ s.q2 = s.relay
  len1 : s.relay.length = c.length + s.k1
  len2 : s.recv.length = c.length + s.k2

theorem Inv.init (c : List α) : Inv c (Sys.init c) := ⟨by simp [Sys.init], by simp [Sys.init], rfl, rfl⟩

theorem step_inv (c : List α) (s : Sys α) (e : Ev α) (h : Inv c s) : Inv c (stepEv s e).1 := by
  obtain ⟨h1, h2, l1, l2⟩ := h
  cases e with
  | create ns => exact ⟨by simp [stepEv, ← h1], h2, l1, l2⟩
  | deliver k =>
    refine ⟨?_, h2, l1, l2⟩
    simp only [stepEv]
    rw [← h1, List.append_assoc, List.append_assoc, List.append_assoc, List.take_append_drop]
  | relayPoll t =>
    have ⟨a, b, cc, _⟩ := recv_spec s.q1 s.relay t
    refine ⟨?_, ?_, ?_, l2⟩
    · simp only [stepEv]; rw [a]; exact h1
    · simp only [stepEv]; rw [b, ← List.append_assoc, h2]
    · simp only [stepEv]; rw [b, List.length_append, cc, l1]; omega
  | recvPoll t =>
    have ⟨a, b, cc, _⟩ := recv_spec s.q2 s.recv t
    refine ⟨h1, ?_, l1, ?_⟩
    · simp only [stepEv]; rw [a]; exact h2
    · simp only [stepEv]; rw [b, List.length_append, cc, l2]; omega
  | prodPoll t => exact ⟨h1, h2, l1, l2⟩

theorem run_inv (c : List α) (evs : List (Ev α)) (s : Sys α) (h : Inv c s) : Inv c (run evs s) := by
  induction evs generalizing s with
  | nil => exact h
  | cons e evs ih => exact ih _ (step_inv c s e h)

theorem prefix_of_append {a b p : List α} (h : a ++ b = p) : a = p.take a.length := by
  rw [← h]; simp

/-- what the invariant says about the two mirrors -/
theorem Inv.mirror {c : List α} {s : Sys α} (h : Inv c s) :
    s.relay = s.prod.take (c.length + s.k1) ∧ s.recv = s.prod.take (c.length + s.k2) ∧
    s.k2 ≤ s.k1 ∧ c.length + s.k1 ≤ s.prod.length := by
  obtain ⟨h1, h2, l1, l2⟩ := h
  have hr : s.relay = s.prod.take s.relay.length := prefix_of_append (by rw [← h1, List.append_assoc])
  have hv : s.recv = s.relay.take s.recv.length := prefix_of_append h2
  have hle : s.recv.length ≤ s.relay.length := by rw [← h2]; simp
  have hle1 : s.relay.length ≤ s.prod.length := by rw [← h1]; simp
  refine ⟨by rw [← l1]; exact hr, ?_, by omega, by omega⟩
  rw [← l2]
  conv => lhs; rw [hv, hr, List.take_take, Nat.min_eq_left hle]

/-! ## the producer is a real diagram store -/

/-- the nodes an operation appended to the table, in creation order: what `Bdd::node` sent -/
def created (s s' : Store) : List Node := s'.nodes.toList.drop s.nodes.size

theorem ext_toList {s s' : Store} (h : Ext s s') : s'.nodes.toList = s.nodes.toList ++ created s s' := by
  unfold created
  have ht : s'.nodes.toList.take s.nodes.size = s.nodes.toList := by
    apply List.ext_getElem?
    intro i
    rw [List.getElem?_take]
    by_cases hi : i < s.nodes.size
    · rw [if_pos hi]
      obtain ⟨n, hn⟩ := get_of_lt hi
      have := h.2 i n hn
      simp only [Array.getElem?_toList]
      rw [this, hn]
    · rw [if_neg hi]
      simp only [Array.getElem?_toList]
      rw [Array.getElem?_eq_none (by omega)]
  conv => lhs; rw [← List.take_append_drop s.nodes.size s'.nodes.toList, ht]

structure PSys where
  st : Store
  hist : List Nat
  sys : Sys Node

inductive PEv where
  | op (o : Op)            -- the producer performs a diagram-building operation
  | ev (e : Ev Node)       -- `deliver`, polls (a `create` here stands for nothing the code does)

def PSys.init : PSys := { st := Store.init, hist := [0, 1], sys := Sys.init Store.init.nodes.toList }

def pstep (p : PSys) : PEv → PSys × Option Bool
  | .op o =>
    let r := stepOp p.st p.hist o
    ({ st := r.1, hist := p.hist ++ [r.2], sys := (stepEv p.sys (.create (created p.st r.1))).1 }, none)
  | .ev e => let r := stepEv p.sys e; ({ p with sys := r.1 }, r.2)

def prun (evs : List PEv) (p : PSys) : PSys := evs.foldl (fun p e => (pstep p e).1) p

/-- operations refer to issued history positions; the scheduler events are unconstrained except
that only the producer creates nodes -/
def pevsValid : List PEv → Nat → Prop
  | [], _ => True
  | .op o :: es, len => o.valid len ∧ pevsValid es (len + 1)
  | .ev (.create _) :: _, _ => False
  | .ev _ :: es, len => pevsValid es len

structure PInv (p : PSys) : Prop where
  wf : WF p.st
  hist : ∃ fs, HistOK p.st p.hist fs
  tbl : p.sys.prod = p.st.nodes.toList
  inv : Inv Store.init.nodes.toList p.sys

theorem PInv.init : PInv PSys.init :=
  ⟨WF_init, ⟨_, HistOK.init⟩, rfl, Inv.init _⟩

theorem pstep_inv (p : PSys) (e : PEv) (h : PInv p) (hv : pevsValid [e] p.hist.length) : PInv (pstep p e).1 := by
  obtain ⟨w, ⟨fs, hh⟩, ht, hi⟩ := h
  cases e with
  | op o =>
    have g := stepOp_good p.st p.hist fs o w hh hv.1
    refine ⟨g.wf, ⟨_, HistOK.step p.st p.hist fs o w hh hv.1⟩, ?_, step_inv _ _ _ hi⟩
    simp only [pstep, stepEv]
    rw [ht, ext_toList g.ext]
  | ev e =>
    refine ⟨w, ⟨fs, hh⟩, ?_, step_inv _ _ _ hi⟩
    cases e with
    | create ns => exact hv.elim
    | deliver k => exact ht
    | relayPoll t => exact ht
    | recvPoll t => exact ht
    | prodPoll t => exact ht

theorem pstep_hist_len (p : PSys) (e : PEv) :
    (pstep p e).1.hist.length = match e with | .op _ => p.hist.length + 1 | .ev _ => p.hist.length := by
  cases e <;> simp [pstep]

theorem prun_inv : ∀ (evs : List PEv) (p : PSys), PInv p → pevsValid evs p.hist.length → PInv (prun evs p) := by
  intro evs
  induction evs with
  | nil => intro p h _; exact h
  | cons e evs ih =>
    intro p h hv
    have h1 : pevsValid [e] p.hist.length := by
      cases e with
      | op o => exact ⟨hv.1, trivial⟩
      | ev e =>
        cases e with
        | create ns => exact hv.elim
        | deliver k => trivial
        | relayPoll t => trivial
        | recvPoll t => trivial
        | prodPoll t => trivial
    have h2 : pevsValid evs (pstep p e).1.hist.length := by
      rw [pstep_hist_len]
      cases e with
      | op o => exact hv.2
      | ev e =>
        cases e with
        | create ns => exact hv.elim
        | deliver k => exact hv
        | relayPoll t => exact hv
        | recvPoll t => exact hv
        | prodPoll t => exact hv
    exact ih _ (pstep_inv p e h h1) h2

end StreamF
