import AdfObdd.CallHistoryMemo
import AdfObdd.CountSearchLock
import AdfObdd.CountExact
import AdfObdd.NgEndToEnd
/-! # The two searches do not depend on memo contents (C11)

Lock-step lemmas for the counting-guided search (`countAll` = grounded + `GK.search (countParams …)`
+ stability filter) and for the nogood-learning search (`SM.ngSearch` = grounded + `SM.ngRun`):
two runs from well-formed stores with the same node table (memo tables arbitrary) emit the same
vectors in the same ORDER (the nogood search also shows the same interpretations to the heuristic
and halts within the same bound) and end with the same node table.

The heuristics, the goal value and the cube enumeration read the node table only (`pathsF`,
`depsF`, `cubesF`: `*_nodes`); every store-changing step is a composition of `restrictF`
(`MemoT.restrictF_lock`) and constant tests. Validity of the handles is threaded through the
existing invariant `CI.CInv` for the counting search and through `NV` below for the nogood search. -/
namespace CallH
open CI

local macro "triv" : tactic => `(tactic| first | rfl | trivial)

/-! ### reads of the node table -/

theorem pathsF_nodes {s s' : Store} (hn : s'.nodes = s.nodes) : ∀ f t, pathsF s' f t = pathsF s f t := by
  intro f
  induction f with
  | zero => intro t; rfl
  | succ f ih => intro t; unfold pathsF; simp only [hn, ih]

theorem depsF_nodes {s s' : Store} (hn : s'.nodes = s.nodes) : ∀ f t, depsF s' f t = depsF s f t := by
  intro f
  induction f with
  | zero => intro t; rfl
  | succ f ih => intro t; unfold depsF; simp only [hn, ih]

theorem cubesF_nodes {s s' : Store} (hn : s'.nodes = s.nodes) : ∀ f t g gv neg pos,
    cubesF s' f t g gv neg pos = cubesF s f t g gv neg pos := by
  intro f
  induction f with
  | zero => intros; rfl
  | succ f ih => intro t g gv neg pos; unfold cubesF; simp only [hn, ih]

theorem paths_nodes {s s' : Store} (hn : s'.nodes = s.nodes) (t : Nat) : paths s' t = paths s t :=
  pathsF_nodes hn _ _

theorem minPaths_nodes {s s' : Store} (hn : s'.nodes = s.nodes) (t : Nat) : minPaths s' t = minPaths s t := by
  unfold minPaths; rw [paths_nodes hn]

theorem depsOf_nodes {s s' : Store} (hn : s'.nodes = s.nodes) (t : Nat) : depsOf s' t = depsOf s t :=
  depsF_nodes hn _ _

theorem passive_nodes {s s' : Store} (hn : s'.nodes = s.nodes) (v : Nat) (interp : List Nat) :
    passive s' v interp = passive s v interp := by
  unfold passive; simp only [depsOf_nodes hn]

theorem active_nodes {s s' : Store} (hn : s'.nodes = s.nodes) (v : Nat) (interp : List Nat) :
    active s' v interp = active s v interp := by
  unfold active; simp only [depsOf_nodes hn]

theorem heuA_nodes {s s' : Store} (hn : s'.nodes = s.nodes) (interp : List Nat) : heuA s' interp = heuA s interp := by
  funext l r; unfold heuA; simp only [passive_nodes hn, active_nodes hn, minPaths_nodes hn]

theorem heuB_nodes {s s' : Store} (hn : s'.nodes = s.nodes) (interp : List Nat) : heuB s' interp = heuB s interp := by
  funext l r; unfold heuB; simp only [passive_nodes hn, minPaths_nodes hn]

theorem cubesOf_nodes {s s' : Store} (hn : s'.nodes = s.nodes) (t : Nat) (g : Bool) (gv : Nat) :
    cubesOf s' t g gv = cubesOf s t g gv := cubesF_nodes hn _ _ _ _ _ _

/-- every built-in heuristic of the nogood search (and the scripted custom one) reads the node
table only -/
theorem heuCall_nodes (h : SM.Heu) {s s' : Store} (hn : s'.nodes = s.nodes) (v : List Nat) (time : Nat) :
    SM.heuCall h s' v time = SM.heuCall h s v time := by
  have e1 : SM.cmpMinPathsImp s' v = SM.cmpMinPathsImp s v := by
    funext l r; unfold SM.cmpMinPathsImp; simp only [passive_nodes hn, minPaths_nodes hn]
  have e2 : SM.cmpImpMinPaths s' v = SM.cmpImpMinPaths s v := by
    funext l r; unfold SM.cmpImpMinPaths; simp only [passive_nodes hn, minPaths_nodes hn]
  cases h with
  | simple => rfl
  | minPathsMaxVarImp => simp only [SM.heuCall, e1, paths_nodes hn]
  | maxVarImpMinPaths => simp only [SM.heuCall, e2, paths_nodes hn]
  | script seed => rfl

/-! ### store-threading maps -/

/-- `f` runs in lock step on stores with the same node table -/
def FLock (f : Store → Nat → Store × Nat) : Prop :=
  ∀ s s' t, Lk s s' → t < s.nodes.size →
    Lk (f s t).1 (f s' t).1 ∧ Ext s (f s t).1 ∧ (f s t).2 < (f s t).1.nodes.size ∧ (f s' t).2 = (f s t).2

theorem mapS_lock {f : Store → Nat → Store × Nat} (hf : FLock f) : ∀ (xs : List Nat) (s s' : Store), Lk s s' →
    (∀ t ∈ xs, t < s.nodes.size) →
    Lk (mapS f s xs).1 (mapS f s' xs).1 ∧ Ext s (mapS f s xs).1 ∧
    (∀ t ∈ (mapS f s xs).2, t < (mapS f s xs).1.nodes.size) ∧ (mapS f s' xs).2 = (mapS f s xs).2 := by
  intro xs
  induction xs with
  | nil => intro s s' h _; exact ⟨h, Ext.refl _, (fun _ hx => by cases hx), rfl⟩
  | cons x xs ih =>
    intro s s' h hv
    have ⟨a1, e1, v1, d1⟩ := hf s s' x h (hv x (List.mem_cons_self ..))
    have ⟨a2, e2, v2, d2⟩ := ih _ _ a1 (fun y hy => Nat.lt_of_lt_of_le (hv y (List.mem_cons_of_mem _ hy)) e1.1)
    simp only [mapS]
    refine ⟨a2, e1.trans e2, ?_, by rw [d1, d2]⟩
    intro y hy
    rcases List.mem_cons.mp hy with hh | hh
    · rw [hh]; exact Nat.lt_of_lt_of_le v1 e2.1
    · exact v2 y hh

theorem flock_restrictBy (interp : List Nat) : FLock (fun s t => restrictBy StoreRA s t 0 interp) :=
  fun s s' t h ht => restrictBy_lock interp 0 s s' t h ht

theorem flock_restrictF (v : Nat) (b : Bool) : FLock (fun s t => restrictF (t + 1) s t v b) := by
  intro s s' t h ht
  have ht' : t < s'.nodes.size := by rw [h.nodes]; exact ht
  have ⟨w1, e1, v1, _, _⟩ := restrictF_spec (t + 1) s t v b h.w ht (Nat.lt_succ_self _)
  have ⟨w1', _, _, _, _⟩ := restrictF_spec (t + 1) s' t v b h.w' ht' (Nat.lt_succ_self _)
  have ⟨n1, r1⟩ := MemoT.restrictF_lock (t + 1) s s' t v b h.w h.w' h.nodes ht (Nat.lt_succ_self _)
  exact ⟨⟨w1, w1', n1⟩, e1, v1, r1⟩

/-- `apply_interpretation` (only the restricted handles have to be valid; the interpretation is
only tested for constants) -/
theorem applyVec_lock (interp xs : List Nat) (s s' : Store) (h : Lk s s') (hv : ∀ t ∈ xs, t < s.nodes.size) :
    Lk (applyVec s interp xs).1 (applyVec s' interp xs).1 ∧ Ext s (applyVec s interp xs).1 ∧
    (∀ t ∈ (applyVec s interp xs).2, t < (applyVec s interp xs).1.nodes.size) ∧
    (applyVec s' interp xs).2 = (applyVec s interp xs).2 := by
  rw [applyVec_eq, applyVec_eq]; exact mapS_lock (flock_restrictBy interp) xs s s' h hv

theorem mapRestrict_lock (v : Nat) (b : Bool) (xs : List Nat) (s s' : Store) (h : Lk s s')
    (hv : ∀ t ∈ xs, t < s.nodes.size) :
    Lk (mapRestrict s v b xs).1 (mapRestrict s' v b xs).1 ∧ Ext s (mapRestrict s v b xs).1 ∧
    (∀ t ∈ (mapRestrict s v b xs).2, t < (mapRestrict s v b xs).1.nodes.size) ∧
    (mapRestrict s' v b xs).2 = (mapRestrict s v b xs).2 := by
  rw [mapRestrict_eq, mapRestrict_eq]; exact mapS_lock (flock_restrictF v b) xs s s' h hv

theorem applyInterp_eq_applyVec (interp : List Nat) : ∀ (xs : List Nat) (s : Store),
    applyInterp s interp xs = applyVec s interp xs := by
  intro xs
  induction xs with
  | nil => intro s; rfl
  | cons x xs ih => intro s; simp only [applyInterp, applyVec, ih]

theorem applyInterp_lock (interp xs : List Nat) (s s' : Store) (h : Lk s s') (hv : ∀ t ∈ xs, t < s.nodes.size) :
    Lk (applyInterp s interp xs).1 (applyInterp s' interp xs).1 ∧ Ext s (applyInterp s interp xs).1 ∧
    (∀ t ∈ (applyInterp s interp xs).2, t < (applyInterp s interp xs).1.nodes.size) ∧
    (applyInterp s' interp xs).2 = (applyInterp s interp xs).2 := by
  rw [applyInterp_eq_applyVec, applyInterp_eq_applyVec]; exact applyVec_lock interp xs s s' h hv

theorem valid_set {s : Store} (w : WF s) {l : List Nat} (hl : ∀ t ∈ l, t < s.nodes.size) (i x : Nat) (hx : x < 2) :
    ∀ t ∈ l.set i x, t < s.nodes.size := by
  intro t ht
  rcases List.mem_or_eq_of_mem_set ht with h | h
  · exact hl t h
  · rw [h]; have := one_lt s w; omega

/-! ### the steps of the counting-guided search -/

theorem ite_pair {α β : Type} (p : Prop) [Decidable p] (a : α) (x y : β) :
    (if p then (a, x) else (a, y)) = (a, if p then x else y) := by split <;> rfl

/-- the answer of the flip step as a function of the two vectors it computes -/
def flipOut (c2 : List Nat) (idx : Nat) (g : Bool) (ni upd : List Nat) : Option CState :=
  if noInfIncons (ni.getD idx 0) (upd.getD idx 0) then
    (if noInfIncons (ni.getD idx 0) (if g then 0 else 1) then
      some (upd.set idx (if g then 0 else 1), c2.set idx (ni.getD idx 0)) else none)
  else none

theorem flipStep_eq (ac : List Nat) (useA : Bool) (s : Store) (c : CState) (idx : Nat) (g : Bool) :
    (countParams ac useA).flipStep s c idx g =
      ((applyVec (mapRestrict s idx (!g) c.1).1 (mapRestrict s idx (!g) c.1).2 (mapRestrict s idx (!g) c.1).2).1,
       flipOut c.2 idx g (mapRestrict s idx (!g) c.1).2
         (applyVec (mapRestrict s idx (!g) c.1).1 (mapRestrict s idx (!g) c.1).2 (mapRestrict s idx (!g) c.1).2).2) := by
  simp only [countParams, flipOut, ite_pair]

/-- the vector `apply_interpretation` is called with at a leaf -/
def concluded (c : CState) : List Nat := c.1.zipIdx.map (fun (t, i) => if !isTV t then c.2.getD i 2 else t)

theorem leaf_eq' (ac : List Nat) (useA : Bool) (s : Store) (c : CState) :
    (countParams ac useA).leaf s c =
      ((applyVec s (concluded c) ac).1,
       if consistentWith (applyVec s (concluded c) ac).2 (concluded c) then [(applyVec s (concluded c) ac).2]
       else [c.1]) := by
  simp only [countParams, concluded, ite_pair]
  rfl

theorem cubeStep_eq (ac : List Nat) (useA : Bool) (s : Store) (c : CState) (idx : Nat) (g : Bool) (cu : PCube) :
    (countParams ac useA).cubeStep s c idx g cu =
      (match applyCube c.1 c.2 cu with
       | none => (s, none)
       | some ni =>
         ((applyVec s (ni.set idx (if g then 1 else 0)) (ni.set idx (if g then 1 else 0))).1,
          if consistentWith (applyVec s (ni.set idx (if g then 1 else 0)) (ni.set idx (if g then 1 else 0))).2 c.2
          then some ((applyVec s (ni.set idx (if g then 1 else 0)) (ni.set idx (if g then 1 else 0))).2, c.2)
          else none)) := rfl

/-- the steps of `two_val_model_counts_logic` run in lock step on stores with the same node table -/
theorem lockLaws (n : Nat) (ac : List Nat) (T : Asg → Prop) (useA : Bool) :
    GK.LockLaws (countParams ac useA) (view n ac T) Lk where
  pick := by
    intro s s' c h _
    simp only [countParams, heuA_nodes h.nodes, heuB_nodes h.nodes]
  goal := by
    intro s s' c idx h _
    simp only [countParams, paths_nodes h.nodes]
  cubes := by
    intro s s' c idx g h _
    simp only [countParams, cubesOf_nodes h.nodes]
  cubeStep := by
    intro s s' c idx g cu h hinv
    have hinv : CInv n ac T s c := hinv
    rw [cubeStep_eq, cubeStep_eq]
    cases happ : applyCube c.1 c.2 cu with
    | none => exact ⟨h, rfl⟩
    | some ni =>
      simp only
      have hni : ∀ t ∈ ni, t < s.nodes.size := by
        intro t ht
        obtain ⟨j, hj⟩ := List.mem_iff_getElem?.mp ht
        rcases applyCube_prov happ j t hj with e | e | e
        · exact hinv.val t (List.mem_of_getElem? e)
        · rw [e]; exact zero_lt s h.w
        · rw [e]; exact one_lt s h.w
      have hx : (if g then 1 else 0 : Nat) < 2 := by cases g <;> simp
      have ⟨a, _, _, d⟩ := applyVec_lock (ni.set idx (if g then 1 else 0)) (ni.set idx (if g then 1 else 0)) s s' h
        (valid_set h.w hni idx _ hx)
      exact ⟨a, by rw [d]⟩
  flipStep := by
    intro s s' c idx g h hinv
    have hinv : CInv n ac T s c := hinv
    rw [flipStep_eq, flipStep_eq]
    have ⟨a1, _, v1, d1⟩ := mapRestrict_lock idx (!g) c.1 s s' h hinv.val
    rw [d1]
    have ⟨a2, _, _, d2⟩ := applyVec_lock (mapRestrict s idx (!g) c.1).2 (mapRestrict s idx (!g) c.1).2 _ _ a1 v1
    exact ⟨a2, by rw [d2]⟩
  leaf := by
    intro s s' c h hinv
    have hinv : CInv n ac T s c := hinv
    rw [leaf_eq', leaf_eq']
    have ⟨a, _, _, d⟩ := applyVec_lock (concluded c) ac s s' h hinv.valac
    exact ⟨a, by rw [d]⟩

/-- `stability_check` -/
theorem stabilityCheckC_lock (n : Nat) (ac cand : List Nat) (s0 s s' : Store) (h : Lk s s') (he : Ext s0 s)
    (hv : ∀ a ∈ ac, a < s0.nodes.size) :
    Lk (stabilityCheckC s n ac cand).1 (stabilityCheckC s' n ac cand).1 ∧
    Ext s0 (stabilityCheckC s n ac cand).1 ∧
    (stabilityCheckC s' n ac cand).2 = (stabilityCheckC s n ac cand).2 := by
  have ⟨a, e, d⟩ := stableTest_lock n ac cand s0 s s' h he hv
  unfold stabilityCheckC
  simp only
  exact ⟨a, e, by rw [d]⟩

theorem stableFilter_lock (n : Nat) (ac : List Nat) (cands : List (List Nat)) (s0 s s' : Store) (h : Lk s s')
    (he : Ext s0 s) (hv : ∀ a ∈ ac, a < s0.nodes.size) :
    Lk (stableFilter n ac cands s).1 (stableFilter n ac cands s').1 ∧
    (stableFilter n ac cands s').2 = (stableFilter n ac cands s).2 := by
  unfold stableFilter
  have := foldl_lock (fun (acc : Store × List (List Nat)) v =>
      let chk := stabilityCheckC acc.1 n ac v
      (chk.1, if chk.2 then acc.2 ++ [v] else acc.2)) s0
    (by
      intro a a' x hl he' hd
      have ⟨a2, e2, d2⟩ := stabilityCheckC_lock n ac x s0 a.1 a'.1 hl he' hv
      exact ⟨a2, e2, by simp only [d2, hd]⟩)
    cands (s, []) (s', []) h he rfl
  exact ⟨this.1, this.2.2⟩

/-- **`stable_count_optimisation_heu_a/b`**: same vectors in the same order, same node table -/
theorem countAll_lock (s s' : Store) (n : Nat) (ac : List Nat) (useA : Bool) (h : Lk s s') (hn : ac.length = n)
    (hv : ∀ a ∈ ac, a < s.nodes.size) :
    Lk (countAll s n ac useA).1 (countAll s' n ac useA).1 ∧ (countAll s' n ac useA).2 = (countAll s n ac useA).2 := by
  have ⟨a1, _, _, d1⟩ := groundedLoop_lock (n + 1) s s' ac h hv
  have ⟨hinv, e0⟩ := CI.start_inv s n ac h.w hn hv
  have sp := CI.countLogic_spec useA hinv
  have ⟨a2, d2⟩ := GK.search_lock (csound n ac (TM (ac.map (eval s))) useA) (lockLaws n ac _ useA) (n + 1)
    _ _ _ hinv a1 (by show n - _ < n + 1; omega)
  unfold countAll countLogic
  simp only
  rw [d1, d2]
  exact stableFilter_lock n ac _ s _ _ a2 (e0.trans sp.le.1) hv

/-! ### the nogood-learning search -/

open NConc

/-- validity of the handles a state of the nogood search holds -/
structure NV (ac : List Nat) (c : SM.NgS) : Prop where
  cur : ∀ t ∈ c.cur, t < c.s.nodes.size
  hist : ∀ h ∈ c.hist, ∀ t ∈ h, t < c.s.nodes.size
  ac : ∀ t ∈ ac, t < c.s.nodes.size

/-- the same state over another store -/
abbrev wS (c : SM.NgS) (s : Store) : SM.NgS := { c with s := s }

/-- what a phase of the iteration has to satisfy -/
def PLock (ac : List Nat) (F : SM.NgS → SM.NgS) (c : SM.NgS) (s' : Store) : Prop :=
  F (wS c s') = wS (F c) (F (wS c s')).s ∧ Lk (F c).s (F (wS c s')).s ∧ NV ac (F c)

theorem nv_store {ac : List Nat} {c : SM.NgS} (hv : NV ac c) {s1 : Store} (e : Ext c.s s1) : NV ac (wS c s1) :=
  ⟨fun t ht => Nat.lt_of_lt_of_le (hv.cur t ht) e.1,
   fun h hh t ht => Nat.lt_of_lt_of_le (hv.hist h hh t ht) e.1,
   fun t ht => Nat.lt_of_lt_of_le (hv.ac t ht) e.1⟩

theorem nv_of {ac : List Nat} {c c' : SM.NgS} (hv : NV ac c) (e : Ext c.s c'.s) (hc : c'.cur = c.cur)
    (hh : c'.hist = c.hist) : NV ac c' :=
  ⟨fun t ht => Nat.lt_of_lt_of_le (hv.cur t (hc ▸ ht)) e.1,
   fun h hm t ht => Nat.lt_of_lt_of_le (hv.hist h (hh ▸ hm) t ht) e.1,
   fun t ht => Nat.lt_of_lt_of_le (hv.ac t ht) e.1⟩

theorem popLoop_valid (P : List Nat → Prop) : ∀ (stack : List (Bool × PA)) (buckets : List (List PA))
    (cur : List Nat) (hist : List (List Nat)), P cur → (∀ h ∈ hist, P h) →
    P (SM.popLoop buckets cur hist stack).2.2.1 ∧ ∀ h ∈ (SM.popLoop buckets cur hist stack).2.2.2, P h := by
  intro stack
  induction stack with
  | nil => intro b cur hist hc hh; exact ⟨hc, hh⟩
  | cons e rest ih =>
    intro b cur hist hc hh
    obtain ⟨ch, g⟩ := e
    cases ch with
    | false => simp only [SM.popLoop, Bool.false_eq_true, if_false]; exact ih _ cur hist hc hh
    | true =>
      simp only [SM.popLoop, if_true]
      refine ⟨?_, fun h hm => hh h (List.mem_of_mem_tail hm)⟩
      cases hist with
      | nil => exact hc
      | cons x xs => exact hh x (List.mem_cons_self ..)

theorem cChoice_lock {hc : CHeu} (hok : HeuOK hc)
    (hcong : ∀ (s s' : Store) v time, s'.nodes = s.nodes → hc s' v time = hc s v time)
    (ac : List Nat) (c : SM.NgS) (s' : Store) (h : Lk c.s s') (hv : NV ac c) :
    cChoice hc (wS c s') = wS (cChoice hc c) s' ∧ (cChoice hc c).s = c.s ∧ NV ac (cChoice hc c) := by
  unfold cChoice
  by_cases hch : c.choice = true
  · have e : hc s' c.cur c.time = hc c.s c.cur c.time := hcong _ _ _ _ h.nodes
    simp only [hch, if_true, e]
    cases hh : hc c.s c.cur c.time with
    | none => exact ⟨(by triv), (by triv), ⟨hv.cur, hv.hist, hv.ac⟩⟩
    | some p =>
      obtain ⟨v, t⟩ := p
      have ⟨ht, _, _⟩ := hok.valid _ _ _ _ _ hh
      refine ⟨(by triv), (by triv), ⟨valid_set h.w hv.cur v t ht, ?_, hv.ac⟩⟩
      intro x hx
      rcases List.mem_cons.mp hx with e | e
      · rw [e]; exact hv.cur
      · exact hv.hist x e
  · simp only [hch, Bool.false_eq_true, if_false]
    exact ⟨(by triv), (by triv), hv⟩

theorem cBack_lock (ac : List Nat) (c : SM.NgS) (s' : Store) (hv : NV ac c) :
    cBack (wS c s') = wS (cBack c) s' ∧ (cBack c).s = c.s ∧ NV ac (cBack c) := by
  unfold cBack
  by_cases hb : c.backtrack = true
  · simp only [hb, if_true]
    have ⟨p1, p2⟩ := popLoop_valid (fun l => ∀ t ∈ l, t < c.s.nodes.size) c.stack c.buckets c.cur c.hist hv.cur hv.hist
    exact ⟨(by triv), (by triv), ⟨p1, p2, hv.ac⟩⟩
  · simp only [hb, Bool.false_eq_true, if_false]
    exact ⟨(by triv), (by triv), hv⟩

theorem stabilityCheck_lock (n : Nat) (ac cand : List Nat) (s s' : Store) (h : Lk s s')
    (hv : ∀ a ∈ ac, a < s.nodes.size) :
    Lk (stabilityCheck s n ac cand).1 (stabilityCheck s' n ac cand).1 ∧
    Ext s (stabilityCheck s n ac cand).1 ∧
    (stabilityCheck s' n ac cand).2 = (stabilityCheck s n ac cand).2 :=
  stabilityCheckC_lock n ac cand s s s' h (Ext.refl _) hv

theorem cClass_lock (n : Nat) (ac : List Nat) (stable : Bool) (c : SM.NgS) (s' : Store) (h : Lk c.s s')
    (hv : NV ac c) : PLock ac (cClass n ac stable) c s' := by
  unfold PLock cClass
  by_cases hall : (!(c.cur.all isTV)) = true
  · simp only [hall, if_true]
    exact ⟨(by triv), h, nv_of hv (Ext.refl _) rfl rfl⟩
  · simp only [hall, Bool.false_eq_true, if_false]
    have key : Lk (if stable then stabilityCheck c.s n ac c.cur else (c.s, true)).1
          (if stable then stabilityCheck s' n ac c.cur else (s', true)).1 ∧
        Ext c.s (if stable then stabilityCheck c.s n ac c.cur else (c.s, true)).1 ∧
        (if stable then stabilityCheck s' n ac c.cur else (s', true)).2 =
          (if stable then stabilityCheck c.s n ac c.cur else (c.s, true)).2 := by
      cases stable with
      | false => exact ⟨h, Ext.refl _, rfl⟩
      | true => exact stabilityCheck_lock n ac c.cur c.s s' h hv.ac
    obtain ⟨k1, k2, k3⟩ := key
    rw [k3]
    by_cases hb : (if stable then stabilityCheck c.s n ac c.cur else (c.s, true)).2 = true
    · simp only [hb, if_true]
      exact ⟨(by triv), k1, nv_of hv k2 rfl rfl⟩
    · simp only [hb, Bool.false_eq_true, if_false]
      exact ⟨(by triv), k1, nv_of hv k2 rfl rfl⟩

theorem cProp_lock (n : Nat) (ac : List Nat) (stable : Bool) (updNg : Bool) (c : SM.NgS) (s' : Store) (h : Lk c.s s')
    (hv : NV ac c) : PLock ac (fun c => cProp n ac stable c updNg) c s' := by
  have ⟨a, e, v, d⟩ := applyInterp_lock c.cur c.cur c.s s' h hv.cur
  have hv1 : NV ac { c with s := (applyInterp c.s c.cur c.cur).1, cur := (applyInterp c.s c.cur c.cur).2 } :=
    ⟨v, (nv_store hv e).hist, (nv_store hv e).ac⟩
  unfold PLock cProp
  simp only
  rw [d]
  by_cases h1 : ((applyInterp c.s c.cur c.cur).2 != c.cur) = true
  · simp only [h1, if_true]
    exact ⟨(by triv), a, hv1⟩
  · simp only [h1, Bool.false_eq_true, if_false]
    by_cases h2 : updNg = true
    · simp only [h2, if_true]
      exact ⟨(by triv), a, hv1⟩
    · simp only [h2, Bool.false_eq_true, if_false]
      exact cClass_lock n ac stable
        { c with s := (applyInterp c.s c.cur c.cur).1, cur := (applyInterp c.s c.cur c.cur).2 } _ a hv1

theorem cFinal_lock (n : Nat) (ac : List Nat) (stable : Bool) (updNg : Bool) (c : SM.NgS) (s' : Store) (h : Lk c.s s')
    (hv : NV ac c) : PLock ac (fun c => cFinal n ac stable c updNg) c s' := by
  have ⟨a, e, _, d⟩ := applyInterp_lock c.cur ac c.s s' h hv.ac
  have hv1 : NV ac { c with s := (applyInterp c.s c.cur ac).1 } := nv_store hv e
  unfold PLock cFinal
  simp only
  rw [d]
  by_cases h1 : ((c.cur.zip (applyInterp c.s c.cur ac).2).any (fun (c, a) => isTV c && isTV a && (c != a))) = true
  · simp only [h1, if_true]
    exact ⟨(by triv), a, nv_of hv1 (Ext.refl _) rfl rfl⟩
  · simp only [h1, Bool.false_eq_true, if_false]
    exact cProp_lock n ac stable updNg { c with s := (applyInterp c.s c.cur ac).1 } _ a hv1

theorem cTail_lock (n : Nat) (ac : List Nat) (stable : Bool) (c : SM.NgS) (s' : Store) (h : Lk c.s s')
    (hv : NV ac c) : PLock ac (cTail n ac stable) c s' := by
  unfold PLock cTail
  show (match SM.closureF c.buckets c.cur with
      | ClosT.inconsistent => { wS c s' with backtrack := true }
      | ClosT.update r => cFinal n ac stable { wS c s' with cur := r, stack := (false, toPA r) :: c.stack } true
      | ClosT.noUpdate => cFinal n ac stable (wS c s') false) = _ ∧ _
  cases hc : SM.closureF c.buckets c.cur with
  | inconsistent => exact ⟨(by triv), h, nv_of hv (Ext.refl _) rfl rfl⟩
  | noUpdate => exact cFinal_lock n ac stable false c s' h hv
  | update r =>
    have hr : ∀ t ∈ r, t < c.s.nodes.size := by
      rw [closureF_eq] at hc
      cases hcc : conclusionClosure c.buckets (toPA c.cur) with
      | inconsistent => rw [hcc] at hc; cases hc
      | noUpdate => rw [hcc] at hc; cases hc
      | update R =>
        rw [hcc] at hc
        simp only [liftC, ClosT.update.injEq] at hc
        rw [← hc]; exact updH_valid h.w hv.cur R
    exact cFinal_lock n ac stable true { c with cur := r, stack := (false, toPA r) :: c.stack } s' h
      ⟨hr, hv.hist, hv.ac⟩

/-- **one iteration of `nogood_internal`** in lock step -/
theorem cIter_lock {hc : CHeu} (hok : HeuOK hc)
    (hcong : ∀ (s s' : Store) v time, s'.nodes = s.nodes → hc s' v time = hc s v time)
    (n : Nat) (ac : List Nat) (stable : Bool) (c : SM.NgS) (s' : Store) (h : Lk c.s s') (hv : NV ac c) :
    PLock ac (cIter hc n ac stable) c s' := by
  have ⟨a1, b1, v1⟩ := cChoice_lock hok hcong ac c s' h hv
  have ⟨a2, b2, v2⟩ := cBack_lock ac (cChoice hc c) s' v1
  unfold PLock cIter
  simp only
  rw [a1]
  by_cases hd : ((cChoice hc c).backtrack && (cChoice hc c).stack.isEmpty) = true
  · simp only [hd, if_true]
    exact ⟨(by triv), by show Lk (cChoice hc c).s s'; rw [b1]; exact h, ⟨v1.cur, v1.hist, v1.ac⟩⟩
  · simp only [hd, Bool.false_eq_true, if_false]
    rw [a2]
    exact cTail_lock n ac stable (cBack (cChoice hc c)) s' (by rw [b2, b1]; exact h) v2

/-- the whole loop, for every bound -/
theorem cRun_lock {hc : CHeu} (hok : HeuOK hc)
    (hcong : ∀ (s s' : Store) v time, s'.nodes = s.nodes → hc s' v time = hc s v time)
    (n : Nat) (ac : List Nat) (stable : Bool) : ∀ (fuel : Nat) (c : SM.NgS) (s' : Store), Lk c.s s' → NV ac c →
    PLock ac (cRun hc n ac stable fuel) c s' := by
  intro fuel
  induction fuel with
  | zero => intro c s' h hv; exact ⟨(by triv), h, hv⟩
  | succ f ih =>
    intro c s' h hv
    unfold PLock
    simp only [cRun]
    by_cases hd : c.done = true
    · simp only [hd, if_true]; exact ⟨(by triv), h, hv⟩
    · simp only [hd, Bool.false_eq_true, if_false]
      have ⟨a1, l1, v1⟩ := cIter_lock hok hcong n ac stable c s' h hv
      rw [a1]
      exact ih _ _ l1 v1

/-- **`stable_nogood` / `two_val_nogood`**: same vectors in the same order, same interpretations
shown to the heuristic, halting within the same bound, same node table -/
theorem ngSearch_lock (heu : SM.Heu) (fuel : Nat) (s s' : Store) (n : Nat) (ac : List Nat) (stable : Bool)
    (h : Lk s s') (hv : ∀ a ∈ ac, a < s.nodes.size) :
    Lk (SM.ngSearch heu fuel s n ac stable).1 (SM.ngSearch heu fuel s' n ac stable).1 ∧
    (SM.ngSearch heu fuel s' n ac stable).2 = (SM.ngSearch heu fuel s n ac stable).2 := by
  have ⟨a1, e1, v1, d1⟩ := groundedLoop_lock (n + 1) s s' ac h hv
  have hi : initC s' n ac = wS (initC s n ac) (groundedLoop StoreRA (n + 1) s' ac).1 := by
    simp only [initC, d1]
  have hv0 : NV ac (initC s n ac) :=
    ⟨v1, (fun _ hh => by cases hh), fun t ht => Nat.lt_of_lt_of_le (hv t ht) e1.1⟩
  have ⟨r1, r2, _⟩ := cRun_lock (heuOK_builtin heu) (fun s s' v time hn => heuCall_nodes heu hn v time)
    n ac stable fuel (initC s n ac) _ a1 hv0
  rw [ngSearch_eq, ngSearch_eq]
  unfold cSearch
  rw [hi, r1]
  exact ⟨r2, rfl⟩

end CallH
