import AdfObdd.OpsProofs
/-! # Memo transparency

The handles returned and the node table produced by the diagram operations do not depend on the
contents of the memo tables (`iteC`, `resC`), only on the node table.

* Lemma A (`restrictF_rep`, `iteF_rep`): if the result function is already represented by a handle
  `r` of the store, the operation returns `r` and allocates nothing.
* Lemma B (`restrictF_lock`, `iteF_lock`): two well-formed stores with the same node table (any memo
  contents on either side) return the same handle and produce the same node table.
* `stepOp_memo_transparent`, `runOps_memo_transparent`: the same for the operation language. -/

namespace MemoT

/-! ## small facts -/

theorem opt_ext {α : Type} {x y : Option α} (h : ∀ a, x = some a ↔ y = some a) : x = y := by
  cases x with
  | none =>
    cases y with
    | none => rfl
    | some b => have := (h b).mpr rfl; cases this
  | some a => exact ((h a).mp rfl).symm

/-- unique-table lookups are determined by the node table -/
theorem uniq_congr {s s' : Store} (w : WF s) (w' : WF s') (hn : s'.nodes = s.nodes) (n : Node) :
    s'.uniq[n]? = s.uniq[n]? := by
  apply opt_ext
  intro t
  rw [w'.uniqOK n t, w.uniqOK n t, hn]

/-- `mkNode` in lockstep -/
theorem mkNode_lock {s s' : Store} (w : WF s) (w' : WF s') (hn : s'.nodes = s.nodes) (v lo hi : Nat) :
    (mkNode s' v lo hi).1.nodes = (mkNode s v lo hi).1.nodes ∧ (mkNode s' v lo hi).2 = (mkNode s v lo hi).2 := by
  unfold mkNode
  by_cases h : lo = hi
  · simp only [if_pos h]; exact ⟨hn, trivial⟩
  · simp only [if_neg h]
    rw [uniq_congr w w' hn]
    cases s.uniq[(⟨v, lo, hi⟩ : Node)]? with
    | some t => exact ⟨hn, rfl⟩
    | none => simp only [hn]; exact ⟨trivial, trivial⟩

/-- `mkNode` of an existing node allocates nothing and returns that node -/
theorem mkNode_found {s : Store} (w : WF s) (v lo hi r : Nat) (hne : lo ≠ hi) (hr : 2 ≤ r)
    (hnode : s.nodes[r]? = some ⟨v, lo, hi⟩) : mkNode s v lo hi = (s, r) := by
  unfold mkNode
  rw [if_neg hne, (w.uniqOK _ r).mpr ⟨hr, hnode⟩]

/-- an inner node's function depends on its variable -/
theorem inner_depends {s : Store} (w : WF s) {r : Nat} {m : Node} (hr : 2 ≤ r) (hm : s.nodes[r]? = some m)
    (h : ∀ σ b, eval s r (upd σ m.var b) = eval s r σ) : False := by
  have ⟨_, hlo, hhi, hne, _, _⟩ := w.inner r m hr hm
  have hlen := lt_of_get hm
  apply hne
  apply (canonical s w m.lo m.hi (by omega) (by omega)).mp
  intro σ
  rw [eval_lo s w r m hr hm, eval_hi s w r m hr hm, h, h]

/-- the top variable is the least essential variable: a function that ignores every variable
below `x` has its top variable at `x` or above -/
theorem le_topVar_of_indep {s : Store} (w : WF s) (r x : Nat) (hr : r < s.nodes.size) (hx : x ≤ VBOT)
    (h : ∀ y, y < x → ∀ σ b, eval s r (upd σ y b) = eval s r σ) : x ≤ topVar s r := by
  obtain ⟨m, hm⟩ := get_of_lt hr
  have htv : topVar s r = m.var := by simp [topVar, hm]
  rw [htv]
  rcases Nat.lt_or_ge m.var x with hlt | hge
  · exfalso
    have hr2 : 2 ≤ r := inner_of_not_const w hm (by omega)
    exact inner_depends w hr2 hm (h m.var hlt)
  · exact hge

theorem upd_comm (σ : Asg) {x y : Nat} (a b : Bool) (hxy : x ≠ y) :
    upd (upd σ x a) y b = upd (upd σ y b) x a := by
  funext z; simp only [upd]
  by_cases h1 : z = y <;> by_cases h2 : z = x <;> simp only [h1, h2, if_true, if_false]
  · subst h1; subst h2; exact absurd rfl hxy
  · rw [if_neg (fun h => hxy h.symm)]
  · rw [if_neg hxy]

theorem upd_upd (σ : Asg) (x : Nat) (a b : Bool) : upd (upd σ x a) x b = upd σ x b := by
  funext z; simp only [upd]; split <;> rfl

/-- the cofactors of a represented function along a variable not above its top variable are
represented: by the node's children, or by the node itself -/
theorem cofRep {s : Store} (w : WF s) (r x : Nat) (hr : r < s.nodes.size) (hx : x ≤ topVar s r)
    (hxb : x < VBOT) :
    ∃ lo hi, lo < s.nodes.size ∧ hi < s.nodes.size ∧
      (∀ σ, eval s lo σ = eval s r (upd σ x false)) ∧ (∀ σ, eval s hi σ = eval s r (upd σ x true)) ∧
      (lo = hi → lo = r) ∧ (lo ≠ hi → 2 ≤ r ∧ s.nodes[r]? = some ⟨x, lo, hi⟩) := by
  rcases Nat.lt_or_ge x (topVar s r) with hlt | hge
  · refine ⟨r, r, hr, hr, ?_, ?_, fun _ => rfl, fun h => absurd rfl h⟩
    · intro σ; exact (eval_upd_of_lt s w r hr x false hlt σ).symm
    · intro σ; exact (eval_upd_of_lt s w r hr x true hlt σ).symm
  · obtain ⟨m, hm⟩ := get_of_lt hr
    have htv : topVar s r = m.var := by simp [topVar, hm]
    have hxm : x = m.var := by omega
    have hr2 : 2 ≤ r := inner_of_not_const w hm (by omega)
    have ⟨_, hlo, hhi, hne, _, _⟩ := w.inner r m hr2 hm
    subst hxm
    refine ⟨m.lo, m.hi, by omega, by omega, eval_lo s w r m hr2 hm, eval_hi s w r m hr2 hm,
      fun h => absurd h hne, fun _ => ⟨hr2, hm⟩⟩

/-- a handle whose two cofactors along `x` are `lo`, `hi` is what `mkNode x lo hi` finds -/
theorem mkNode_cof {s s0 : Store} (w : WF s) (hn : s.nodes = s0.nodes) (x lo hi r : Nat)
    (h1 : lo = hi → lo = r) (h2 : lo ≠ hi → 2 ≤ r ∧ s0.nodes[r]? = some ⟨x, lo, hi⟩) :
    mkNode s x lo hi = (s, r) := by
  by_cases h : lo = hi
  · have := h1 h
    unfold mkNode; rw [if_pos h, this]
  · have ⟨a, b⟩ := h2 h
    exact mkNode_found w x lo hi r h a (by rw [hn]; exact b)

/-! ## restrict -/

theorem restrictF_hit {s : Store} {t v : Nat} {b : Bool} {r : Nat} (f : Nat)
    (h : s.resC[(t, v, b)]? = some r) : restrictF (f+1) s t v b = (s, r) := by
  unfold restrictF; simp only [h]

/-- **Lemma A for `restrictF`**: a represented result is returned without allocating -/
theorem restrictF_rep : ∀ (fuel : Nat) (s : Store) (t v : Nat) (b : Bool) (r : Nat),
    WF s → t < s.nodes.size → t < fuel → r < s.nodes.size →
    (∀ σ, eval s r σ = eval s t (upd σ v b)) →
    (restrictF fuel s t v b).1.nodes = s.nodes ∧ (restrictF fuel s t v b).2 = r := by
  intro fuel
  induction fuel with
  | zero => intro s t v b r _ _ h; omega
  | succ f ih =>
    intro s t v b r w ht hf hr hev
    cases hm : s.resC[(t, v, b)]? with
    | some r0 =>
      rw [restrictF_hit f hm]
      have ⟨_, a, _, c⟩ := w.resOK t v b r0 hm
      refine ⟨rfl, ?_⟩
      apply (canonical s w r0 r a hr).mp
      intro σ; rw [c σ, hev σ]
    | none =>
    unfold restrictF
    simp only [hm]
    obtain ⟨n, hn⟩ := get_of_lt ht
    simp only [hn]
    by_cases hc1 : n.var > v ∨ n.var ≥ VBOT
    · rw [if_pos hc1]
      refine ⟨rfl, ?_⟩
      apply (canonical s w t r ht hr).mp
      intro σ; rw [hev σ]
      rcases hc1 with h | h
      · exact (eval_upd_of_lt s w t ht v b (by simp [topVar, hn]; exact h) σ).symm
      · have ht01 : t < 2 := by
          rcases Nat.lt_or_ge t 2 with h' | h'
          · exact h'
          · have := (w.inner t n h' hn).1; omega
        have h01 : t = 0 ∨ t = 1 := by omega
        rcases h01 with h | h <;> subst h <;> simp [eval_zero, eval_one]
    · rw [if_neg hc1]
      have ht2 : 2 ≤ t := inner_of_not_const w hn (by omega)
      have ⟨hvb, hlo, hhi, _, _, _⟩ := w.inner t n ht2 hn
      by_cases hc2 : n.var < v
      · rw [if_pos hc2]
        simp only
        -- `r` ignores every variable below `n.var`, so its cofactors along `n.var` are represented
        have hle : n.var ≤ topVar s r := by
          apply le_topVar_of_indep w r n.var hr (by omega)
          intro y hy σ c
          rw [hev, hev, upd_comm σ c b (by omega)]
          exact eval_upd_of_lt s w t ht y c (by simp [topVar, hn]; exact hy) _
        obtain ⟨lo, hi, llo, lhi, elo, ehi, h1, h2⟩ := cofRep w r n.var hr hle hvb
        have ⟨n1, r1⟩ := ih s n.lo v b lo w (by omega) (by omega) llo (by
          intro σ
          rw [elo, hev, eval_lo s w t n ht2 hn, upd_comm σ false b (by omega)])
        have ⟨w1, _, _, _, _⟩ := restrictF_spec f s n.lo v b w (by omega) (by omega)
        generalize restrictF f s n.lo v b = R1 at *
        have ⟨n2, r2⟩ := ih R1.1 n.hi v b hi w1 (by rw [n1]; omega) (by omega) (by rw [n1]; exact lhi) (by
          intro σ
          rw [eval_congr n1, eval_congr n1, ehi, hev, eval_hi s w t n ht2 hn, upd_comm σ true b (by omega)])
        have ⟨w2, _, _, _, _⟩ := restrictF_spec f R1.1 n.hi v b w1 (by rw [n1]; omega) (by omega)
        generalize restrictF f R1.1 n.hi v b = R2 at *
        rw [r1, r2, mkNode_cof w2 (n2.trans n1) n.var lo hi r h1 h2]
        exact ⟨n2.trans n1, rfl⟩
      · rw [if_neg hc2]
        have hveq : n.var = v := by omega
        simp only
        cases b with
        | true =>
          simp only [if_true]
          have ⟨a, b'⟩ := restrictF_above s w f n.hi v true (by omega) (by omega)
            (by rw [← hveq]; exact topVar_child_hi w ht2 hn)
          refine ⟨a, ?_⟩
          rw [b']
          apply (canonical s w n.hi r (by omega) hr).mp
          intro σ; rw [hev, eval_hi s w t n ht2 hn, hveq]
        | false =>
          simp only [Bool.false_eq_true, if_false]
          have ⟨a, b'⟩ := restrictF_above s w f n.lo v false (by omega) (by omega)
            (by rw [← hveq]; exact topVar_child_lo w ht2 hn)
          refine ⟨a, ?_⟩
          rw [b']
          apply (canonical s w n.lo r (by omega) hr).mp
          intro σ; rw [hev, eval_lo s w t n ht2 hn, hveq]

/-- **Lemma B for `restrictF`**: lockstep on stores with the same node table -/
theorem restrictF_lock : ∀ (fuel : Nat) (s s' : Store) (t v : Nat) (b : Bool),
    WF s → WF s' → s'.nodes = s.nodes → t < s.nodes.size → t < fuel →
    (restrictF fuel s' t v b).1.nodes = (restrictF fuel s t v b).1.nodes ∧
    (restrictF fuel s' t v b).2 = (restrictF fuel s t v b).2 := by
  intro fuel
  induction fuel with
  | zero => intro s s' t v b _ _ _ _ h; omega
  | succ f ih =>
    intro s s' t v b w w' hnn ht hf
    have ht' : t < s'.nodes.size := by rw [hnn]; exact ht
    cases hm : s.resC[(t, v, b)]? with
    | some r =>
      have ⟨_, a, _, c⟩ := w.resOK t v b r hm
      have ⟨x, y⟩ := restrictF_rep (f+1) s' t v b r w' ht' hf (by rw [hnn]; exact a)
        (by intro σ; rw [eval_congr hnn, eval_congr hnn]; exact c σ)
      rw [restrictF_hit f hm]
      exact ⟨x.trans hnn, y⟩
    | none =>
    cases hm' : s'.resC[(t, v, b)]? with
    | some r =>
      have ⟨_, a, _, c⟩ := w'.resOK t v b r hm'
      have ⟨x, y⟩ := restrictF_rep (f+1) s t v b r w ht hf (by rw [← hnn]; exact a)
        (by intro σ; rw [← eval_congr hnn, ← eval_congr hnn]; exact c σ)
      rw [restrictF_hit f hm']
      exact ⟨hnn.trans x.symm, y.symm⟩
    | none =>
    unfold restrictF
    simp only [hm, hm']
    obtain ⟨n, hn⟩ := get_of_lt ht
    have hn' : s'.nodes[t]? = some n := by rw [hnn]; exact hn
    simp only [hn, hn']
    by_cases hc1 : n.var > v ∨ n.var ≥ VBOT
    · simp only [if_pos hc1]; exact ⟨hnn, trivial⟩
    · simp only [if_neg hc1]
      have ht2 : 2 ≤ t := inner_of_not_const w hn (by omega)
      have ⟨hvb, hlo, hhi, _, _, _⟩ := w.inner t n ht2 hn
      by_cases hc2 : n.var < v
      · simp only [if_pos hc2]
        have ⟨n1, r1⟩ := ih s s' n.lo v b w w' hnn (by omega) (by omega)
        have ⟨w1, e1, _, _, _⟩ := restrictF_spec f s n.lo v b w (by omega) (by omega)
        have ⟨w1', _, _, _, _⟩ := restrictF_spec f s' n.lo v b w' (by omega) (by omega)
        generalize restrictF f s n.lo v b = R1 at *
        generalize restrictF f s' n.lo v b = R1' at *
        have hhi1 : n.hi < R1.1.nodes.size := by have := e1.1; omega
        have ⟨n2, r2⟩ := ih R1.1 R1'.1 n.hi v b w1 w1' n1 hhi1 (by omega)
        have ⟨w2, _, _, _, _⟩ := restrictF_spec f R1.1 n.hi v b w1 hhi1 (by omega)
        have ⟨w2', _, _, _, _⟩ := restrictF_spec f R1'.1 n.hi v b w1' (by rw [n1]; exact hhi1) (by omega)
        generalize restrictF f R1.1 n.hi v b = R2 at *
        generalize restrictF f R1'.1 n.hi v b = R2' at *
        rw [r1, r2]
        exact mkNode_lock w2 w2' n2 n.var R1.2 R2.2
      · simp only [if_neg hc2]
        cases b with
        | true =>
          simp only [if_true]
          exact ih s s' n.hi v true w w' hnn (by omega) (by omega)
        | false =>
          simp only [Bool.false_eq_true, if_false]
          exact ih s s' n.lo v false w w' hnn (by omega) (by omega)

/-! ## if-then-else -/

/-- the six cofactor calls of one `iteF` step -/
structure Cof6 where
  st : Store
  i1 : Nat
  t1 : Nat
  e1 : Nat
  i0 : Nat
  t0 : Nat
  e0 : Nat

def cofs (s : Store) (i t e mv : Nat) : Cof6 :=
  let r1 := restrictF (i+1) s i mv true
  let r2 := restrictF (t+1) r1.1 t mv true
  let r3 := restrictF (e+1) r2.1 e mv true
  let r4 := restrictF (i+1) r3.1 i mv false
  let r5 := restrictF (t+1) r4.1 t mv false
  let r6 := restrictF (e+1) r5.1 e mv false
  ⟨r6.1, r1.2, r2.2, r3.2, r4.2, r5.2, r6.2⟩

theorem iteF_hit {s : Store} {i t e r : Nat} (f : Nat) (c1 : i ≠ 1) (c0 : i ≠ 0) (c2 : t ≠ e)
    (c3 : ¬ (t = 1 ∧ e = 0)) (h : s.iteC[(i, t, e)]? = some r) : iteF (f+1) s i t e = (s, r) := by
  unfold iteF; simp only [if_neg c1, if_neg c0, if_neg c2, if_neg c3, h]

/-- what `iteF` does after the six cofactor calls -/
def iteStep (f : Nat) (i t e : Nat) (C : Cof6) (mv : Nat) : Store × Nat :=
  let top := iteF f C.st C.i1 C.t1 C.e1
  let bot := iteF f top.1 C.i0 C.t0 C.e0
  let m := mkNode bot.1 mv bot.2 top.2
  ({ m.1 with iteC := m.1.iteC.insert (i, t, e) m.2 }, m.2)

theorem iteF_miss {s : Store} {i t e : Nat} (f : Nat) (c1 : i ≠ 1) (c0 : i ≠ 0) (c2 : t ≠ e)
    (c3 : ¬ (t = 1 ∧ e = 0)) (h : s.iteC[(i, t, e)]? = none) :
    iteF (f+1) s i t e = iteStep f i t e (cofs s i t e (minVar s i t e)) (minVar s i t e) := by
  conv => lhs; unfold iteF
  simp only [if_neg c1, if_neg c0, if_neg c2, if_neg c3, h, iteStep, cofs]

/-- what the six cofactor calls deliver -/
structure CofOK (s : Store) (i t e mv : Nat) (C : Cof6) : Prop where
  wf : WF C.st
  nodes : C.st.nodes = s.nodes
  li1 : C.i1 ≤ i
  lt1 : C.t1 ≤ t
  le1 : C.e1 ≤ e
  li0 : C.i0 ≤ i
  lt0 : C.t0 ≤ t
  le0 : C.e0 ≤ e
  dec1 : C.i1 + C.t1 + C.e1 < i + t + e
  dec0 : C.i0 + C.t0 + C.e0 < i + t + e
  ei1 : ∀ σ, eval s C.i1 σ = eval s i (upd σ mv true)
  et1 : ∀ σ, eval s C.t1 σ = eval s t (upd σ mv true)
  ee1 : ∀ σ, eval s C.e1 σ = eval s e (upd σ mv true)
  ei0 : ∀ σ, eval s C.i0 σ = eval s i (upd σ mv false)
  et0 : ∀ σ, eval s C.t0 σ = eval s t (upd σ mv false)
  ee0 : ∀ σ, eval s C.e0 σ = eval s e (upd σ mv false)

theorem cofs_spec (s : Store) (w : WF s) (i t e mv : Nat)
    (hi : i < s.nodes.size) (ht : t < s.nodes.size) (he : e < s.nodes.size)
    (mi : mv ≤ topVar s i) (mt : mv ≤ topVar s t) (me : mv ≤ topVar s e) (hvb : mv < VBOT)
    (heq : mv = topVar s i ∨ mv = topVar s t ∨ mv = topVar s e) :
    CofOK s i t e mv (cofs s i t e mv) := by
  unfold cofs
  simp only
  have ⟨w1, n1, b1, c1', _, e1⟩ := cof s w i mv true hi mi hvb
  generalize restrictF (i+1) s i mv true = R1 at *
  have tv1 : ∀ x, topVar R1.1 x = topVar s x := topVar_congr n1
  have ⟨w2, n2, b2, c2', _, e2⟩ := cof R1.1 w1 t mv true (by rw [n1]; exact ht) (by rw [tv1]; exact mt) hvb
  generalize restrictF (t+1) R1.1 t mv true = R2 at *
  have n2' : R2.1.nodes = s.nodes := n2.trans n1
  have tv2 : ∀ x, topVar R2.1 x = topVar s x := topVar_congr n2'
  have ⟨w3, n3, b3, c3', _, e3⟩ := cof R2.1 w2 e mv true (by rw [n2']; exact he) (by rw [tv2]; exact me) hvb
  generalize restrictF (e+1) R2.1 e mv true = R3 at *
  have n3' : R3.1.nodes = s.nodes := n3.trans n2'
  have tv3 : ∀ x, topVar R3.1 x = topVar s x := topVar_congr n3'
  have ⟨w4, n4, b4, c4', _, e4⟩ := cof R3.1 w3 i mv false (by rw [n3']; exact hi) (by rw [tv3]; exact mi) hvb
  generalize restrictF (i+1) R3.1 i mv false = R4 at *
  have n4' : R4.1.nodes = s.nodes := n4.trans n3'
  have tv4 : ∀ x, topVar R4.1 x = topVar s x := topVar_congr n4'
  have ⟨w5, n5, b5, c5', _, e5⟩ := cof R4.1 w4 t mv false (by rw [n4']; exact ht) (by rw [tv4]; exact mt) hvb
  generalize restrictF (t+1) R4.1 t mv false = R5 at *
  have n5' : R5.1.nodes = s.nodes := n5.trans n4'
  have tv5 : ∀ x, topVar R5.1 x = topVar s x := topVar_congr n5'
  have ⟨w6, n6, b6, c6', _, e6⟩ := cof R5.1 w5 e mv false (by rw [n5']; exact he) (by rw [tv5]; exact me) hvb
  generalize restrictF (e+1) R5.1 e mv false = R6 at *
  have n6' : R6.1.nodes = s.nodes := n6.trans n5'
  rw [tv1] at c2'; rw [tv2] at c3'; rw [tv3] at c4'; rw [tv4] at c5'; rw [tv5] at c6'
  refine ⟨w6, n6', b1, b2, b3, b4, b5, b6, ?_, ?_, e1, ?_, ?_, ?_, ?_, ?_⟩
  · show R1.2 + R2.2 + R3.2 < i + t + e
    rcases heq with h | h | h
    · have := c1' h; omega
    · have := c2' h; omega
    · have := c3' h; omega
  · show R4.2 + R5.2 + R6.2 < i + t + e
    rcases heq with h | h | h
    · have := c4' h; omega
    · have := c5' h; omega
    · have := c6' h; omega
  · intro σ; rw [← eval_congr n1, e2, eval_congr n1]
  · intro σ; rw [← eval_congr n2', e3, eval_congr n2']
  · intro σ; rw [← eval_congr n3', e4, eval_congr n3']
  · intro σ; rw [← eval_congr n4', e5, eval_congr n4']
  · intro σ; rw [← eval_congr n5', e6, eval_congr n5']

/-- the six cofactor calls in lockstep -/
theorem cofs_lock (s s' : Store) (w : WF s) (w' : WF s') (hn : s'.nodes = s.nodes) (i t e mv : Nat)
    (hi : i < s.nodes.size) (ht : t < s.nodes.size) (he : e < s.nodes.size) :
    (cofs s' i t e mv).st.nodes = (cofs s i t e mv).st.nodes ∧
    (cofs s' i t e mv).i1 = (cofs s i t e mv).i1 ∧ (cofs s' i t e mv).t1 = (cofs s i t e mv).t1 ∧
    (cofs s' i t e mv).e1 = (cofs s i t e mv).e1 ∧ (cofs s' i t e mv).i0 = (cofs s i t e mv).i0 ∧
    (cofs s' i t e mv).t0 = (cofs s i t e mv).t0 ∧ (cofs s' i t e mv).e0 = (cofs s i t e mv).e0 := by
  unfold cofs
  simp only
  have step : ∀ (a a' : Store) (x : Nat) (b : Bool), WF a → WF a' → a'.nodes = a.nodes →
      s.nodes.size ≤ a.nodes.size → x < s.nodes.size →
      WF (restrictF (x+1) a x mv b).1 ∧ WF (restrictF (x+1) a' x mv b).1 ∧
      (restrictF (x+1) a' x mv b).1.nodes = (restrictF (x+1) a x mv b).1.nodes ∧
      s.nodes.size ≤ (restrictF (x+1) a x mv b).1.nodes.size ∧
      (restrictF (x+1) a' x mv b).2 = (restrictF (x+1) a x mv b).2 := by
    intro a a' x b wa wa' hna hsz hx
    have hxa : x < a.nodes.size := by omega
    have ⟨l1, l2⟩ := restrictF_lock (x+1) a a' x mv b wa wa' hna hxa (by omega)
    have ⟨q1, q2, _, _, _⟩ := restrictF_spec (x+1) a x mv b wa hxa (by omega)
    have ⟨q1', _, _, _, _⟩ := restrictF_spec (x+1) a' x mv b wa' (by rw [hna]; exact hxa) (by omega)
    exact ⟨q1, q1', l1, by have := q2.1; omega, l2⟩
  have ⟨w1, w1', n1, z1, r1⟩ := step s s' i true w w' hn (Nat.le_refl _) hi
  generalize restrictF (i+1) s i mv true = R1 at *
  generalize restrictF (i+1) s' i mv true = R1' at *
  have ⟨w2, w2', n2, z2, r2⟩ := step R1.1 R1'.1 t true w1 w1' n1 z1 ht
  generalize restrictF (t+1) R1.1 t mv true = R2 at *
  generalize restrictF (t+1) R1'.1 t mv true = R2' at *
  have ⟨w3, w3', n3, z3, r3⟩ := step R2.1 R2'.1 e true w2 w2' n2 z2 he
  generalize restrictF (e+1) R2.1 e mv true = R3 at *
  generalize restrictF (e+1) R2'.1 e mv true = R3' at *
  have ⟨w4, w4', n4, z4, r4⟩ := step R3.1 R3'.1 i false w3 w3' n3 z3 hi
  generalize restrictF (i+1) R3.1 i mv false = R4 at *
  generalize restrictF (i+1) R3'.1 i mv false = R4' at *
  have ⟨w5, w5', n5, z5, r5⟩ := step R4.1 R4'.1 t false w4 w4' n4 z4 ht
  generalize restrictF (t+1) R4.1 t mv false = R5 at *
  generalize restrictF (t+1) R4'.1 t mv false = R5' at *
  have ⟨w6, w6', n6, z6, r6⟩ := step R5.1 R5'.1 e false w5 w5' n5 z5 he
  exact ⟨n6, r1, r2, r3, r4, r5, r6⟩

/-- **Lemma A for `iteF`**: a represented result is returned without allocating -/
theorem iteF_rep : ∀ (fuel : Nat) (s : Store) (i t e r : Nat), WF s →
    i < s.nodes.size → t < s.nodes.size → e < s.nodes.size → i + t + e < fuel → r < s.nodes.size →
    (∀ σ, eval s r σ = if eval s i σ then eval s t σ else eval s e σ) →
    (iteF fuel s i t e).1.nodes = s.nodes ∧ (iteF fuel s i t e).2 = r := by
  intro fuel
  induction fuel with
  | zero => intro s i t e r _ _ _ _ h; omega
  | succ f ih =>
    intro s i t e r w hi ht he hf hr hev
    have ⟨mi, mt, me⟩ := minVar_le s i t e
    have hq := minVar_eq s i t e
    by_cases c1 : i = 1
    · unfold iteF; rw [if_pos c1]; subst c1
      refine ⟨rfl, (canonical s w t r ht hr).mp fun σ => ?_⟩
      rw [hev, eval_one]; rfl
    by_cases c0 : i = 0
    · unfold iteF; rw [if_neg c1, if_pos c0]; subst c0
      refine ⟨rfl, (canonical s w e r he hr).mp fun σ => ?_⟩
      rw [hev, eval_zero]; rfl
    by_cases c2 : t = e
    · unfold iteF; rw [if_neg c1, if_neg c0, if_pos c2]; subst c2
      refine ⟨rfl, (canonical s w t r ht hr).mp fun σ => ?_⟩
      rw [hev]; split <;> rfl
    by_cases c3 : t = 1 ∧ e = 0
    · unfold iteF; rw [if_neg c1, if_neg c0, if_neg c2, if_pos c3]; obtain ⟨rfl, rfl⟩ := c3
      refine ⟨rfl, (canonical s w i r hi hr).mp fun σ => ?_⟩
      rw [hev, eval_one, eval_zero]; cases eval s i σ <;> rfl
    cases hm : s.iteC[(i, t, e)]? with
    | some r0 =>
      rw [iteF_hit f c1 c0 c2 c3 hm]
      have ⟨_, _, _, a, _, b⟩ := w.iteOK i t e r0 hm
      refine ⟨rfl, (canonical s w r0 r a hr).mp fun σ => ?_⟩
      rw [b, hev]
    | none =>
      rw [iteF_miss f c1 c0 c2 c3 hm]
      have hi2 : 2 ≤ i := by omega
      obtain ⟨ni, hni⟩ := get_of_lt hi
      have hvb : minVar s i t e < VBOT := by
        have := (w.inner i ni hi2 hni).1
        have : topVar s i = ni.var := by simp [topVar, hni]
        omega
      generalize minVar s i t e = mv at *
      have K := cofs_spec s w i t e mv hi ht he mi mt me hvb hq
      -- `r` ignores every variable below `mv`, so its cofactors along `mv` are represented
      have hle : mv ≤ topVar s r := by
        apply le_topVar_of_indep w r mv hr (by omega)
        intro y hy σ c
        rw [hev, hev, eval_upd_of_lt s w i hi y c (by omega), eval_upd_of_lt s w t ht y c (by omega),
            eval_upd_of_lt s w e he y c (by omega)]
      obtain ⟨lo, hi', llo, lhi, elo, ehi, h1, h2⟩ := cofRep w r mv hr hle hvb
      generalize cofs s i t e mv = C at *
      unfold iteStep
      simp only
      have nC := K.nodes
      have b1 := K.li1; have b2 := K.lt1; have b3 := K.le1
      have b4 := K.li0; have b5 := K.lt0; have b6 := K.le0
      have d1 := K.dec1; have d0 := K.dec0
      have ⟨nT, rT⟩ := ih C.st C.i1 C.t1 C.e1 hi' K.wf (by rw [nC]; omega) (by rw [nC]; omega)
        (by rw [nC]; omega) (by omega) (by rw [nC]; exact lhi) (by
          intro σ
          simp only [eval_congr nC]
          rw [ehi, hev, K.ei1, K.et1, K.ee1])
      have ⟨wT, _, _, _, _⟩ := iteF_spec f C.st C.i1 C.t1 C.e1 K.wf (by rw [nC]; omega) (by rw [nC]; omega)
        (by rw [nC]; omega) (by omega)
      generalize iteF f C.st C.i1 C.t1 C.e1 = T at *
      have nT' : T.1.nodes = s.nodes := nT.trans nC
      have ⟨nB, rB⟩ := ih T.1 C.i0 C.t0 C.e0 lo wT (by rw [nT']; omega) (by rw [nT']; omega)
        (by rw [nT']; omega) (by omega) (by rw [nT']; exact llo) (by
          intro σ
          simp only [eval_congr nT']
          rw [elo, hev, K.ei0, K.et0, K.ee0])
      have ⟨wB, _, _, _, _⟩ := iteF_spec f T.1 C.i0 C.t0 C.e0 wT (by rw [nT']; omega) (by rw [nT']; omega)
        (by rw [nT']; omega) (by omega)
      generalize iteF f T.1 C.i0 C.t0 C.e0 = B at *
      rw [rT, rB, mkNode_cof wB (nB.trans nT') mv lo hi' r h1 h2]
      exact ⟨nB.trans nT', rfl⟩

/-- **Lemma B for `iteF`**: lockstep on stores with the same node table -/
theorem iteF_lock : ∀ (fuel : Nat) (s s' : Store) (i t e : Nat), WF s → WF s' → s'.nodes = s.nodes →
    i < s.nodes.size → t < s.nodes.size → e < s.nodes.size → i + t + e < fuel →
    (iteF fuel s' i t e).1.nodes = (iteF fuel s i t e).1.nodes ∧
    (iteF fuel s' i t e).2 = (iteF fuel s i t e).2 := by
  intro fuel
  induction fuel with
  | zero => intro s s' i t e _ _ _ _ _ _ h; omega
  | succ f ih =>
    intro s s' i t e w w' hnn hi ht he hf
    have hi' : i < s'.nodes.size := by rw [hnn]; exact hi
    have ht' : t < s'.nodes.size := by rw [hnn]; exact ht
    have he' : e < s'.nodes.size := by rw [hnn]; exact he
    have ⟨mi, mt, me⟩ := minVar_le s i t e
    have hq := minVar_eq s i t e
    by_cases c1 : i = 1
    · unfold iteF; simp only [if_pos c1]; exact ⟨hnn, trivial⟩
    by_cases c0 : i = 0
    · unfold iteF; simp only [if_neg c1, if_pos c0]; exact ⟨hnn, trivial⟩
    by_cases c2 : t = e
    · unfold iteF; simp only [if_neg c1, if_neg c0, if_pos c2]; exact ⟨hnn, trivial⟩
    by_cases c3 : t = 1 ∧ e = 0
    · unfold iteF; simp only [if_neg c1, if_neg c0, if_neg c2, if_pos c3]; exact ⟨hnn, trivial⟩
    cases hm : s.iteC[(i, t, e)]? with
    | some r =>
      have ⟨_, _, _, a, _, c⟩ := w.iteOK i t e r hm
      have ⟨x, y⟩ := iteF_rep (f+1) s' i t e r w' hi' ht' he' hf (by rw [hnn]; exact a)
        (by intro σ; simp only [eval_congr hnn]; exact c σ)
      rw [iteF_hit f c1 c0 c2 c3 hm]
      exact ⟨x.trans hnn, y⟩
    | none =>
    cases hm' : s'.iteC[(i, t, e)]? with
    | some r =>
      have ⟨_, _, _, a, _, c⟩ := w'.iteOK i t e r hm'
      have ⟨x, y⟩ := iteF_rep (f+1) s i t e r w hi ht he hf (by rw [← hnn]; exact a)
        (by intro σ; simp only [← eval_congr hnn]; exact c σ)
      rw [iteF_hit f c1 c0 c2 c3 hm']
      exact ⟨hnn.trans x.symm, y.symm⟩
    | none =>
      rw [iteF_miss f c1 c0 c2 c3 hm, iteF_miss f c1 c0 c2 c3 hm']
      have hmvEq : minVar s' i t e = minVar s i t e := by simp only [minVar, topVar_congr hnn]
      rw [hmvEq]
      have hi2 : 2 ≤ i := by omega
      obtain ⟨ni, hni⟩ := get_of_lt hi
      have hvb : minVar s i t e < VBOT := by
        have := (w.inner i ni hi2 hni).1
        have : topVar s i = ni.var := by simp [topVar, hni]
        omega
      generalize minVar s i t e = mv at *
      have K := cofs_spec s w i t e mv hi ht he mi mt me hvb hq
      have K' := cofs_spec s' w' i t e mv hi' ht' he' (by rw [topVar_congr hnn]; exact mi)
        (by rw [topVar_congr hnn]; exact mt) (by rw [topVar_congr hnn]; exact me) hvb
        (by simp only [topVar_congr hnn]; exact hq)
      have ⟨ln, l1, l2, l3, l4, l5, l6⟩ := cofs_lock s s' w w' hnn i t e mv hi ht he
      generalize cofs s i t e mv = C at *
      generalize cofs s' i t e mv = C' at *
      unfold iteStep
      simp only
      rw [l1, l2, l3, l4, l5, l6]
      have nC := K.nodes
      have b1 := K.li1; have b2 := K.lt1; have b3 := K.le1
      have b4 := K.li0; have b5 := K.lt0; have b6 := K.le0
      have d1 := K.dec1; have d0 := K.dec0
      have ⟨nT, rT⟩ := ih C.st C'.st C.i1 C.t1 C.e1 K.wf K'.wf ln (by rw [nC]; omega) (by rw [nC]; omega)
        (by rw [nC]; omega) (by omega)
      have ⟨wT, eT, _, _, _⟩ := iteF_spec f C.st C.i1 C.t1 C.e1 K.wf (by rw [nC]; omega) (by rw [nC]; omega)
        (by rw [nC]; omega) (by omega)
      have ⟨wT', _, _, _, _⟩ := iteF_spec f C'.st C.i1 C.t1 C.e1 K'.wf (by rw [ln, nC]; omega)
        (by rw [ln, nC]; omega) (by rw [ln, nC]; omega) (by omega)
      generalize iteF f C.st C.i1 C.t1 C.e1 = T at *
      generalize iteF f C'.st C.i1 C.t1 C.e1 = T' at *
      have zT : s.nodes.size ≤ T.1.nodes.size := by have := eT.1; rw [nC] at this; exact this
      have ⟨nB, rB⟩ := ih T.1 T'.1 C.i0 C.t0 C.e0 wT wT' nT (by omega) (by omega) (by omega) (by omega)
      have ⟨wB, _, _, _, _⟩ := iteF_spec f T.1 C.i0 C.t0 C.e0 wT (by omega) (by omega) (by omega) (by omega)
      have ⟨wB', _, _, _, _⟩ := iteF_spec f T'.1 C.i0 C.t0 C.e0 wT' (by rw [nT]; omega) (by rw [nT]; omega)
        (by rw [nT]; omega) (by omega)
      generalize iteF f T.1 C.i0 C.t0 C.e0 = B at *
      generalize iteF f T'.1 C.i0 C.t0 C.e0 = B' at *
      rw [rT, rB]
      exact mkNode_lock wB wB' nB mv B.2 T.2

/-! ## the operation language -/

theorem opIte_lock {s s' : Store} (w : WF s) (w' : WF s') (hn : s'.nodes = s.nodes) (i t e : Nat)
    (hi : i < s.nodes.size) (ht : t < s.nodes.size) (he : e < s.nodes.size) :
    (opIte s' i t e).1.nodes = (opIte s i t e).1.nodes ∧ (opIte s' i t e).2 = (opIte s i t e).2 :=
  iteF_lock (i + t + e + 1) s s' i t e w w' hn hi ht he (by omega)

theorem opNot_lock {s s' : Store} (w : WF s) (w' : WF s') (hn : s'.nodes = s.nodes) (t : Nat)
    (ht : t < s.nodes.size) :
    (opNot s' t).1.nodes = (opNot s t).1.nodes ∧ (opNot s' t).2 = (opNot s t).2 :=
  opIte_lock w w' hn t 0 1 ht (zero_lt s w) (one_lt s w)

/-- valid handles are all a history needs for `HistOK` (take the functions they denote) -/
theorem histOK_of_bounds (s : Store) (hist : List Nat)
    (hh : ∀ k, k < hist.length → hget hist k < s.nodes.size) : HistOK s hist (hist.map (eval s)) := by
  refine ⟨by simp, ?_⟩
  intro k hk
  refine ⟨hh k hk, fun σ => ?_⟩
  simp [hget, fget, List.getD, hk]

end MemoT

open MemoT in
/-- one operation: same handle, same node table, whatever the memo tables hold -/
theorem stepOp_memo_transparent (s s' : Store) (hist : List Nat) (op : Op) (w : WF s) (w' : WF s')
    (hn : s'.nodes = s.nodes) (hh : ∀ k, k < hist.length → hget hist k < s.nodes.size)
    (hv : op.valid hist.length) :
    (stepOp s' hist op).2 = (stepOp s hist op).2 ∧ (stepOp s' hist op).1.nodes = (stepOp s hist op).1.nodes := by
  have z := zero_lt s w
  have o := one_lt s w
  cases op with
  | var v => exact (mkNode_lock w w' hn v 0 1).symm
  | const b => exact ⟨rfl, hn⟩
  | not a => exact (opNot_lock w w' hn _ (hh a hv)).symm
  | and a b => exact (opIte_lock w w' hn _ _ 0 (hh a hv.1) (hh b hv.2) z).symm
  | or a b => exact (opIte_lock w w' hn _ 1 _ (hh a hv.1) o (hh b hv.2)).symm
  | imp a b => exact (opIte_lock w w' hn _ _ 1 (hh a hv.1) (hh b hv.2) o).symm
  | iff a b =>
    have ha := hh a hv.1
    have hb := hh b hv.2
    have gn := opNot_good s w _ hb
    have gn' := opNot_good s' w' _ (by rw [hn]; exact hb)
    have ⟨n1, r1⟩ := opNot_lock w w' hn _ hb
    have ha' := Nat.lt_of_lt_of_le ha gn.ext.1
    have hb' := Nat.lt_of_lt_of_le hb gn.ext.1
    show (opIte (opNot s' (hget hist b)).1 (hget hist a) (hget hist b) (opNot s' (hget hist b)).2).2 =
         (opIte (opNot s (hget hist b)).1 (hget hist a) (hget hist b) (opNot s (hget hist b)).2).2 ∧
         (opIte (opNot s' (hget hist b)).1 (hget hist a) (hget hist b) (opNot s' (hget hist b)).2).1.nodes =
         (opIte (opNot s (hget hist b)).1 (hget hist a) (hget hist b) (opNot s (hget hist b)).2).1.nodes
    rw [r1]
    exact (opIte_lock gn.wf gn'.wf n1 _ _ _ ha' hb' gn.lt).symm
  | xor a b =>
    have ha := hh a hv.1
    have hb := hh b hv.2
    have gn := opNot_good s w _ hb
    have gn' := opNot_good s' w' _ (by rw [hn]; exact hb)
    have ⟨n1, r1⟩ := opNot_lock w w' hn _ hb
    have ha' := Nat.lt_of_lt_of_le ha gn.ext.1
    have hb' := Nat.lt_of_lt_of_le hb gn.ext.1
    show (opIte (opNot s' (hget hist b)).1 (hget hist a) (opNot s' (hget hist b)).2 (hget hist b)).2 =
         (opIte (opNot s (hget hist b)).1 (hget hist a) (opNot s (hget hist b)).2 (hget hist b)).2 ∧
         (opIte (opNot s' (hget hist b)).1 (hget hist a) (opNot s' (hget hist b)).2 (hget hist b)).1.nodes =
         (opIte (opNot s (hget hist b)).1 (hget hist a) (opNot s (hget hist b)).2 (hget hist b)).1.nodes
    rw [r1]
    exact (opIte_lock gn.wf gn'.wf n1 _ _ _ ha' gn.lt hb').symm
  | restrict a v b =>
    exact (restrictF_lock (hget hist a + 1) s s' (hget hist a) v b w w' hn (hh a hv) (Nat.lt_succ_self _)).symm

open MemoT in
/-- **memo transparency**: any operation sequence issues the same handle numbers and builds the same
node table on two well-formed stores that share the node table, whatever their memo tables hold -/
theorem runOps_memo_transparent (ops : List Op) (s s' : Store) (hist : List Nat) (w : WF s) (w' : WF s')
    (hn : s'.nodes = s.nodes) (hh : ∀ k, k < hist.length → hget hist k < s.nodes.size)
    (hv : opsValid ops hist.length) :
    (runOps ops s' hist).2 = (runOps ops s hist).2 ∧
    (runOps ops s' hist).1.nodes = (runOps ops s hist).1.nodes := by
  induction ops generalizing s s' hist with
  | nil => exact ⟨rfl, hn⟩
  | cons op ops ih =>
    have H := histOK_of_bounds s hist hh
    have H' := histOK_of_bounds s' hist (by rw [hn]; exact hh)
    have g := stepOp_good s hist _ op w H hv.1
    have g' := stepOp_good s' hist _ op w' H' hv.1
    have S := HistOK.step s hist _ op w H hv.1
    have ⟨r1, n1⟩ := stepOp_memo_transparent s s' hist op w w' hn hh hv.1
    show (runOps ops (stepOp s' hist op).1 (hist ++ [(stepOp s' hist op).2])).2 =
         (runOps ops (stepOp s hist op).1 (hist ++ [(stepOp s hist op).2])).2 ∧
         (runOps ops (stepOp s' hist op).1 (hist ++ [(stepOp s' hist op).2])).1.nodes =
         (runOps ops (stepOp s hist op).1 (hist ++ [(stepOp s hist op).2])).1.nodes
    rw [r1]
    exact ih _ _ _ g.wf g'.wf n1 (fun k hk => (S.ok k hk).1) (by simpa using hv.2)

/-- every operation appends exactly one handle to the history -/
theorem runOps_length (ops : List Op) (s : Store) (hist : List Nat) :
    (runOps ops s hist).2.length = hist.length + ops.length := by
  induction ops generalizing s hist with
  | nil => rfl
  | cons op ops ih =>
    show (runOps ops (stepOp s hist op).1 (hist ++ [(stepOp s hist op).2])).2.length = _
    rw [ih]; simp; omega

/-- special case: dropping the memo tables of a store changes nothing observable -/
theorem runOps_memo_dropped (ops : List Op) (s : Store) (hist : List Nat) (w : WF s)
    (hh : ∀ k, k < hist.length → hget hist k < s.nodes.size) (hv : opsValid ops hist.length) :
    (runOps ops { s with iteC := {}, resC := {} } hist).2 = (runOps ops s hist).2 ∧
    (runOps ops { s with iteC := {}, resC := {} } hist).1.nodes = (runOps ops s hist).1.nodes := by
  have w' : WF { s with iteC := {}, resC := {} } :=
    ⟨w.len, w.bot, w.top, w.inner, w.uniqOK,
     fun t v b r h => by simp at h, fun i t e r h => by simp at h⟩
  exact runOps_memo_transparent ops s _ hist w w' rfl hh hv

#print axioms MemoT.restrictF_rep
#print axioms MemoT.iteF_rep
#print axioms MemoT.restrictF_lock
#print axioms MemoT.iteF_lock
#print axioms stepOp_memo_transparent
#print axioms runOps_memo_transparent
#print axioms runOps_memo_dropped
