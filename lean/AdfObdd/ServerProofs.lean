import AdfObdd.ServerModel
/-! Helper lemmas about the web-service model (C17): first-match list operations under filters,
    what every command of a handler program looks like (`AllCmds`), the atomic run of a program as
    the replay of its command trace. -/
namespace ServerM

/-! ### list operations -/

section lists
variable {α : Type}

theorem filter_updFirst_out (S : α → Bool) (q : α → Bool) (f : α → α)
    (hq : ∀ x, q x = true → S x = false) (hf : ∀ x, q x = true → S (f x) = false) :
    ∀ l : List α, (updFirst q f l).filter S = l.filter S := by
  intro l
  induction l with
  | nil => rfl
  | cons x xs ih =>
    unfold updFirst
    by_cases h : q x = true
    · rw [if_pos h]; simp [List.filter_cons, hq x h, hf x h]
    · rw [if_neg h]; simp only [List.filter_cons]; rw [ih]

theorem filter_updFirst_in (S : α → Bool) (q : α → Bool) (f : α → α)
    (hq : ∀ x, q x = true → S x = true) (hf : ∀ x, q x = true → S (f x) = true) :
    ∀ l : List α, (updFirst q f l).filter S = updFirst q f (l.filter S) := by
  intro l
  induction l with
  | nil => rfl
  | cons x xs ih =>
    by_cases h : q x = true
    · have hs := hq x h
      simp [updFirst, h, List.filter_cons, hs, hf x h]
    · by_cases hs : S x = true
      · simp [updFirst, h, List.filter_cons, hs, ih]
      · simp [updFirst, h, List.filter_cons, hs, ih]

theorem filter_delFirst_out (S : α → Bool) (q : α → Bool) (hq : ∀ x, q x = true → S x = false) :
    ∀ l : List α, (delFirst q l).filter S = l.filter S := by
  intro l
  induction l with
  | nil => rfl
  | cons x xs ih =>
    unfold delFirst
    by_cases h : q x = true
    · rw [if_pos h]; simp [List.filter_cons, hq x h]
    · rw [if_neg h]; simp only [List.filter_cons]; rw [ih]

theorem filter_delFirst_in (S : α → Bool) (q : α → Bool) (hq : ∀ x, q x = true → S x = true) :
    ∀ l : List α, (delFirst q l).filter S = delFirst q (l.filter S) := by
  intro l
  induction l with
  | nil => rfl
  | cons x xs ih =>
    by_cases h : q x = true
    · simp [delFirst, h, List.filter_cons, hq x h]
    · by_cases hs : S x = true
      · simp [delFirst, h, List.filter_cons, hs, ih]
      · simp [delFirst, h, List.filter_cons, hs, ih]

theorem find_filter_in (S : α → Bool) (q : α → Bool) (hq : ∀ x, q x = true → S x = true) :
    ∀ l : List α, (l.filter S).find? q = l.find? q := by
  intro l
  induction l with
  | nil => rfl
  | cons x xs ih =>
    by_cases hs : S x = true
    · simp only [List.filter_cons, hs, if_true, List.find?_cons]; rw [ih]
    · have hqx : q x = false := by
        cases hqv : q x with
        | false => rfl
        | true => exact absurd (hq x hqv) hs
      simp [List.filter_cons, hs, List.find?_cons, hqx, ih]

theorem any_filter_in (S : α → Bool) (q : α → Bool) (hq : ∀ x, q x = true → S x = true) :
    ∀ l : List α, (l.filter S).any q = l.any q := by
  intro l
  induction l with
  | nil => rfl
  | cons x xs ih =>
    by_cases hs : S x = true
    · simp only [List.filter_cons, hs, if_true, List.any_cons]; rw [ih]
    · have hqx : q x = false := by
        cases hqv : q x with
        | false => rfl
        | true => exact absurd (hq x hqv) hs
      simp [List.filter_cons, hs, List.any_cons, hqx, ih]

theorem filter_filter_in (S : α → Bool) (q : α → Bool) (hq : ∀ x, q x = true → S x = true) (l : List α) :
    (l.filter S).filter q = l.filter q := by
  rw [List.filter_filter]
  apply List.filter_congr
  intro x _
  cases hqv : q x with
  | false => simp
  | true => simp [hq x hqv]

end lists

/-! ### what the commands of a program look like -/

section progs
variable {T H A R : Type} [DecidableEq T]

/-- what `exec` guarantees about the result of a command, whatever the state -/
def Rok : (c : Cmd T H A R) → c.Res → Prop
  | .pFindOne u n, r => ∀ p, r = some p → p.username = u ∧ p.name = n
  | .pFindAll u, r => ∀ p ∈ r, p.username = u
  | .uFind n, r => ∀ x, r = some x → x.username = n
  | _, _ => True

theorem exec_rok (db : Db T H A R) (c : Cmd T H A R) : Rok c (exec db c).2 := by
  cases c with
  | pFindOne u n =>
    intro p hp
    have h := List.find?_some hp
    simp only [isProb, Bool.and_eq_true, decide_eq_true_eq] at h
    exact ⟨h.2, h.1⟩
  | pFindAll u =>
    intro p hp
    simp only [exec, List.mem_filter, ownedP, decide_eq_true_eq] at hp
    exact hp.2
  | uFind n =>
    intro x hx
    have h := List.find?_some hx
    simpa [isUser] using h
  | _ => trivial

/-- every command the program can issue — along every path of results that `exec` can produce —
satisfies `Q` -/
inductive AllCmds {α : Type} (Q : Cmd T H A R → Prop) (P : α → Prop) : Prog T H A R α → Prop where
  | ret (a : α) : P a → AllCmds Q P (.ret a)
  | cmd (c : Cmd T H A R) (k : c.Res → Prog T H A R α) :
      Q c → (∀ r, Rok c r → AllCmds Q P (k r)) → AllCmds Q P (.cmd c k)

theorem AllCmds.mono {α : Type} {Q Q' : Cmd T H A R → Prop} {P P' : α → Prop} (h : ∀ c, Q c → Q' c)
    (h' : ∀ a, P a → P' a) :
    ∀ {p : Prog T H A R α}, AllCmds Q P p → AllCmds Q' P' p := by
  intro p hp
  induction hp with
  | ret a ha => exact .ret a (h' a ha)
  | cmd c k hq _ ih => exact .cmd c k (h c hq) ih

/-- the result of an atomic run satisfies the leaf predicate -/
theorem run_ret {α : Type} {Q : Cmd T H A R → Prop} {P : α → Prop} :
    ∀ {p : Prog T H A R α}, AllCmds Q P p → ∀ db, P (run p db).2.1 := by
  intro p hp
  induction hp with
  | ret a ha => intro db; exact ha
  | cmd c k _ _ ih => intro db; exact ih _ (exec_rok db c) _

/-- the commands of an atomic run satisfy `Q` -/
theorem run_trace {α : Type} {Q : Cmd T H A R → Prop} {P : α → Prop} :
    ∀ {p : Prog T H A R α}, AllCmds Q P p → ∀ db, ∀ c ∈ (run p db).2.2, Q c := by
  intro p hp
  induction hp with
  | ret a _ => intro db c hc; simp [run] at hc
  | cmd c k hq _ ih =>
    intro db c' hc'
    simp only [run, List.mem_cons] at hc'
    rcases hc' with h | h
    · subst h; exact hq
    · exact ih _ (exec_rok db c) _ c' h

/-- an atomic run is the replay of its command trace -/
theorem run_replay {α : Type} : ∀ (p : Prog T H A R α) (db : Db T H A R),
    (run p db).1 = (run p db).2.2.foldl (fun d c => (exec d c).1) db := by
  intro p
  induction p with
  | ret a => intro db; rfl
  | cmd c k ih => intro db; simp only [run, List.foldl_cons]; exact ih _ _

/-- an invariant of all commands of a program is an invariant of its atomic run -/
theorem run_inv {α : Type} {Q : Cmd T H A R → Prop} {P : α → Prop} (I : Db T H A R → Prop)
    (hstep : ∀ db c, Q c → I db → I (exec db c).1) :
    ∀ {p : Prog T H A R α}, AllCmds Q P p → ∀ db, I db → I (run p db).1 := by
  intro p hp
  induction hp with
  | ret a _ => intro db h; exact h
  | cmd c k hq _ ih => intro db h; exact ih _ (exec_rok db c) _ (hstep db c hq h)

end progs
end ServerM

namespace ServerM
section owned
variable {T H A R : Type} [DecidableEq T]

/-- the identity a request acts for: the account named in the session cookie; for an
unauthenticated `add`, the temporary account it creates -/
def addUser (id : Option T) (fu : T) : T := match id with | some u => u | none => fu

def actor (id : Option T) : Req T → Option T
  | .add _ _ _ _ fu _ => some (addUser id fu)
  | _ => id

/-- the account names a request itself mentions -/
def reqNames : Req T → List T
  | .register u _ _ => [u]
  | .login u _ => [u]
  | .update u _ _ => [u]
  | .add _ _ _ _ fu _ => [fu]
  | _ => []

/-- exactly which commands the handler of a request can issue (for a session naming `id`) -/
def Shape (E : Env T H A R) (jar : Nat) (id : Option T) : Req T → Cmd T H A R → Prop
  | .register u p salt, c => c = .uFind u ∨ c = .uInsert ⟨u, some (E.hash salt p)⟩
  | .login u _, c => c = .uFind u
  | .logout, c => ∃ v, id = some v ∧ c = .uFind v
  | .info, c => ∃ v, id = some v ∧ c = .uFind v
  | .update u' p' salt, c => ∃ v, id = some v ∧
      (c = .uFind u' ∨ c = .uReplace v ⟨u', some (E.hash salt p')⟩ ∨ c = .pRename v u')
  | .deleteAccount, c => ∃ v, id = some v ∧ (c = .pDeleteAll v ∨ c = .uDelete v)
  | .add _ _ _ _ fu _, c =>
      (id = none ∧ (c = .uFind fu ∨ c = .uInsert ⟨fu, none⟩)) ∨
      ((∃ n, c = .pFindOne (addUser id fu) n) ∨ (∃ p, c = .pInsert p ∧ p.username = addUser id fu) ∨
       (∃ t, c = .spawn t ∧ t.username = addUser id fu ∧ t.jar = jar))
  | .solve name s, c => ∃ v, id = some v ∧
      (c = .pFindOne v name ∨ c = .rContains ⟨v, name, .solve s⟩ ∨ ∃ t, c = .spawn t ∧ t.username = v ∧ t.jar = jar)
  | .get name, c => ∃ v, id = some v ∧ (c = .pFindOne v name ∨ ∃ n, c = .rTasks v n)
  | .delete name, c => ∃ v, id = some v ∧ c = .pDeleteOne v name
  | .list, c => ∃ v, id = some v ∧ (c = .pFindAll v ∨ ∃ n, c = .rTasks v n)
  | .malformed, _ => False

/-- problem data in a response body -/
def infos : Body T R → List (Info T R)
  | .problem i => [i]
  | .problems l => l
  | _ => []

/-- what a handler can answer: problem data only from `get` / `list` of an authenticated session -/
def RetShape (id : Option T) (rq : Req T) (r : Resp T R) : Prop :=
  (match rq with
   | .get _ => id = none → infos r.body = []
   | .list => id = none → infos r.body = []
   | _ => infos r.body = []) ∧
  -- a session is only ever set to an account name the request mentions
  (∀ u, r.cookie = .login u → u ∈ reqNames rq)

theorem reply_all {Q : Cmd T H A R → Prop} {L : Resp T R → Prop} (s : Nat) (m : Msg T) (h : L ⟨s, .keep, .msg m⟩) :
    AllCmds Q L (reply s m : P T H A R) := .ret _ h

theorem hRegister_shape (jar : Nat) (id : Option T) (E : Env T H A R) (u p : T) (salt : Nat) :
    AllCmds (Shape E jar id (.register u p salt)) (RetShape id (.register u p salt)) (hRegister E u p salt) := by
  unfold hRegister
  split
  · exact reply_all _ _ (by simp [RetShape, infos, reqNames])
  · refine .cmd _ _ (by simp [Shape]) ?_
    intro r _
    cases r with
    | some _ => exact reply_all _ _ (by simp [RetShape, infos, reqNames])
    | none =>
      refine .cmd _ _ (by simp [Shape]) ?_
      intro ok _
      cases ok <;> exact reply_all _ _ (by simp [RetShape, infos, reqNames])

theorem hLogin_shape (jar : Nat) (E : Env T H A R) (id : Option T) (u p : T) :
    AllCmds (Shape E jar id (.login u p)) (RetShape id (.login u p)) (hLogin E u p) := by
  unfold hLogin
  split
  · exact reply_all _ _ (by simp [RetShape, infos, reqNames])
  · refine .cmd _ _ (by simp [Shape]) ?_
    intro r _
    cases r with
    | none => exact reply_all _ _ (by simp [RetShape, infos, reqNames])
    | some rec =>
      simp only
      split
      · exact reply_all _ _ (by simp [RetShape, infos, reqNames])
      · split <;> first | exact .ret _ (by simp [RetShape, infos, reqNames]) | exact reply_all _ _ (by simp [RetShape, infos, reqNames])

theorem hLogout_shape (jar : Nat) (E : Env T H A R) (id : Option T) :
    AllCmds (Shape E jar id .logout) (RetShape id .logout) (hLogout id : P T H A R) := by
  unfold hLogout
  cases id with
  | none => exact reply_all _ _ (by simp [RetShape, infos, reqNames])
  | some u =>
    refine .cmd _ _ (by simp [Shape]) ?_
    intro r _
    cases r with
    | none => exact reply_all _ _ (by simp [RetShape, infos, reqNames])
    | some rec => simp only; split <;> first | exact .ret _ (by simp [RetShape, infos, reqNames]) | exact reply_all _ _ (by simp [RetShape, infos, reqNames])

theorem hInfo_shape (jar : Nat) (E : Env T H A R) (id : Option T) :
    AllCmds (Shape E jar id .info) (RetShape id .info) (hInfo id : P T H A R) := by
  unfold hInfo
  cases id with
  | none => exact reply_all _ _ (by simp [RetShape, infos, reqNames])
  | some u =>
    refine .cmd _ _ (by simp [Shape]) ?_
    intro r _
    cases r <;> exact .ret _ (by simp [RetShape, infos, reqNames])

theorem hUpdate_shape (jar : Nat) (E : Env T H A R) (id : Option T) (u' p' : T) (salt : Nat) :
    AllCmds (Shape E jar id (.update u' p' salt)) (RetShape id (.update u' p' salt)) (hUpdate E id u' p' salt) := by
  unfold hUpdate
  split
  · exact reply_all _ _ (by simp [RetShape, infos, reqNames])
  · cases id with
    | none => exact reply_all _ _ (by simp [RetShape, infos, reqNames])
    | some u =>
      have hgo : AllCmds (Shape E jar (some u) (.update u' p' salt)) (RetShape (some u) (.update u' p' salt))
          (.cmd (.uReplace u ⟨u', some (E.hash salt p')⟩) fun m => match m with
            | none => reply 500 .dbError
            | some 0 => reply 500 .accountNotUpdated
            | some _ => .cmd (.pRename u u') fun _ => .ret ⟨200, .login u', .userInfo u' false⟩ : P T H A R) := by
        refine .cmd _ _ (by simp [Shape]) ?_
        intro m _
        cases m with
        | none => exact reply_all _ _ (by simp [RetShape, infos, reqNames])
        | some k =>
          cases k with
          | zero => exact reply_all _ _ (by simp [RetShape, infos, reqNames])
          | succ k =>
            refine .cmd _ _ (by simp [Shape]) ?_
            intro _ _; exact .ret _ (by simp [RetShape, infos, reqNames])
      simp only
      split
      · refine .cmd _ _ (by simp [Shape]) ?_
        intro r _
        cases r with
        | some _ => exact reply_all _ _ (by simp [RetShape, infos, reqNames])
        | none => exact hgo
      · exact hgo

theorem hDeleteAccount_shape (jar : Nat) (E : Env T H A R) (id : Option T) :
    AllCmds (Shape E jar id .deleteAccount) (RetShape id .deleteAccount) (hDeleteAccount id : P T H A R) := by
  unfold hDeleteAccount
  cases id with
  | none => exact reply_all _ _ (by simp [RetShape, infos, reqNames])
  | some u =>
    refine .cmd _ _ (by simp [Shape]) ?_
    intro _ _
    refine .cmd _ _ (by simp [Shape]) ?_
    intro n _
    split <;> first | exact .ret _ (by simp [RetShape, infos, reqNames]) | exact reply_all _ _ (by simp [RetShape, infos, reqNames])

theorem addFor_shape (E : Env T H A R) (jar : Nat) (id : Option T) (ck : Cookie T) (u name code : T) (parsing : Parsing)
    (emp fu fp : T) (co fi : Option T) (hu : addUser id fu = u) (hck : ∀ x, ck = .login x → x = fu) :
    AllCmds (Shape E jar id (.add name co fi parsing fu fp)) (RetShape id (.add name co fi parsing fu fp)) (addFor jar ck u name code parsing emp fp : P T H A R) := by
  have hins : ∀ n : T, AllCmds (Shape E jar id (.add name co fi parsing fu fp)) (RetShape id (.add name co fi parsing fu fp))
      (.cmd (.pInsert { name := n, username := u, code := code, parsing := parsing }) fun _ =>
       .cmd (.spawn { jar := jar, username := u, name := n, input := .parse code parsing }) fun _ =>
       .ret ⟨200, ck, .msg .parsingStarted⟩ : P T H A R) := by
    intro n
    refine .cmd _ _ (by simp [Shape, hu]) ?_
    intro _ _
    refine .cmd _ _ (by simp [Shape, hu]) ?_
    intro _ _; exact .ret _ (by simp [RetShape, infos, reqNames]; exact hck)
  unfold addFor
  simp only
  split
  · refine .cmd _ _ (by simp [Shape, hu]) ?_
    intro r _
    cases r with
    | some _ => exact .ret _ (by simp [RetShape, infos, reqNames]; exact hck)
    | none => exact hins _
  · refine .cmd _ _ (by simp [Shape, hu]) ?_
    intro r _
    cases r with
    | some _ => exact .ret _ (by simp [RetShape, infos, reqNames]; exact hck)
    | none => exact hins _

theorem hAdd_shape (E : Env T H A R) (jar : Nat) (id : Option T) (name : T) (code file : Option T) (parsing : Parsing)
    (fu fp : T) :
    AllCmds (Shape E jar id (.add name code file parsing fu fp)) (RetShape id (.add name code file parsing fu fp)) (hAdd E jar id name code file parsing fu fp) := by
  unfold hAdd
  split
  · exact reply_all _ _ (by simp [RetShape, infos, reqNames])
  · split
    · exact reply_all _ _ (by simp [RetShape, infos, reqNames])
    · cases id with
      | some u => exact addFor_shape E jar (some u) _ u name _ parsing _ fu fp code file rfl (by simp)
      | none =>
        refine .cmd _ _ (by simp [Shape]) ?_
        intro r _
        cases r with
        | some _ => exact reply_all _ _ (by simp [RetShape, infos, reqNames])
        | none =>
          refine .cmd _ _ (by simp [Shape]) ?_
          intro ok _
          cases ok
          · exact reply_all _ _ (by simp [RetShape, infos, reqNames])
          · exact addFor_shape E jar none _ fu name _ parsing _ fu fp code file rfl (by simp)

theorem hSolve_shape (E : Env T H A R) (jar : Nat) (id : Option T) (name : T) (s : Strategy) :
    AllCmds (Shape E jar id (.solve name s)) (RetShape id (.solve name s)) (hSolve jar id name s : P T H A R) := by
  unfold hSolve
  cases id with
  | none => exact reply_all _ _ (by simp [RetShape, infos, reqNames])
  | some u =>
    refine .cmd _ _ (by simp [Shape]) ?_
    intro r _
    cases r with
    | none => exact reply_all _ _ (by simp [RetShape, infos, reqNames])
    | some p =>
      simp only
      split
      · exact reply_all _ _ (by simp [RetShape, infos, reqNames])
      · exact reply_all _ _ (by simp [RetShape, infos, reqNames])
      · refine .cmd _ _ (by simp [Shape]) ?_
        intro busy _
        split
        · exact reply_all _ _ (by simp [RetShape, infos, reqNames])
        · refine .cmd _ _ (by simp [Shape]) ?_
          intro _ _; exact reply_all _ _ (by simp [RetShape, infos, reqNames])

theorem hGet_shape (E : Env T H A R) (jar : Nat) (id : Option T) (name : T) :
    AllCmds (Shape E jar id (.get name)) (RetShape id (.get name)) (hGet id name : P T H A R) := by
  unfold hGet
  cases id with
  | none => exact reply_all _ _ (by simp [RetShape, infos, reqNames])
  | some u =>
    refine .cmd _ _ (by simp [Shape]) ?_
    intro r hr
    cases r with
    | none => exact reply_all _ _ (by simp [RetShape, infos, reqNames])
    | some p =>
      have := (hr p rfl).1
      refine .cmd _ _ (by simp [Shape, this]) ?_
      intro _ _; exact .ret _ (by simp [RetShape, infos, reqNames])

theorem hDelete_shape (E : Env T H A R) (jar : Nat) (id : Option T) (name : T) :
    AllCmds (Shape E jar id (.delete name)) (RetShape id (.delete name)) (hDelete id name : P T H A R) := by
  unfold hDelete
  cases id with
  | none => exact reply_all _ _ (by simp [RetShape, infos, reqNames])
  | some u =>
    refine .cmd _ _ (by simp [Shape]) ?_
    intro n _
    split <;> exact reply_all _ _ (by simp [RetShape, infos, reqNames])

omit [DecidableEq T] in
theorem listInfos_shape (E : Env T H A R) (jar : Nat) (u : T) : ∀ (ps : List (Problem T A R)) (acc : List (Info T R)),
    (∀ p ∈ ps, p.username = u) → AllCmds (Shape E jar (some u) .list) (RetShape (some u) .list) (listInfos acc ps : P T H A R) := by
  intro ps
  induction ps with
  | nil => intro acc _; exact .ret _ (by simp [RetShape, infos, reqNames])
  | cons p ps ih =>
    intro acc h
    unfold listInfos
    refine .cmd _ _ (by simp [Shape, h p (List.mem_cons_self ..)]) ?_
    intro ts _
    exact ih _ (fun q hq => h q (List.mem_cons_of_mem _ hq))

theorem hList_shape (E : Env T H A R) (jar : Nat) (id : Option T) :
    AllCmds (Shape E jar id .list) (RetShape id .list) (hList id : P T H A R) := by
  unfold hList
  cases id with
  | none => exact reply_all _ _ (by simp [RetShape, infos, reqNames])
  | some u =>
    refine .cmd _ _ (by simp [Shape]) ?_
    intro ps hps
    exact listInfos_shape E jar u ps [] hps

/-- the commands a handler can issue, along every path of results -/
theorem handler_shape (E : Env T H A R) (jar : Nat) (id : Option T) (rq : Req T) :
    AllCmds (Shape E jar id rq) (RetShape id rq) (handler E jar id rq) := by
  cases rq with
  | register u p salt => exact hRegister_shape jar id E u p salt
  | login u p => exact hLogin_shape jar E id u p
  | logout => exact hLogout_shape jar E id
  | info => exact hInfo_shape jar E id
  | update u p salt => exact hUpdate_shape jar E id u p salt
  | deleteAccount => exact hDeleteAccount_shape jar E id
  | add name code file parsing fu fp => exact hAdd_shape E jar id name code file parsing fu fp
  | solve name s => exact hSolve_shape E jar id name s
  | get name => exact hGet_shape E jar id name
  | delete name => exact hDelete_shape E jar id name
  | list => exact hList_shape E jar id
  | malformed => exact reply_all _ _ (by simp [RetShape, infos, reqNames])

/-- a command issued for identity `U` by a request mentioning the account names `names`:
every access to the problem collection and to the running set carries `U` as user name; in the
user collection only `U`'s record is replaced or deleted, a record is created only under a name
the request mentions, and a record is looked up only for `U` or for a name the request mentions
(existence / credential check) -/
def Owned (jar : Nat) (U : Option T) (names : List T) : Cmd T H A R → Prop
  | .uFind n => some n = U ∨ n ∈ names
  | .uInsert u => u.username ∈ names
  | .uReplace n u => some n = U ∧ u.username ∈ names
  | .uDelete n => some n = U
  | .pFindOne u _ => some u = U
  | .pFindAll u => some u = U
  | .pInsert p => some p.username = U
  | .pSet u _ _ => some u = U
  | .pDeleteOne u _ => some u = U
  | .pDeleteAll u => some u = U
  | .pRename u u' => some u = U ∧ u' ∈ names
  | .rContains i => some i.username = U
  | .rTasks u _ => some u = U
  | .spawn t => some t.username = U ∧ t.jar = jar

theorem Shape.owned (E : Env T H A R) (jar : Nat) (id : Option T) (rq : Req T) (c : Cmd T H A R)
    (h : Shape E jar id rq c) : Owned jar (actor id rq) (reqNames rq) c := by
  cases rq with
  | register u p salt => rcases h with h | h <;> subst h <;> simp [Owned, reqNames]
  | login u p => subst h; simp [Owned, reqNames]
  | logout => obtain ⟨v, hv, h⟩ := h; subst h; simp [Owned, actor, hv]
  | info => obtain ⟨v, hv, h⟩ := h; subst h; simp [Owned, actor, hv]
  | update u p salt =>
    obtain ⟨v, hv, h⟩ := h
    rcases h with h | h | h <;> subst h <;> simp [Owned, actor, reqNames, hv]
  | deleteAccount =>
    obtain ⟨v, hv, h⟩ := h
    rcases h with h | h <;> subst h <;> simp [Owned, actor, hv]
  | add name code file parsing fu fp =>
    rcases h with ⟨_, h | h⟩ | ⟨n, h⟩ | ⟨p, h, hp⟩ | ⟨t, h, ht, hj⟩
    · subst h; simp [Owned, reqNames]
    · subst h; simp [Owned, reqNames]
    · subst h; simp [Owned, actor]
    · subst h; simp [Owned, actor, hp]
    · subst h; simp [Owned, actor, ht, hj]
  | solve name s =>
    obtain ⟨v, hv, h⟩ := h
    rcases h with h | h | ⟨t, h, ht, hj⟩ <;> subst h <;> simp [Owned, actor, hv, *]
  | get name =>
    obtain ⟨v, hv, h⟩ := h
    rcases h with h | ⟨n, h⟩ <;> subst h <;> simp [Owned, actor, hv]
  | delete name => obtain ⟨v, hv, h⟩ := h; subst h; simp [Owned, actor, hv]
  | list =>
    obtain ⟨v, hv, h⟩ := h
    rcases h with h | ⟨n, h⟩ <;> subst h <;> simp [Owned, actor, hv]
  | malformed => exact h.elim

/-- every command of a handler is issued for the request's identity -/
theorem handler_owned (E : Env T H A R) (jar : Nat) (id : Option T) (rq : Req T) :
    AllCmds (Owned jar (actor id rq) (reqNames rq)) (RetShape id rq) (handler E jar id rq) :=
  (handler_shape E jar id rq).mono (Shape.owned E jar id rq) (fun _ h => h)

end owned
end ServerM

namespace ServerM
section views
variable {T H A R : Type} [DecidableEq T]

/-- all account names a command carries lie in `S`; a spawned task is tagged with a jar in `J` -/
def CmdIn (S : T → Bool) (J : Nat → Bool) : Cmd T H A R → Prop
  | .uFind n => S n = true
  | .uInsert u => S u.username = true
  | .uReplace n u => S n = true ∧ S u.username = true
  | .uDelete n => S n = true
  | .pFindOne u _ => S u = true
  | .pFindAll u => S u = true
  | .pInsert p => S p.username = true
  | .pSet u _ _ => S u = true
  | .pDeleteOne u _ => S u = true
  | .pDeleteAll u => S u = true
  | .pRename u u' => S u = true ∧ S u' = true
  | .rContains i => S i.username = true
  | .rTasks u _ => S u = true
  | .spawn t => S t.username = true ∧ J t.jar = true

theorem Owned.cmdIn {jar : Nat} {U : Option T} {names : List T} {S : T → Bool} {J : Nat → Bool}
    (hU : ∀ u, U = some u → S u = true) (hn : ∀ n ∈ names, S n = true) (hj : J jar = true) :
    ∀ c : Cmd T H A R, Owned jar U names c → CmdIn S J c := by
  intro c h
  cases c with
  | uFind n => rcases h with h | h; exact hU n h.symm; exact hn n h
  | uInsert u => exact hn _ h
  | uReplace n u => exact ⟨hU n h.1.symm, hn _ h.2⟩
  | uDelete n => exact hU n h.symm
  | pFindOne u n => exact hU u h.symm
  | pFindAll u => exact hU u h.symm
  | pInsert p => exact hU _ h.symm
  | pSet u n w => exact hU u h.symm
  | pDeleteOne u n => exact hU u h.symm
  | pDeleteAll u => exact hU u h.symm
  | pRename u u' => exact ⟨hU u h.1.symm, hn _ h.2⟩
  | rContains i => exact hU _ h.symm
  | rTasks u n => exact hU u h.symm
  | spawn t => exact ⟨hU _ h.1.symm, by rw [h.2]; exact hj⟩

/-- the part of the server state that belongs to the accounts in `S` and the tasks of the jars in `J` -/
structure DbSim (S : T → Bool) (J : Nat → Bool) (d a : Db T H A R) : Prop where
  users : d.users.filter (fun u => S u.username) = a.users.filter (fun u => S u.username)
  probs : d.problems.filter (fun p => S p.username) = a.problems.filter (fun p => S p.username)
  running : d.running.filter (fun i => S i.username) = a.running.filter (fun i => S i.username)
  tasks : d.tasks.filter (fun t => J t.jar) = a.tasks.filter (fun t => J t.jar)

theorem DbSim.refl (S : T → Bool) (J : Nat → Bool) (d : Db T H A R) : DbSim S J d d := ⟨rfl, rfl, rfl, rfl⟩

theorem isUser_S {S : T → Bool} {n : T} (h : S n = true) : ∀ x : User T H, isUser n x = true → S x.username = true := by
  intro x hx; simp only [isUser, decide_eq_true_eq] at hx; rw [hx]; exact h

theorem isProb_S {S : T → Bool} {u n : T} (h : S u = true) :
    ∀ x : Problem T A R, isProb u n x = true → S x.username = true := by
  intro x hx; simp only [isProb, Bool.and_eq_true, decide_eq_true_eq] at hx; rw [hx.2]; exact h

theorem ownedP_S {S : T → Bool} {u : T} (h : S u = true) :
    ∀ x : Problem T A R, ownedP u x = true → S x.username = true := by
  intro x hx; simp only [ownedP, decide_eq_true_eq] at hx; rw [hx]; exact h

theorem isInfo_S {S : T → Bool} {i : RInfo T} (h : S i.username = true) :
    ∀ x : RInfo T, isInfo i x = true → S x.username = true := by
  intro x hx; simp only [isInfo, Bool.and_eq_true, decide_eq_true_eq] at hx; rw [hx.1.1]; exact h

theorem any_view {α : Type} (S q : α → Bool) (hq : ∀ x, q x = true → S x = true) {l l' : List α}
    (h : l.filter S = l'.filter S) : l.any q = l'.any q := by
  rw [← any_filter_in S q hq l, ← any_filter_in S q hq l', h]

theorem find_view {α : Type} (S q : α → Bool) (hq : ∀ x, q x = true → S x = true) {l l' : List α}
    (h : l.filter S = l'.filter S) : l.find? q = l'.find? q := by
  rw [← find_filter_in S q hq l, ← find_filter_in S q hq l', h]

theorem filter_view {α : Type} (S q : α → Bool) (hq : ∀ x, q x = true → S x = true) {l l' : List α}
    (h : l.filter S = l'.filter S) : l.filter q = l'.filter q := by
  rw [← filter_filter_in S q hq l, ← filter_filter_in S q hq l', h]

theorem Write.apply_username (w : Write A R) (p : Problem T A R) : (w.apply p).username = p.username := by
  cases w <;> rfl

theorem Write.apply_name (w : Write A R) (p : Problem T A R) : (w.apply p).name = p.name := by
  cases w <;> rfl

/-- a command inside the view has the same result on both states and keeps them related -/
theorem exec_in {S : T → Bool} {J : Nat → Bool} {d a : Db T H A R} (sim : DbSim S J d a) :
    ∀ c : Cmd T H A R, CmdIn S J c → (exec d c).2 = (exec a c).2 ∧ DbSim S J (exec d c).1 (exec a c).1 := by
  intro c hc
  obtain ⟨su, sp, sr, st⟩ := sim
  cases c with
  | uFind n =>
    exact ⟨find_view (fun u : User T H => S u.username) _ (isUser_S hc) su, ⟨su, sp, sr, st⟩⟩
  | uInsert u =>
    have hany := any_view (fun x : User T H => S x.username) (isUser u.username) (isUser_S hc) su
    simp only [exec, hany]
    split
    · exact ⟨rfl, ⟨su, sp, sr, st⟩⟩
    · refine ⟨by first | rfl | trivial, ⟨?_, sp, sr, st⟩⟩
      simp only [List.filter_append, su]
  | uReplace n u =>
    have hany := any_view (fun x : User T H => S x.username) (isUser u.username) (isUser_S hc.2) su
    have hany2 := any_view (fun x : User T H => S x.username) (isUser n) (isUser_S hc.1) su
    simp only [exec, hany, hany2]
    split
    · exact ⟨rfl, ⟨su, sp, sr, st⟩⟩
    · refine ⟨by first | rfl | trivial, ⟨?_, sp, sr, st⟩⟩
      simp only
      rw [filter_updFirst_in _ _ _ (isUser_S hc.1) (fun _ _ => hc.2), filter_updFirst_in _ _ _ (isUser_S hc.1) (fun _ _ => hc.2), su]
  | uDelete n =>
    have hany := any_view (fun x : User T H => S x.username) (isUser n) (isUser_S hc) su
    simp only [exec, hany]
    refine ⟨by first | rfl | trivial, ⟨?_, sp, sr, st⟩⟩
    simp only
    rw [filter_delFirst_in _ _ (isUser_S hc), filter_delFirst_in _ _ (isUser_S hc), su]
  | pFindOne u n =>
    exact ⟨find_view (fun p : Problem T A R => S p.username) _ (isProb_S hc) sp, ⟨su, sp, sr, st⟩⟩
  | pFindAll u =>
    exact ⟨filter_view (fun p : Problem T A R => S p.username) _ (ownedP_S hc) sp, ⟨su, sp, sr, st⟩⟩
  | pInsert p =>
    refine ⟨by first | rfl | trivial, ⟨su, ?_, sr, st⟩⟩
    simp only [exec, List.filter_append, sp]
  | pSet u n w =>
    have hany := any_view (fun x : Problem T A R => S x.username) (isProb u n) (isProb_S hc) sp
    simp only [exec, hany]
    refine ⟨by first | rfl | trivial, ⟨su, ?_, sr, st⟩⟩
    simp only
    have hf : ∀ x : Problem T A R, isProb u n x = true → S (w.apply x).username = true := by
      intro x hx; rw [Write.apply_username]; exact isProb_S hc x hx
    rw [filter_updFirst_in _ _ _ (isProb_S hc) hf, filter_updFirst_in _ _ _ (isProb_S hc) hf, sp]
  | pDeleteOne u n =>
    have hany := any_view (fun x : Problem T A R => S x.username) (isProb u n) (isProb_S hc) sp
    simp only [exec, hany]
    refine ⟨by first | rfl | trivial, ⟨su, ?_, sr, st⟩⟩
    simp only
    rw [filter_delFirst_in _ _ (isProb_S hc), filter_delFirst_in _ _ (isProb_S hc), sp]
  | pDeleteAll u =>
    refine ⟨by first | rfl | trivial, ⟨su, ?_, sr, st⟩⟩
    simp only [exec]
    rw [List.filter_filter, List.filter_filter]
    have : ∀ l : List (Problem T A R), l.filter (fun p => S p.username && !ownedP u p) =
        (l.filter (fun p => S p.username)).filter (fun p => !ownedP u p) := by
      intro l; rw [List.filter_filter]; apply List.filter_congr; intro x _; exact Bool.and_comm _ _
    rw [this, this, sp]
  | pRename u u' =>
    refine ⟨by first | rfl | trivial, ⟨su, ?_, sr, st⟩⟩
    simp only [exec]
    have : ∀ l : List (Problem T A R),
        (l.map (fun p => if ownedP u p then { p with username := u' } else p)).filter (fun p => S p.username) =
        (l.filter (fun p => S p.username)).map (fun p => if ownedP u p then { p with username := u' } else p) := by
      intro l
      induction l with
      | nil => rfl
      | cons x xs ih =>
        by_cases ho : ownedP u x = true
        · have hx : S x.username = true := ownedP_S hc.1 x ho
          simp [ho, hc.2, hx, ih]
        · by_cases hx : S x.username = true
          · simp [ho, hx, ih]
          · simp [ho, hx, ih]
    rw [this, this, sp]
  | rContains i =>
    exact ⟨any_view (fun x : RInfo T => S x.username) _ (isInfo_S hc) sr, ⟨su, sp, sr, st⟩⟩
  | rTasks u n =>
    refine ⟨?_, ⟨su, sp, sr, st⟩⟩
    simp only [exec]
    rw [filter_view (fun x : RInfo T => S x.username) _ ?_ sr]
    intro x hx
    simp only [Bool.and_eq_true, decide_eq_true_eq] at hx
    rw [hx.2]; exact hc
  | spawn t =>
    have hany := any_view (fun x : RInfo T => S x.username) (isInfo t.info) (isInfo_S (i := t.info) hc.1) sr
    refine ⟨rfl, ⟨su, sp, ?_, ?_⟩⟩
    · simp only [exec, hany]
      split
      · exact sr
      · simp only [List.filter_append, sr]
    · simp only [exec, List.filter_append, st]

/-- a command outside the view leaves the view as it is -/
theorem exec_out {S : T → Bool} {J : Nat → Bool} (d : Db T H A R) :
    ∀ c : Cmd T H A R, CmdIn (fun x => !S x) (fun j => !J j) c → DbSim S J (exec d c).1 d := by
  intro c hc
  have neg : ∀ {b : Bool}, (!b) = true → b = false := by intro b h; cases b <;> simp_all
  cases c with
  | uFind n => exact DbSim.refl ..
  | uInsert u =>
    simp only [exec]
    split
    · exact DbSim.refl ..
    · refine ⟨?_, rfl, rfl, rfl⟩
      simp [List.filter_append, neg hc]
  | uReplace n u =>
    simp only [exec]
    split
    · exact DbSim.refl ..
    · refine ⟨?_, rfl, rfl, rfl⟩
      simp only
      apply filter_updFirst_out
      · intro x hx; simp only [isUser, decide_eq_true_eq] at hx; rw [hx]; exact neg hc.1
      · intro x _; exact neg hc.2
  | uDelete n =>
    refine ⟨?_, rfl, rfl, rfl⟩
    simp only [exec]
    apply filter_delFirst_out
    intro x hx; simp only [isUser, decide_eq_true_eq] at hx; rw [hx]; exact neg hc
  | pFindOne u n => exact DbSim.refl ..
  | pFindAll u => exact DbSim.refl ..
  | pInsert p =>
    refine ⟨rfl, ?_, rfl, rfl⟩
    simp [exec, List.filter_append, neg hc]
  | pSet u n w =>
    refine ⟨rfl, ?_, rfl, rfl⟩
    simp only [exec]
    apply filter_updFirst_out
    · intro x hx; simp only [isProb, Bool.and_eq_true, decide_eq_true_eq] at hx; rw [hx.2]; exact neg hc
    · intro x hx; simp only [isProb, Bool.and_eq_true, decide_eq_true_eq] at hx
      rw [Write.apply_username, hx.2]; exact neg hc
  | pDeleteOne u n =>
    refine ⟨rfl, ?_, rfl, rfl⟩
    simp only [exec]
    apply filter_delFirst_out
    intro x hx; simp only [isProb, Bool.and_eq_true, decide_eq_true_eq] at hx; rw [hx.2]; exact neg hc
  | pDeleteAll u =>
    refine ⟨rfl, ?_, rfl, rfl⟩
    simp only [exec]
    rw [List.filter_filter]
    apply List.filter_congr
    intro x _
    by_cases hx : x.username = u
    · simp [ownedP, hx, neg hc]
    · simp [ownedP, hx]
  | pRename u u' =>
    refine ⟨rfl, ?_, rfl, rfl⟩
    simp only [exec]
    induction d.problems with
    | nil => rfl
    | cons x xs ih =>
      by_cases ho : x.username = u
      · simp [List.filter_cons, ownedP, ho, neg hc.1, neg hc.2]
        simpa [ownedP] using ih
      · simp only [List.map_cons, ownedP, ho, decide_false, Bool.false_eq_true, if_false, List.filter_cons]
        split
        · simp only [List.cons.injEq, true_and]; simpa [ownedP] using ih
        · simpa [ownedP] using ih
  | rContains i => exact DbSim.refl ..
  | rTasks u n => exact DbSim.refl ..
  | spawn t =>
    refine ⟨rfl, rfl, ?_, ?_⟩
    · simp only [exec]
      split
      · rfl
      · simp [List.filter_append, TaskRec.info, neg hc.1]
    · simp [exec, List.filter_append, neg hc.2]

end views
end ServerM

namespace ServerM
section sims
variable {T H A R : Type} [DecidableEq T]

theorem DbSim.trans {S : T → Bool} {J : Nat → Bool} {a b c : Db T H A R} (h1 : DbSim S J a b) (h2 : DbSim S J b c) :
    DbSim S J a c :=
  ⟨h1.users.trans h2.users, h1.probs.trans h2.probs, h1.running.trans h2.running, h1.tasks.trans h2.tasks⟩

theorem DbSim.symm {S : T → Bool} {J : Nat → Bool} {a b : Db T H A R} (h : DbSim S J a b) : DbSim S J b a :=
  ⟨h.users.symm, h.probs.symm, h.running.symm, h.tasks.symm⟩

/-- a program all of whose commands lie inside the view computes the same result on related states -/
theorem run_in {α : Type} {S : T → Bool} {J : Nat → Bool} :
    ∀ {p : Prog T H A R α} {P : α → Prop}, AllCmds (CmdIn S J) P p → ∀ d a, DbSim S J d a →
      (run p d).2.1 = (run p a).2.1 ∧ DbSim S J (run p d).1 (run p a).1 := by
  intro p P hp
  induction hp with
  | ret x _ => intro d a sim; exact ⟨rfl, sim⟩
  | cmd c k hq _ ih =>
    intro d a sim
    have h := exec_in sim c hq
    simp only [run]
    rw [← h.1]
    exact ih _ (exec_rok d c) _ _ h.2

/-- a program all of whose commands lie outside the view leaves the view as it is -/
theorem run_out {α : Type} {S : T → Bool} {J : Nat → Bool} :
    ∀ {p : Prog T H A R α} {P : α → Prop}, AllCmds (CmdIn (fun x => !S x) (fun j => !J j)) P p →
      ∀ d, DbSim S J (run p d).1 d := by
  intro p P hp
  induction hp with
  | ret x _ => intro d; exact DbSim.refl ..
  | cmd c k hq _ ih =>
    intro d
    simp only [run]
    exact (ih _ (exec_rok d c) _).trans (exec_out d c hq)

/-! ### tasks -/

theorem nthOf_filter (j : Nat) : ∀ (n : Nat) (l : List (TaskRec T A)),
    nthOf j n (l.filter (fun t => decide (t.jar = j))) = nthOf j n l := by
  intro n l
  induction l generalizing n with
  | nil => rfl
  | cons t ts ih =>
    by_cases h : t.jar = j
    · simp only [List.filter_cons, h, decide_true, if_true, nthOf]
      cases n with
      | zero => rfl
      | succ k => exact ih k
    · simp only [List.filter_cons, h, decide_false, Bool.false_eq_true, if_false, nthOf]
      exact ih n

theorem updNth_filter_in (j : Nat) (f : TaskRec T A → TaskRec T A) (hf : ∀ t, (f t).jar = t.jar) :
    ∀ (n : Nat) (l : List (TaskRec T A)),
    (updNth j f n l).filter (fun t => decide (t.jar = j)) = updNth j f n (l.filter (fun t => decide (t.jar = j))) := by
  intro n l
  induction l generalizing n with
  | nil => rfl
  | cons t ts ih =>
    by_cases h : t.jar = j
    · cases n with
      | zero => simp [updNth, List.filter_cons, h, hf]
      | succ k => simp [updNth, List.filter_cons, h, ih k]
    · simp [updNth, List.filter_cons, h, ih n]

theorem updNth_filter_out (j k : Nat) (hk : k ≠ j) (f : TaskRec T A → TaskRec T A) (hf : ∀ t, (f t).jar = t.jar) :
    ∀ (n : Nat) (l : List (TaskRec T A)),
    (updNth k f n l).filter (fun t => decide (t.jar = j)) = l.filter (fun t => decide (t.jar = j)) := by
  intro n l
  induction l generalizing n with
  | nil => rfl
  | cons t ts ih =>
    by_cases h : t.jar = k
    · have hj : t.jar ≠ j := by rw [h]; exact hk
      cases n with
      | zero => simp [updNth, List.filter_cons, h, hf, hk]
      | succ m => simp [updNth, List.filter_cons, h, hk, ih m]
    · simp only [updNth, h, if_false, List.filter_cons]
      rw [ih n]

theorem nthOf_mem (j : Nat) : ∀ (n : Nat) (l : List (TaskRec T A)) (t : TaskRec T A),
    nthOf j n l = some t → t ∈ l ∧ t.jar = j := by
  intro n l
  induction l generalizing n with
  | nil => intro t h; simp [nthOf] at h
  | cons x xs ih =>
    intro t h
    unfold nthOf at h
    by_cases hx : x.jar = j
    · rw [if_pos hx] at h
      cases n with
      | zero => simp only [Option.some.injEq] at h; subst h; exact ⟨List.mem_cons_self .., hx⟩
      | succ k => have := ih k t h; exact ⟨List.mem_cons_of_mem _ this.1, this.2⟩
    · rw [if_neg hx] at h
      have := ih n t h; exact ⟨List.mem_cons_of_mem _ this.1, this.2⟩

end sims
end ServerM
