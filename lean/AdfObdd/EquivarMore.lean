import AdfObdd.Equivar
import AdfObdd.Stable
import AdfObdd.PreGround2
/-! presentation independence, continued: `Renamed` is symmetric (swap `p` and `q`), hence least
    fixpoints correspond (grounded) and — the reduct commuting with renaming — stable models
    correspond (C10, specification level) -/

namespace EquivarMore

/-- a re-presentation can be undone: `D` is `D'` presented through the inverse bijection -/
theorem Renamed.symm {p q : Nat → Nat} {D D' : List BoolFn} (h : Renamed p q D D') : Renamed q p D' D := by
  refine ⟨h.inv2, h.inv1, h.len.symm, ?_, ?_, ?_⟩
  · intro i hi; rw [h.len] at hi ⊢; exact h.rangeq i hi
  · intro j hj; rw [h.len] at hj ⊢; exact h.range j hj
  · intro i f' hf'
    have hi : i < D.length := by
      rw [← h.len]
      rcases Nat.lt_or_ge i D'.length with h' | h'
      · exact h'
      · rw [List.getElem?_eq_none h'] at hf'; cases hf'
    have hq := h.rangeq i hi
    have hf : D[q i]? = some D[q i] := List.getElem?_eq_getElem hq
    have := h.fn (q i) _ hf
    rw [h.inv2 i, hf'] at this
    cases this
    rw [hf]
    congr 1
    funext σ
    simp only [h.inv1]

theorem RenamedI.symm {p q : Nat → Nat} {n : Nat} {w w' : I3} (inv2 : ∀ k, p (q k) = k)
    (rangeq : ∀ j, j < n → q j < n) (h : RenamedI p n w w') : RenamedI q n w' w := by
  refine ⟨h.2.1, h.1, ?_⟩
  intro j hj
  have := h.2.2 (q j) (rangeq j hj)
  rw [inv2 j] at this
  exact this.symm

/-- read an interpretation of the re-presented framework back through `p` -/
def pull (p : Nat → Nat) (n : Nat) (w' : I3) : I3 := (List.range n).map (fun i => (w'[p i]?).getD none)

theorem pull_spec (p : Nat → Nat) (n : Nat) (w' : I3) (hl : w'.length = n) (range : ∀ i, i < n → p i < n) :
    RenamedI p n (pull p n w') w' := by
  refine ⟨hl, by simp [pull], ?_⟩
  intro i hi
  have hp : p i < w'.length := by rw [hl]; exact range i hi
  simp [pull, List.getElem?_map, List.getElem?_range hi, List.getElem?_eq_getElem hp]

theorem lfp_length {D : List BoolFn} {g : I3} (h : Gam D g = g) : g.length = D.length := by
  have := congrArg List.length h
  rw [Gam_length] at this; omega

/-- positions outside the statements carry nothing -/
theorem lt_of_get_some {w : I3} {j : Nat} {x : Option Bool} (h : w[j]? = some x) : j < w.length := by
  rcases Nat.lt_or_ge j w.length with h' | h'
  · exact h'
  · rw [List.getElem?_eq_none h'] at h; cases h

/-- the information order is preserved by a re-presentation -/
theorem Le3_renamed {p q : Nat → Nat} {n : Nat} {g g' w w' : I3} (inv2 : ∀ k, p (q k) = k)
    (rangeq : ∀ j, j < n → q j < n) (hg : RenamedI p n g g') (hw : RenamedI p n w w') (hle : Le3 g w) :
    Le3 g' w' := by
  intro j b hj
  have hjn : j < n := by rw [← hg.1]; exact lt_of_get_some hj
  have a := hg.2.2 (q j) (rangeq j hjn)
  have c := hw.2.2 (q j) (rangeq j hjn)
  rw [inv2 j] at a c
  rw [c]; apply hle; rw [← a]; exact hj

/-- C10, grounded: least fixpoints correspond -/
theorem lfp_renamed (p q : Nat → Nat) (D D' : List BoolFn) (g g' : I3) (h : Renamed p q D D')
    (hg : RenamedI p D.length g g') (hl : IsLfp D g) : IsLfp D' g' := by
  refine ⟨complete_renamed p q D D' g g' h hg hl.1, ?_⟩
  intro w' hw'
  have hwl : w'.length = D.length := by rw [lfp_length hw', h.len]
  have hw := pull_spec p D.length w' hwl h.range
  -- the pulled-back interpretation is a fixpoint of the original framework
  have hs := Renamed.symm h
  have hw'' : RenamedI q D'.length w' (pull p D.length w') := by
    rw [h.len]; exact RenamedI.symm h.inv2 h.rangeq hw
  have hfix : Gam D (pull p D.length w') = pull p D.length w' :=
    complete_renamed q p D' D w' _ hs hw'' hw'
  exact Le3_renamed h.inv2 h.rangeq hg hw (hl.2 _ hfix)

theorem falsePart_renamed {p : Nat → Nat} {n : Nat} {v v' : I3} (h : RenamedI p n v v') :
    RenamedI p n (falsePart v) (falsePart v') := by
  refine ⟨by simp [falsePart, h.1], by simp [falsePart, h.2.1], ?_⟩
  intro i hi
  rw [falsePart_get, falsePart_get, h.2.2 i hi]

theorem redu_get (D : List BoolFn) (v : I3) (i : Nat) :
    (redu D v)[i]? = (D[i]?).map (fun f σ => f (over σ 0 (falsePart v))) := by
  simp [redu]

/-- the reduct commutes with a re-presentation -/
theorem redu_renamed (p q : Nat → Nat) (D D' : List BoolFn) (v v' : I3) (h : Renamed p q D D')
    (hv : RenamedI p D.length v v') : Renamed p q (redu D v) (redu D' v') := by
  have hl : (redu D v).length = D.length := by simp [redu]
  have hl' : (redu D' v').length = D'.length := by simp [redu]
  refine ⟨h.inv1, h.inv2, by rw [hl, hl', h.len], ?_, ?_, ?_⟩
  · intro i hi; rw [hl] at hi ⊢; exact h.range i hi
  · intro j hj; rw [hl] at hj ⊢; exact h.rangeq j hj
  · intro i f hf
    rw [redu_get] at hf
    cases hd : D[i]? with
    | none => rw [hd] at hf; cases hf
    | some f0 =>
      rw [hd] at hf
      simp only [Option.map_some, Option.some.injEq] at hf
      subst hf
      rw [redu_get, h.fn i f0 hd]
      simp only [Option.map_some, Option.some.injEq]
      funext σ'
      congr 1
      funext k
      exact over_rename p q D.length (falsePart v) (falsePart v') h.inv1 h.rangeq
        (falsePart_renamed hv) σ' k

/-- the definition of a stable model: total, a model, the true statements re-derived from the reduct -/
def StableM (D : List BoolFn) (v : I3) : Prop :=
  TotalI v ∧ Gam D v = v ∧
    ∀ w : I3, IsLfp (redu D v) w → ∀ i : Nat, v[i]? = some (some true) → w[i]? = some (some true)

/-- C10, stable: stable models correspond -/
theorem stable_renamed (p q : Nat → Nat) (D D' : List BoolFn) (v v' : I3) (h : Renamed p q D D')
    (hv : RenamedI p D.length v v') (hs : StableM D v) : StableM D' v' := by
  obtain ⟨ht, hm, htr⟩ := hs
  refine ⟨?_, complete_renamed p q D D' v v' h hv hm, ?_⟩
  · intro j hj
    have hjn : j < D.length := by rw [← hv.1]; exact hj
    have hq := h.rangeq j hjn
    have a := hv.2.2 (q j) hq
    rw [h.inv2 j] at a
    rw [a]
    exact ht (q j) (by rw [hv.2.1]; exact hq)
  · intro w' hw' j hj
    have hr := redu_renamed p q D D' v v' h hv
    have hrl : (redu D v).length = D.length := by simp [redu]
    have hwl : w'.length = D.length := by
      rw [lfp_length hw'.1]; simp [redu, h.len]
    have hw := pull_spec p D.length w' hwl h.range
    have hw'' : RenamedI q (redu D' v').length w' (pull p D.length w') := by
      have : (redu D' v').length = D.length := by simp [redu, h.len]
      rw [this]; exact RenamedI.symm h.inv2 h.rangeq hw
    have hlfp : IsLfp (redu D v) (pull p D.length w') :=
      lfp_renamed q p (redu D' v') (redu D v) w' _ (Renamed.symm hr) hw'' hw'
    have hjn : j < D.length := by rw [← hv.1]; exact lt_of_get_some hj
    have hq := h.rangeq j hjn
    have a := hv.2.2 (q j) hq
    have c := hw.2.2 (q j) hq
    rw [h.inv2 j] at a c
    rw [c]
    apply htr _ hlfp
    rw [← a]; exact hj

/-- both directions -/
theorem complete_renamed_iff (p q : Nat → Nat) (D D' : List BoolFn) (w w' : I3) (h : Renamed p q D D')
    (hw : RenamedI p D.length w w') : Gam D w = w ↔ Gam D' w' = w' :=
  ⟨complete_renamed p q D D' w w' h hw,
   complete_renamed q p D' D w' w (Renamed.symm h) (by rw [h.len]; exact RenamedI.symm h.inv2 h.rangeq hw)⟩

theorem lfp_renamed_iff (p q : Nat → Nat) (D D' : List BoolFn) (g g' : I3) (h : Renamed p q D D')
    (hg : RenamedI p D.length g g') : IsLfp D g ↔ IsLfp D' g' :=
  ⟨lfp_renamed p q D D' g g' h hg,
   lfp_renamed q p D' D g' g (Renamed.symm h) (by rw [h.len]; exact RenamedI.symm h.inv2 h.rangeq hg)⟩

theorem stable_renamed_iff (p q : Nat → Nat) (D D' : List BoolFn) (v v' : I3) (h : Renamed p q D D')
    (hv : RenamedI p D.length v v') : StableM D v ↔ StableM D' v' :=
  ⟨stable_renamed p q D D' v v' h hv,
   stable_renamed q p D' D v' v (Renamed.symm h) (by rw [h.len]; exact RenamedI.symm h.inv2 h.rangeq hv)⟩

/-- THE grounded interpretations of two presentations correspond (no correspondence assumed) -/
theorem grounded_corr (p q : Nat → Nat) (D D' : List BoolFn) (g g' : I3) (h : Renamed p q D D')
    (hg : IsLfp D g) (hg' : IsLfp D' g') : RenamedI p D.length g g' := by
  have hgl : g.length = D.length := lfp_length hg.1
  have h1 : RenamedI q D.length (pull q D.length g) g := pull_spec q D.length g hgl h.rangeq
  have h2 : RenamedI p D.length g (pull q D.length g) := RenamedI.symm h.inv1 h.range h1
  have h3 : IsLfp D' (pull q D.length g) := lfp_renamed p q D D' g _ h h2 hg
  have e : pull q D.length g = g' :=
    Le3_antisymm (by rw [lfp_length h3.1, lfp_length hg'.1]) (h3.2 _ hg'.1) (hg'.2 _ h3.1)
  rw [← e]; exact h2

end EquivarMore
