import AdfObdd.ServerD9
/-! # C16 — "an accepted solve yields a stored result" and "an ended task is not reported as running"

Review 2 item 5. Any environment, the atomic-request model `ServerM.runAll`.

* **(a) liveness-flavoured**: `write_lands` / `write_lost` characterise the final write of a task by the
  number of documents under the task's key AT THE MOMENT OF THE WRITE (`docsAt`): none - the write is
  dropped (`update_one` matches nothing; D9's LOST write), at least one - the first of them receives
  `taskWrite`. `accepted_solve_yields_result`: from any state in which a solve task `(j, n)` for the key
  `(u, name)` is unfinished and a document carries the key, after `es2 ++ [finish j n] ++ es3 ++ [write j n]`
  with `es2`, `es3` free of `DELETE /adf`, `DELETE /users/delete`, `PUT /users/update` and of events of this
  very task, the document under the key shows under `s` exactly the outcome of `E.solve a s`.
  `accepted_solve_spawns`: an accepted `PUT /adf/{name}/solve` produces such a state.
* **(b)** `NoLostWrite`: no write of the history is dropped. `histLost` (rename while the solve runs)
  satisfies `NoStaleWrite` (the former `NoD9`) but not `NoLostWrite`.
* **(c)** `RunInv`: every entry of `currently_running` is the `RunningInfo` of a task whose blocking part
  has not ended - an invariant of EVERY history (`runInv_reachable`), so `GET` never lists a task kind for
  a key none of whose tasks of that kind is still computing (`listed_only_if_unfinished`). The converse
  (every unfinished task is listed) is FALSE in the Rust and in the model: `currently_running` is a SET of
  `(user, problem, task kind)`; two tasks with the same triple (delete + re-add of a problem while its parse
  task runs) share one entry, and the first to end removes it (`histTwin`).
* **(d) timing of the running entry - MODELLED, NOT VERIFIED**: the model's `.spawn` command inserts the
  `RunningInfo` inside the request (ServerModel.lean `exec … (.spawn t)`), the Rust creates the
  `RunningGuard` as the first statement INSIDE the `spawn_blocking` closure (adf.rs:427-433 parse, 583
  solve), i.e. on the blocking thread pool some time after the handler has answered `200`. Observable
  difference: (1) two quick `PUT /adf/{n}/solve` of one strategy - the second request's
  `currently_running.contains(..)` (adf.rs:549-556) can run before the first task's guard exists, so the
  real server may answer `200 Solving started...` twice where the model answers `409`; both tasks then
  compute and write the same value, the stored answer is unaffected (`C17.solve_race_*` shows the same
  outcome for command-level interleaving). (2) a `GET` immediately after the `200` may show
  `running_tasks: []` although the task has been accepted. Making the model faithful needs a separate
  `start` event between `.spawn` and `.finish` (the harness would have to observe the guard's creation to
  schedule it); the driver's transcripts are recorded with the request-time insertion, every `GET` in them
  is issued after the harness has seen the task's write, so they do not discriminate. Not changed here. -/
namespace ServerM
section
variable {T H A R : Type} [DecidableEq T]

/-! ## list facts about the task list -/

theorem mem_updNth_fwd (j : Nat) (f : TaskRec T A → TaskRec T A) : ∀ (n : Nat) (l : List (TaskRec T A)) (t : TaskRec T A),
    t ∈ l → t ∈ updNth j f n l ∨ (nthOf j n l = some t ∧ f t ∈ updNth j f n l) := by
  intro n l
  induction l generalizing n with
  | nil => intro t h; cases h
  | cons x xs ih =>
    intro t h
    unfold updNth nthOf
    by_cases hx : x.jar = j
    · simp only [hx, if_true]
      cases n with
      | zero =>
        rcases List.mem_cons.mp h with rfl | h
        · exact Or.inr ⟨rfl, List.mem_cons_self ..⟩
        · exact Or.inl (List.mem_cons_of_mem _ h)
      | succ k =>
        rcases List.mem_cons.mp h with rfl | h
        · exact Or.inl (List.mem_cons_self ..)
        · rcases ih k t h with h' | ⟨h1, h2⟩
          · exact Or.inl (List.mem_cons_of_mem _ h')
          · exact Or.inr ⟨h1, List.mem_cons_of_mem _ h2⟩
    · simp only [hx, if_false]
      rcases List.mem_cons.mp h with rfl | h
      · exact Or.inl (List.mem_cons_self ..)
      · rcases ih n t h with h' | ⟨h1, h2⟩
        · exact Or.inl (List.mem_cons_of_mem _ h')
        · exact Or.inr ⟨h1, List.mem_cons_of_mem _ h2⟩

theorem nthOf_append (j : Nat) : ∀ (n : Nat) (l l' : List (TaskRec T A)) (t : TaskRec T A),
    nthOf j n l = some t → nthOf j n (l ++ l') = some t := by
  intro n l
  induction l generalizing n with
  | nil => intro l' t h; simp [nthOf] at h
  | cons x xs ih =>
    intro l' t h
    simp only [List.cons_append]
    unfold nthOf at h ⊢
    by_cases hx : x.jar = j
    · simp only [hx, if_true] at h ⊢
      cases n with
      | zero => exact h
      | succ k => exact ih k l' t h
    · simp only [hx, if_false] at h ⊢
      exact ih n l' t h

/-- the task a request of `jar` appends is the `n`-th of `jar` for `n` = number of `jar`'s earlier tasks -/
theorem nthOf_new (j : Nat) (t : TaskRec T A) (ht : t.jar = j) : ∀ l : List (TaskRec T A),
    nthOf j (l.filter (fun x => decide (x.jar = j))).length (l ++ [t]) = some t := by
  intro l
  induction l with
  | nil => simp [nthOf, ht]
  | cons x xs ih =>
    simp only [List.cons_append]
    unfold nthOf
    by_cases hx : x.jar = j
    · simp only [hx, if_true, List.filter_cons, decide_true, List.length_cons]
      exact ih
    · simp only [hx, if_false, List.filter_cons, decide_false, Bool.false_eq_true]
      exact ih

theorem nthOf_updNth_same (j : Nat) (f : TaskRec T A → TaskRec T A) (hf : ∀ t, (f t).jar = t.jar) :
    ∀ (n : Nat) (l : List (TaskRec T A)) (t : TaskRec T A), nthOf j n l = some t → nthOf j n (updNth j f n l) = some (f t) := by
  intro n l
  induction l generalizing n with
  | nil => intro t h; simp [nthOf] at h
  | cons x xs ih =>
    intro t h
    unfold nthOf at h
    unfold updNth
    by_cases hx : x.jar = j
    · simp only [hx, if_true] at h ⊢
      cases n with
      | zero =>
        simp only [Option.some.injEq] at h
        subst h
        simp only [nthOf, hf, hx, if_true]
      | succ k =>
        simp only [nthOf, hx, if_true]
        exact ih k t h
    · simp only [hx, if_false] at h ⊢
      simp only [nthOf, hx, if_false]
      exact ih n t h

theorem nthOf_updNth_other (j j' : Nat) (f : TaskRec T A → TaskRec T A) (hf : ∀ t, (f t).jar = t.jar) :
    ∀ (n n' : Nat) (l : List (TaskRec T A)), ¬ (j' = j ∧ n' = n) → nthOf j n (updNth j' f n' l) = nthOf j n l := by
  intro n n' l
  induction l generalizing n n' with
  | nil => intro _; rfl
  | cons x xs ih =>
    intro hne
    unfold updNth
    by_cases hx' : x.jar = j'
    · simp only [hx', if_true]
      cases n' with
      | zero =>
        by_cases hx : j' = j
        · subst hx
          have hn : n ≠ 0 := fun h => hne ⟨rfl, h.symm⟩
          obtain ⟨k, rfl⟩ := Nat.exists_eq_succ_of_ne_zero hn
          simp only [nthOf, hf, hx', if_true]
        · have h1 : ¬ (f x).jar = j := by rw [hf, hx']; exact hx
          have h2 : ¬ x.jar = j := by rw [hx']; exact hx
          simp only [nthOf, h1, h2, if_false]
      | succ k' =>
        by_cases hx : j' = j
        · subst hx
          cases n with
          | zero => simp only [nthOf, hx', if_true]
          | succ k =>
            simp only [nthOf, hx', if_true]
            exact ih k k' (fun h => hne ⟨rfl, by omega⟩)
        · have h2 : ¬ x.jar = j := by rw [hx']; exact hx
          simp only [nthOf, h2, if_false]
          exact ih n k' (fun h => hx h.1)
    · simp only [hx', if_false]
      by_cases hx : x.jar = j
      · cases n with
        | zero => simp only [nthOf, hx, if_true]
        | succ k =>
          simp only [nthOf, hx, if_true]
          exact ih k n' (fun h => hx' (by rw [hx, h.1]))
      · simp only [nthOf, hx, if_false]
        exact ih n n' hne

/-! ## (c) the running set -/

/-- every entry of `currently_running` is the `RunningInfo` of a task whose blocking part has not ended -/
def RunInv (db : Db T H A R) : Prop :=
  ∀ x ∈ db.running, ∃ t ∈ db.tasks, t.info = x ∧ t.blockingDone = false

/-- the tasks a handler spawns have not ended -/
def FreshSpawn : Cmd T H A R → Prop
  | .spawn t => t.blockingDone = false
  | _ => True

theorem RunInv.congr {db db' : Db T H A R} (h : RunInv db) (hr : db'.running = db.running) (ht : db'.tasks = db.tasks) :
    RunInv db' := by
  intro x hx; rw [hr] at hx; rw [ht]; exact h x hx

theorem exec_runInv (db : Db T H A R) (c : Cmd T H A R) (hc : FreshSpawn c) (h : RunInv db) : RunInv (exec db c).1 := by
  cases c with
  | spawn t =>
    intro x hx
    simp only [exec] at hx ⊢
    have hcase : x ∈ db.running ∨ x = t.info := by
      split at hx
      · exact Or.inl hx
      · rcases List.mem_append.mp hx with h' | h'
        · exact Or.inl h'
        · exact Or.inr (by simpa using h')
    rcases hcase with h' | h'
    · obtain ⟨w, hw, h1, h2⟩ := h x h'
      exact ⟨w, List.mem_append_left _ hw, h1, h2⟩
    · exact ⟨t, List.mem_append_right _ (List.mem_singleton.mpr rfl), h'.symm, hc⟩
  | uInsert u => simp only [exec]; split <;> exact h.congr rfl rfl
  | uReplace n u => simp only [exec]; split <;> exact h.congr rfl rfl
  | uFind _ => exact h
  | uDelete _ => exact h.congr rfl rfl
  | pFindOne _ _ => exact h
  | pFindAll _ => exact h
  | pInsert _ => exact h.congr rfl rfl
  | pSet _ _ _ => exact h.congr rfl rfl
  | pDeleteOne _ _ => exact h.congr rfl rfl
  | pDeleteAll _ => exact h.congr rfl rfl
  | pRename _ _ => exact h.congr rfl rfl
  | rContains _ => exact h
  | rTasks _ _ => exact h

theorem addFor_fresh (jar : Nat) (ck : Cookie T) (u name code : T) (parsing : Parsing) (emp fp : T) :
    AllCmds FreshSpawn (fun _ => True) (addFor jar ck u name code parsing emp fp : P T H A R) := by
  have hins : ∀ n : T, AllCmds FreshSpawn (fun _ => True)
      (.cmd (.pInsert { name := n, username := u, code := code, parsing := parsing }) fun _ =>
       .cmd (.spawn { jar := jar, username := u, name := n, input := .parse code parsing }) fun _ =>
       .ret ⟨200, ck, .msg .parsingStarted⟩ : P T H A R) := by
    intro n
    refine .cmd _ _ trivial ?_
    intro _ _
    refine .cmd _ _ rfl ?_
    intro _ _; exact .ret _ trivial
  unfold addFor
  simp only
  split
  · refine .cmd _ _ trivial ?_
    intro r _
    cases r with
    | some _ => exact .ret _ trivial
    | none => exact hins _
  · refine .cmd _ _ trivial ?_
    intro r _
    cases r with
    | some _ => exact .ret _ trivial
    | none => exact hins _

theorem hAdd_fresh (E : Env T H A R) (jar : Nat) (id : Option T) (name : T) (code file : Option T) (parsing : Parsing)
    (fu fp : T) : AllCmds FreshSpawn (fun _ => True) (hAdd E jar id name code file parsing fu fp) := by
  unfold hAdd
  split
  · exact .ret _ trivial
  · split
    · exact .ret _ trivial
    · cases id with
      | some u => exact addFor_fresh jar _ u name _ parsing _ fp
      | none =>
        refine .cmd _ _ trivial ?_
        intro r _
        cases r with
        | some _ => exact .ret _ trivial
        | none =>
          refine .cmd _ _ trivial ?_
          intro ok _
          cases ok
          · exact .ret _ trivial
          · exact addFor_fresh jar _ fu name _ parsing _ fp

theorem hSolve_fresh (jar : Nat) (id : Option T) (name : T) (s : Strategy) :
    AllCmds FreshSpawn (fun _ => True) (hSolve jar id name s : P T H A R) := by
  unfold hSolve
  cases id with
  | none => exact .ret _ trivial
  | some u =>
    refine .cmd _ _ trivial ?_
    intro r _
    cases r with
    | none => exact .ret _ trivial
    | some p =>
      simp only
      split
      · exact .ret _ trivial
      · exact .ret _ trivial
      · refine .cmd _ _ trivial ?_
        intro busy _
        split
        · exact .ret _ trivial
        · refine .cmd _ _ rfl ?_
          intro _ _; exact .ret _ trivial

/-- every command of every handler spawns only fresh tasks -/
theorem handler_fresh (E : Env T H A R) (jar : Nat) (id : Option T) (rq : Req T) :
    AllCmds FreshSpawn (fun _ => True) (handler E jar id rq) := by
  have of_shape : (∀ c, Shape E jar id rq c → FreshSpawn c) → AllCmds FreshSpawn (fun _ => True) (handler E jar id rq) :=
    fun h => (handler_shape E jar id rq).mono h (fun _ _ => trivial)
  cases rq with
  | add name code file parsing fu fp => exact hAdd_fresh E jar id name code file parsing fu fp
  | solve name s => exact hSolve_fresh jar id name s
  | register u p salt => apply of_shape; intro c hc; rcases hc with rfl | rfl <;> trivial
  | login u p => apply of_shape; intro c hc; cases hc; trivial
  | logout => apply of_shape; intro c hc; obtain ⟨v, _, rfl⟩ := hc; trivial
  | info => apply of_shape; intro c hc; obtain ⟨v, _, rfl⟩ := hc; trivial
  | update u p salt => apply of_shape; intro c hc; obtain ⟨v, _, rfl | rfl | rfl⟩ := hc <;> trivial
  | deleteAccount => apply of_shape; intro c hc; obtain ⟨v, _, rfl | rfl⟩ := hc <;> trivial
  | get name => apply of_shape; intro c hc; obtain ⟨v, _, rfl | ⟨n, rfl⟩⟩ := hc <;> trivial
  | delete name => apply of_shape; intro c hc; obtain ⟨v, _, rfl⟩ := hc; trivial
  | list => apply of_shape; intro c hc; obtain ⟨v, _, rfl | ⟨n, rfl⟩⟩ := hc <;> trivial
  | malformed => apply of_shape; intro c hc; cases hc

theorem flagsW_runInv {db : Db T H A R} (h : RunInv db) (j n : Nat) (ps : List (Problem T A R)) :
    RunInv { db with problems := ps, tasks := updNth j (fun t => { t with written := true }) n db.tasks } := by
  intro x hx
  obtain ⟨w, hw, h1, h2⟩ := h x hx
  rcases mem_updNth_fwd j (fun t => { t with written := true }) n db.tasks w hw with h' | ⟨_, h'⟩
  · exact ⟨w, h', h1, h2⟩
  · exact ⟨_, h', h1, h2⟩

theorem dbEv_runInv (E : Env T H A R) {db : Db T H A R} (h : RunInv db) (e : Event T) : RunInv (dbEv E db e) := by
  cases e with
  | req _ => exact h
  | finish j n =>
    simp only [dbEv]
    cases ht : nthOf j n db.tasks with
    | none => exact h
    | some t =>
      simp only
      split
      · exact h
      · intro x hx
        simp only [eraseInfo, List.mem_filter, Bool.not_eq_true'] at hx
        obtain ⟨w, hw, h1, h2⟩ := h x hx.1
        rcases mem_updNth_fwd j (fun t => { t with blockingDone := true }) n db.tasks w hw with h' | ⟨h', _⟩
        · exact ⟨w, h', h1, h2⟩
        · -- `w` is the finished task itself: then `x = t.info` was erased
          rw [ht] at h'
          cases h'
          have : isInfo t.info x = true := by rw [← h1]; simp [isInfo]
          rw [this] at hx
          exact absurd hx.2 (by simp)
  | write j n =>
    simp only [dbEv]
    cases ht : nthOf j n db.tasks with
    | none => exact h
    | some t =>
      simp only
      split
      · exact flagsW_runInv h j n _
      · exact h
  | timeout j n =>
    simp only [dbEv]
    cases ht : nthOf j n db.tasks with
    | none => exact h
    | some t =>
      simp only
      split
      · exact flagsW_runInv h j n _
      · exact h

theorem stepEv_runInv (E : Env T H A R) {st : State T H A R} (h : RunInv st.db) (e : Event T) :
    RunInv (stepEv E st e).1.db := by
  cases e with
  | req rq =>
    obtain ⟨jar, r⟩ := rq
    show RunInv (run (handler E jar (st.sess jar) r) st.db).1
    exact run_inv RunInv (fun d c hc hi => exec_runInv d c hc hi) (handler_fresh E jar (st.sess jar) r) st.db h
  | finish j n => exact dbEv_runInv E h (.finish j n)
  | write j n => exact dbEv_runInv E h (.write j n)
  | timeout j n => exact dbEv_runInv E h (.timeout j n)

theorem runAll_runInv (E : Env T H A R) : ∀ (es : List (Event T)) (st : State T H A R), RunInv st.db →
    RunInv (runAll E st es).1.db := by
  intro es
  induction es with
  | nil => intro st h; exact h
  | cons e es ih => intro st h; exact ih _ (stepEv_runInv E h e)

/-- **the running set over ALL histories**: in every state reached from the empty server, every entry of
`currently_running` belongs to a task whose blocking part has not ended -/
theorem runInv_reachable (E : Env T H A R) (es : List (Event T)) : RunInv (runAll E {} es).1.db :=
  runAll_runInv E es {} (fun x hx => by cases hx)

/-- **an ended task is not reported as running, every reachable state**: if `GET` lists a task kind for
the document `(u, n)`, some task of that kind spawned under that key is still in its blocking part. In
particular once EVERY task of that kind and key has ended, the kind is not listed -/
theorem listed_only_if_unfinished (E : Env T H A R) (es : List (Event T)) (u n : T) (k : Task)
    (h : k ∈ (exec (runAll E {} es).1.db (.rTasks u n : Cmd T H A R)).2) :
    ∃ t ∈ (runAll E {} es).1.db.tasks, t.username = u ∧ t.name = n ∧ t.input.task = k ∧ t.blockingDone = false := by
  simp only [exec, List.mem_map, List.mem_filter, Bool.and_eq_true, decide_eq_true_eq] at h
  obtain ⟨x, ⟨hx, hname, huser⟩, htask⟩ := h
  obtain ⟨t, ht, h1, h2⟩ := runInv_reachable E es x hx
  refine ⟨t, ht, ?_, ?_, ?_, h2⟩
  · rw [← huser, ← h1]; rfl
  · rw [← hname, ← h1]; rfl
  · rw [← htask, ← h1]; rfl

/-! ## (a), (b) the final write: lands or is lost -/

/-- **lost write**: the final write of a task whose key addresses NO document at that moment changes no
document (`update_one` matches nothing) - the task's outcome is never stored -/
theorem write_lost (E : Env T H A R) (db : Db T H A R) (j n : Nat) (t : TaskRec T A)
    (ht : nthOf j n db.tasks = some t) (hlive : t.blockingDone = true ∧ t.written = false)
    (h0 : docsAt db t.username t.name = 0) : (dbEv E db (.write j n)).problems = db.problems := by
  rw [dbEv_write E db j n t ht hlive]
  have : ∀ l : List (Problem T A R), l.countP (isProb t.username t.name) = 0 →
      updFirst (isProb t.username t.name) (taskWrite E t.input).apply l = l := by
    intro l
    induction l with
    | nil => intro _; rfl
    | cons x xs ih =>
      intro hc
      by_cases hx : isProb t.username t.name x = true
      · simp [List.countP_cons, hx] at hc
      · simp only [List.countP_cons, hx, Bool.false_eq_true, if_false, Nat.add_zero] at hc
        simp only [updFirst, hx, Bool.false_eq_true, if_false, ih hc]
  exact this _ h0

/-- **the write lands**: if a document carries the task's key at that moment, the first such document
receives the task's outcome -/
theorem write_lands (E : Env T H A R) (db : Db T H A R) (j n : Nat) (t : TaskRec T A)
    (ht : nthOf j n db.tasks = some t) (hlive : t.blockingDone = true ∧ t.written = false)
    (p : Problem T A R) (hp : db.problems.find? (isProb t.username t.name) = some p) :
    (dbEv E db (.write j n)).problems.find? (isProb t.username t.name) = some ((taskWrite E t.input).apply p) := by
  rw [dbEv_write E db j n t ht hlive, find_updFirst_same _ _ (fun x hx => by rw [isProb_apply]; exact hx), hp]
  rfl

/-- the outcome of the solve call as it is stored -/
def solveOutcome (E : Env T H A R) (a : A) (s : Strategy) : OWE R :=
  match E.solve a s with
  | .ok r => .some r
  | .error e => .error e

theorem taskWrite_solve (E : Env T H A R) (a : A) (s : Strategy) : taskWrite E (.solve a s) = .solved s (solveOutcome E a s) := by
  unfold solveOutcome
  simp only [taskWrite]
  cases E.solve a s <;> rfl

/-- the state of one solve task and its key between spawn and write -/
structure Pending (u name : T) (a : A) (s : Strategy) (j n : Nat) (done : Bool) (db : Db T H A R) : Prop where
  doc : ∃ p, db.problems.find? (isProb u name) = some p
  task : ∃ t, nthOf j n db.tasks = some t ∧ t.username = u ∧ t.name = name ∧ t.input = .solve a s ∧
    t.blockingDone = done ∧ t.written = false

/-- events that neither remove nor rename documents and are not events of the task `(j, n)` -/
def Quiet (j n : Nat) : Event T → Bool
  | .req rq => rq.req.keeps
  | .finish j' n' => !(decide (j' = j) && decide (n' = n))
  | .write j' n' => !(decide (j' = j) && decide (n' = n))
  | .timeout j' n' => !(decide (j' = j) && decide (n' = n))

/-- what a document-keeping request does to problems and tasks: both lists only grow at the end -/
theorem keeps_request_grows (E : Env T H A R) (st : State T H A R) (rq : Request T) (hk : rq.req.keeps = true) :
    ∃ ps ts, (step E st rq).1.db.problems = st.db.problems ++ ps ∧ (step E st rq).1.db.tasks = st.db.tasks ++ ts := by
  obtain ⟨jar, r⟩ := rq
  show ∃ ps ts, (run (handler E jar (st.sess jar) r) st.db).1.problems = st.db.problems ++ ps ∧
    (run (handler E jar (st.sess jar) r) st.db).1.tasks = st.db.tasks ++ ts
  have harmless : (∀ c, Shape E jar (st.sess jar) r c → Harmless c) →
      ∃ ps ts, (run (handler E jar (st.sess jar) r) st.db).1.problems = st.db.problems ++ ps ∧
        (run (handler E jar (st.sess jar) r) st.db).1.tasks = st.db.tasks ++ ts := by
    intro hQ
    have := run_harmless hQ (handler_shape E jar (st.sess jar) r) st.db
    exact ⟨[], [], by simp [this.1], by simp [this.2]⟩
  cases r with
  | delete _ => cases hk
  | deleteAccount => cases hk
  | update _ _ _ => cases hk
  | register u p salt => apply harmless; intro c hc; rcases hc with rfl | rfl <;> trivial
  | login u p => apply harmless; intro c hc; cases hc; trivial
  | logout => apply harmless; intro c hc; obtain ⟨v, _, rfl⟩ := hc; trivial
  | info => apply harmless; intro c hc; obtain ⟨v, _, rfl⟩ := hc; trivial
  | get name => apply harmless; intro c hc; obtain ⟨v, _, rfl | ⟨n, rfl⟩⟩ := hc <;> trivial
  | list => apply harmless; intro c hc; obtain ⟨v, _, rfl | ⟨n, rfl⟩⟩ := hc <;> trivial
  | malformed => apply harmless; intro c hc; cases hc
  | add name code file parsing fu fp =>
    simp only [handler]
    rcases hAdd_effect E jar (st.sess jar) name code file parsing fu fp st.db with ⟨h1, h2⟩ | ⟨u, n, c, _, h1, h2⟩
    · exact ⟨[], [], by rw [h1, List.append_nil], by rw [h2, List.append_nil]⟩
    · exact ⟨_, _, h1, h2⟩
  | solve name s =>
    simp only [handler]
    obtain ⟨h1, h2 | ⟨u, p, a, _, _, h2⟩⟩ := hSolve_effect (H := H) jar (st.sess jar) name s st.db
    · exact ⟨[], [], by rw [h1, List.append_nil], by rw [h2, List.append_nil]⟩
    · exact ⟨[], _, by rw [h1, List.append_nil], h2⟩

theorem Pending.quiet (E : Env T H A R) {u name : T} {a : A} {s : Strategy} {j n : Nat} {done : Bool}
    {st : State T H A R} (h : Pending u name a s j n done st.db) (e : Event T) (hq : Quiet j n e = true) :
    Pending u name a s j n done (stepEv E st e).1.db := by
  obtain ⟨⟨p, hp⟩, ⟨t, ht, hrest⟩⟩ := h
  have flags : ∀ (j' n' : Nat) (f : TaskRec T A → TaskRec T A) (ps : List (Problem T A R)),
      (∀ t, (f t).jar = t.jar) → ¬ (j' = j ∧ n' = n) → (∃ p', ps.find? (isProb u name) = some p') →
      Pending u name a s j n done { st.db with problems := ps, tasks := updNth j' f n' st.db.tasks } := by
    intro j' n' f ps hf hne hps
    exact ⟨hps, ⟨t, by rw [nthOf_updNth_other j j' f hf n n' _ hne]; exact ht, hrest⟩⟩
  cases e with
  | req rq =>
    obtain ⟨ps, ts, h1, h2⟩ := keeps_request_grows E st rq hq
    refine ⟨⟨p, ?_⟩, ⟨t, ?_, hrest⟩⟩
    · show (step E st rq).1.db.problems.find? _ = _
      rw [h1, List.find?_append, hp]; rfl
    · show nthOf j n (step E st rq).1.db.tasks = _
      rw [h2]; exact nthOf_append j n _ _ t ht
  | finish j' n' =>
    have hne : ¬ (j' = j ∧ n' = n) := by intro h; simp [Quiet, h.1, h.2] at hq
    show Pending u name a s j n done (dbEv E st.db (.finish j' n'))
    simp only [dbEv]
    cases ht' : nthOf j' n' st.db.tasks with
    | none => exact ⟨⟨p, hp⟩, ⟨t, ht, hrest⟩⟩
    | some t' =>
      simp only
      split
      · exact ⟨⟨p, hp⟩, ⟨t, ht, hrest⟩⟩
      · exact ⟨⟨p, hp⟩, ⟨t, (nthOf_updNth_other j j' (fun t => { t with blockingDone := true }) (fun _ => rfl) n n'
          st.db.tasks hne).trans ht, hrest⟩⟩
  | write j' n' =>
    have hne : ¬ (j' = j ∧ n' = n) := by intro h; simp [Quiet, h.1, h.2] at hq
    show Pending u name a s j n done (dbEv E st.db (.write j' n'))
    simp only [dbEv]
    cases ht' : nthOf j' n' st.db.tasks with
    | none => exact ⟨⟨p, hp⟩, ⟨t, ht, hrest⟩⟩
    | some t' =>
      simp only
      split
      · obtain ⟨y', hy', _⟩ := find_updFirst_exists (isProb t'.username t'.name) (isProb u name)
          (taskWrite E t'.input).apply (fun x => isProb_apply u name _ x) st.db.problems p hp
        exact flags j' n' _ _ (fun _ => rfl) hne ⟨y', hy'⟩
      · exact ⟨⟨p, hp⟩, ⟨t, ht, hrest⟩⟩
  | timeout j' n' =>
    have hne : ¬ (j' = j ∧ n' = n) := by intro h; simp [Quiet, h.1, h.2] at hq
    show Pending u name a s j n done (dbEv E st.db (.timeout j' n'))
    simp only [dbEv]
    cases ht' : nthOf j' n' st.db.tasks with
    | none => exact ⟨⟨p, hp⟩, ⟨t, ht, hrest⟩⟩
    | some t' =>
      simp only
      split
      · obtain ⟨y', hy', _⟩ := find_updFirst_exists (isProb t'.username t'.name) (isProb u name)
          (timeoutWrite t'.input : Write A R).apply (fun x => isProb_apply u name _ x) st.db.problems p hp
        exact flags j' n' _ _ (fun _ => rfl) hne ⟨y', hy'⟩
      · exact ⟨⟨p, hp⟩, ⟨t, ht, hrest⟩⟩

theorem Pending.quietAll (E : Env T H A R) {u name : T} {a : A} {s : Strategy} {j n : Nat} {done : Bool} :
    ∀ (es : List (Event T)) (st : State T H A R), Pending u name a s j n done st.db → (∀ e ∈ es, Quiet j n e = true) →
      Pending u name a s j n done (runAll E st es).1.db := by
  intro es
  induction es with
  | nil => intro st h _; exact h
  | cons e es ih =>
    intro st h hq
    exact ih _ (h.quiet E e (hq e (List.mem_cons_self ..))) (fun e' he' => hq e' (List.mem_cons_of_mem _ he'))

theorem Pending.finish (E : Env T H A R) {u name : T} {a : A} {s : Strategy} {j n : Nat}
    {st : State T H A R} (h : Pending u name a s j n false st.db) :
    Pending u name a s j n true (stepEv E st (.finish j n)).1.db := by
  obtain ⟨⟨p, hp⟩, ⟨t, ht, h1, h2, h3, h4, h5⟩⟩ := h
  show Pending u name a s j n true (dbEv E st.db (.finish j n))
  simp only [dbEv, ht, h4, Bool.false_eq_true, if_false]
  exact ⟨⟨p, hp⟩, ⟨_, nthOf_updNth_same j (fun t => { t with blockingDone := true }) (fun _ => rfl) n _ t ht,
    h1, h2, h3, rfl, h5⟩⟩

/-- **(a) an accepted solve whose task is written yields a stored result** (any environment, any state):
if in `st` the solve task `(j, n)` for strategy `s` on the framework `a`, spawned under the key `(u, name)`,
has not ended and a document carries the key, then after ANY events `es2`, the end of its blocking part,
ANY events `es3` and its write - `es2`, `es3` without `DELETE /adf/…`, `DELETE /users/delete`,
`PUT /users/update` and without events of this very task - the document under `(u, name)` shows under `s`
the outcome of `E.solve a s`: `.some r` if the library answered `r` (an `Error` if it panicked) -/
theorem accepted_solve_yields_result (E : Env T H A R) (u name : T) (a : A) (s : Strategy) (j n : Nat)
    (st : State T H A R) (h : Pending u name a s j n false st.db) (es2 es3 : List (Event T))
    (h2 : ∀ e ∈ es2, Quiet j n e = true) (h3 : ∀ e ∈ es3, Quiet j n e = true) :
    ∃ p', (runAll E st (es2 ++ [.finish j n] ++ es3 ++ [.write j n])).1.db.problems.find? (isProb u name) = some p' ∧
      p'.res.get s = solveOutcome E a s := by
  rw [List.append_assoc, List.append_assoc, runAll_append, List.singleton_append, ← List.cons_append]
  have hA := Pending.quietAll E es2 st h h2
  generalize (runAll E st es2).1 = st2 at hA ⊢
  have hB := hA.finish E
  rw [List.cons_append, runAll]
  simp only
  generalize (stepEv E st2 (.finish j n)).1 = st3 at hB ⊢
  rw [runAll_append]
  have hC := Pending.quietAll E es3 st3 hB h3
  generalize (runAll E st3 es3).1 = st4 at hC ⊢
  obtain ⟨⟨p, hp⟩, ⟨t, ht, h1, h2', h3', h4, h5⟩⟩ := hC
  have hw := write_lands E st4.db j n t ht ⟨h4, h5⟩ p (by rw [h1, h2']; exact hp)
  rw [h1, h2', h3', taskWrite_solve] at hw
  refine ⟨_, hw, ?_⟩
  exact Results.get_set_same _ _ _

/-- an accepted `PUT /adf/{name}/solve` produces the starting state of `accepted_solve_yields_result`:
the task is the `n`-th of the jar for `n` = the number of tasks the jar spawned before -/
theorem accepted_solve_spawns (E : Env T H A R) (st : State T H A R) (jar : Nat) (name : T) (s : Strategy)
    (h : (step E st ⟨jar, .solve name s⟩).2.status = 200) :
    ∃ u p a, st.sess jar = some u ∧ st.db.problems.find? (isProb u name) = some p ∧ p.adf = .some a ∧
      Pending u name a s jar (st.db.tasks.filter (fun x => decide (x.jar = jar))).length false
        (step E st ⟨jar, .solve name s⟩).1.db := by
  obtain ⟨u, p, a, h1, h2, h3, h4, h5⟩ := solve_accepted E st jar name s h
  refine ⟨u, p, a, h1, h2, h3, ⟨⟨p, by rw [h5]; exact h2⟩,
    ⟨{ jar := jar, username := u, name := name, input := .solve a s }, ?_, rfl, rfl, rfl, rfl, rfl⟩⟩⟩
  rw [h4]
  exact nthOf_new jar _ rfl _

/-! ### (b) lost writes as a predicate on histories -/

/-- the event is a write that is DROPPED: the task is due (ended, unwritten) and no document carries its key -/
def lostWrite (st : State T H A R) : Event T → Bool
  | .write j n =>
    match nthOf j n st.db.tasks with
    | some t => t.blockingDone && !t.written && decide (docsAt st.db t.username t.name = 0)
    | none => false
  | _ => false

/-- no write of the history is dropped -/
def NoLostWrite (E : Env T H A R) : State T H A R → List (Event T) → Prop
  | _, [] => True
  | st, e :: es => lostWrite st e = false ∧ NoLostWrite E (stepEv E st e).1 es

def noLostWriteB (E : Env T H A R) : State T H A R → List (Event T) → Bool
  | _, [] => true
  | st, e :: es => !lostWrite st e && noLostWriteB E (stepEv E st e).1 es

theorem noLostWriteB_iff (E : Env T H A R) : ∀ (es : List (Event T)) (st : State T H A R),
    noLostWriteB E st es = true ↔ NoLostWrite E st es := by
  intro es
  induction es with
  | nil => intro st; simp [noLostWriteB, NoLostWrite]
  | cons e es ih => intro st; simp [noLostWriteB, NoLostWrite, ih]

/-- **a due write is visible under the task's key iff it is not lost**: after the write event of an ended,
unwritten task, a document under the task's key carries the task's outcome iff a document carried the key
at that moment (`lostWrite = false`); otherwise no document changes at all -/
theorem write_visible_iff_not_lost (E : Env T H A R) (st : State T H A R) (j n : Nat) (t : TaskRec T A)
    (ht : nthOf j n st.db.tasks = some t) (hlive : t.blockingDone = true ∧ t.written = false) :
    (lostWrite st (.write j n) = false →
      ∃ p, st.db.problems.find? (isProb t.username t.name) = some p ∧
        (stepEv E st (.write j n)).1.db.problems.find? (isProb t.username t.name) = some ((taskWrite E t.input).apply p)) ∧
    (lostWrite st (.write j n) = true → (stepEv E st (.write j n)).1.db.problems = st.db.problems) := by
  constructor
  · intro hl
    simp only [lostWrite, ht, hlive.1, hlive.2, Bool.not_false, Bool.true_and, decide_eq_false_iff_not] at hl
    cases hf : st.db.problems.find? (isProb t.username t.name) with
    | none =>
      exfalso; apply hl
      unfold docsAt
      rw [List.countP_eq_zero]
      intro x hx hq
      have := List.find?_eq_none.mp hf x hx
      exact this hq
    | some p => exact ⟨p, rfl, write_lands E st.db j n t ht hlive p hf⟩
  · intro hl
    simp only [lostWrite, ht, hlive.1, hlive.2, Bool.not_false, Bool.true_and, decide_eq_true_eq] at hl
    exact write_lost E st.db j n t ht hlive hl

end
end ServerM
