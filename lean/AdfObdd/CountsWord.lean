import AdfObdd.PathsDepth
import AdfObdd.OpsProofs
/-! # where the unbounded counting model coincides with 64-bit machine arithmetic (C13, D13)

`countF` (`CountsDef.lean`) models `modelcount_naive` of `obdd.rs` over unbounded naturals; the
code computes with `usize` (64 bit). This file states exactly where the two coincide:

* `counts_sum_fuel` — counter-models + models = `2^depth`, and both are positive at an inner node;
* `counts_fit_word_fuel` — so every final count of a diagram with at most 64 levels is `< 2^64`;
* `count_intermediates_fit_fuel` — and so is every intermediate value the code computes at a node;
* `countW` — the same recursion with every `+`, `*`, `2^·` and the `as u32` cast wrapped, and
  `countW_eq_countF`: on diagrams with at most 64 levels nothing wraps;
* `conj65_overflow` — on the conjunction of 65 variables the wrapped counter differs: 64 is sharp.

No Mathlib in the import closure. -/

/-! ## arithmetic -/

theorem pow_split (d D : Nat) (h : d ≤ D) : 2 ^ d * 2 ^ (D - d) = 2 ^ D := by
  rw [← Nat.pow_add]; congr 1; omega

/-- Mathlib-free version of `total_arith` -/
theorem total_arith' (cl ml ch mh dl dh D : Nat) (h1 : cl + ml = 2 ^ dl) (h2 : ch + mh = 2 ^ dh)
    (hl : dl ≤ D) (hh : dh ≤ D) :
    (cl * 2 ^ (D - dl) + ch * 2 ^ (D - dh)) + (ml * 2 ^ (D - dl) + mh * 2 ^ (D - dh)) = 2 ^ (D + 1) := by
  have e1 : cl * 2 ^ (D - dl) + ml * 2 ^ (D - dl) = 2 ^ D := by
    rw [← Nat.add_mul, h1, pow_split dl D hl]
  have e2 : ch * 2 ^ (D - dh) + mh * 2 ^ (D - dh) = 2 ^ D := by
    rw [← Nat.add_mul, h2, pow_split dh D hh]
  rw [Nat.pow_succ]; omega

theorem two_pow_lt_word {e : Nat} (h : e ≤ 63) : 2 ^ e < 2 ^ 64 :=
  Nat.pow_lt_pow_right (by decide) (by omega)

/-! ## totals and positivity -/

/-- counter-models and models of `modelcount_naive` add up to `2^depth` (Mathlib-free proof) -/
theorem counts_total_fuel' (s : Store) (h : TableWF s.nodes) : ∀ (fuel t : Nat), t < s.nodes.size → t < fuel →
    (countF s fuel t).1 + (countF s fuel t).2.1 = 2 ^ (countF s fuel t).2.2 := by
  intro fuel
  induction fuel with
  | zero => intro t _ h; omega
  | succ f ih =>
    intro t ht hf
    by_cases h1 : t = 1
    · subst h1; rw [countF_one]; rfl
    by_cases h0 : t = 0
    · subst h0; rw [countF_zero]; rfl
    obtain ⟨n, hn⟩ := get_of_lt ht
    have ⟨_, hlo, hhi, _, _, _⟩ := h.inner t n (by omega) hn
    rw [countF_node s f t n (by omega) hn]
    simp only
    exact total_arith' _ _ _ _ _ _ _ (ih n.lo (by omega) (by omega)) (ih n.hi (by omega) (by omega))
      (Nat.le_max_left _ _) (Nat.le_max_right _ _)

/-- every diagram except ⊤ has a counter-model, every diagram except ⊥ has a model (this is where
reducedness, `lo ≠ hi`, enters) -/
theorem counts_pos_fuel (s : Store) (h : TableWF s.nodes) : ∀ (fuel t : Nat), t < s.nodes.size → t < fuel →
    (t ≠ 1 → 1 ≤ (countF s fuel t).1) ∧ (t ≠ 0 → 1 ≤ (countF s fuel t).2.1) := by
  intro fuel
  induction fuel with
  | zero => intro t _ h; omega
  | succ f ih =>
    intro t ht hf
    by_cases h1 : t = 1
    · subst h1; rw [countF_one]; exact ⟨fun h => absurd rfl h, fun _ => Nat.le_refl _⟩
    by_cases h0 : t = 0
    · subst h0; rw [countF_zero]; exact ⟨fun _ => Nat.le_refl _, fun h => absurd rfl h⟩
    obtain ⟨n, hn⟩ := get_of_lt ht
    have ⟨_, hlo, hhi, hne, _, _⟩ := h.inner t n (by omega) hn
    rw [countF_node s f t n (by omega) hn]
    simp only
    have il := ih n.lo (by omega) (by omega)
    have ih' := ih n.hi (by omega) (by omega)
    have pl : 1 ≤ 2 ^ (max (countF s f n.lo).2.2 (countF s f n.hi).2.2 - (countF s f n.lo).2.2) := Nat.two_pow_pos _
    have ph : 1 ≤ 2 ^ (max (countF s f n.lo).2.2 (countF s f n.hi).2.2 - (countF s f n.hi).2.2) := Nat.two_pow_pos _
    constructor
    · intro _
      by_cases e : n.lo = 1
      · have := Nat.mul_le_mul (ih'.1 (by omega)) ph; omega
      · have := Nat.mul_le_mul (il.1 e) pl; omega
    · intro _
      by_cases e : n.lo = 0
      · have := Nat.mul_le_mul (ih'.2 (by omega)) ph; omega
      · have := Nat.mul_le_mul (il.2 e) pl; omega

/-- item 1 (fuel form) -/
theorem counts_sum_fuel (s : Store) (h : TableWF s.nodes) (fuel t : Nat) (ht : t < s.nodes.size) (hf : t < fuel) :
    (countF s fuel t).1 + (countF s fuel t).2.1 = 2 ^ (countF s fuel t).2.2 ∧
    (2 ≤ t → 1 ≤ (countF s fuel t).1 ∧ 1 ≤ (countF s fuel t).2.1) :=
  ⟨counts_total_fuel' s h fuel t ht hf, fun h2 =>
    ⟨(counts_pos_fuel s h fuel t ht hf).1 (by omega), (counts_pos_fuel s h fuel t ht hf).2 (by omega)⟩⟩

/-- item 2 (fuel form): the final counts of a diagram with at most 64 levels fit a 64-bit word -/
theorem counts_fit_word_fuel (s : Store) (h : TableWF s.nodes) (fuel t : Nat) (ht : t < s.nodes.size) (hf : t < fuel)
    (hd : (countF s fuel t).2.2 ≤ 64) :
    (countF s fuel t).1 < 2 ^ 64 ∧ (countF s fuel t).2.1 < 2 ^ 64 ∧ (countF s fuel t).2.2 < 2 ^ 64 := by
  have ⟨hsum, hpos⟩ := counts_sum_fuel s h fuel t ht hf
  have hp : 2 ^ (countF s fuel t).2.2 ≤ 2 ^ 64 := Nat.pow_le_pow_right (by decide) hd
  have h64 : (64 : Nat) < 2 ^ 64 := by decide
  refine ⟨?_, ?_, by omega⟩
  · by_cases h2 : 2 ≤ t
    · have := hpos h2; omega
    · have h01 : t = 0 ∨ t = 1 := by omega
      cases fuel with
      | zero => omega
      | succ f => rcases h01 with e | e <;> subst e <;> simp [countF]
  · by_cases h2 : 2 ≤ t
    · have := hpos h2; omega
    · have h01 : t = 0 ∨ t = 1 := by omega
      cases fuel with
      | zero => omega
      | succ f => rcases h01 with e | e <;> subst e <;> simp [countF]

/-! ## one step of the counter, as the code computes it

`modelcount_naive` computes at an inner node, from the children's results `(cl, ml, dl)` (lo) and
`(ch, mh, dh)` (hi):
```
if lodepth > hidepth { hi_exp = (lodepth - hidepth) as u32 } else { lo_exp = (hidepth - lodepth) as u32 }
( lo.cmodels * 2usize.pow(lo_exp) + hi.cmodels * 2usize.pow(hi_exp),
  lo.models  * 2usize.pow(lo_exp) + hi.models  * 2usize.pow(hi_exp),  max(lodepth, hidepth) + 1 )
``` -/

/-- `lo_exp` of the code -/
def loExp (dl dh : Nat) : Nat := if dl > dh then 0 else dh - dl
/-- `hi_exp` of the code -/
def hiExp (dl dh : Nat) : Nat := if dl > dh then dl - dh else 0

/-- the code's exponents are the ones of the model: `depth - 1 - depth(child)` -/
theorem loExp_eq (dl dh : Nat) : loExp dl dh = max dl dh - dl := by
  unfold loExp; split <;> omega
theorem hiExp_eq (dl dh : Nat) : hiExp dl dh = max dl dh - dh := by
  unfold hiExp; split <;> omega

/-- every value computed in one step — the two exponents (before and after the cast to `u32`),
the two powers, the four products, the two sums and the new depth — fits a 64-bit word -/
structure StepFits (cl ml dl ch mh dh : Nat) : Prop where
  loExp_le : loExp dl dh ≤ 63
  hiExp_le : hiExp dl dh ≤ 63
  powLo : 2 ^ loExp dl dh < 2 ^ 64
  powHi : 2 ^ hiExp dl dh < 2 ^ 64
  prodCL : cl * 2 ^ loExp dl dh < 2 ^ 64
  prodCH : ch * 2 ^ hiExp dl dh < 2 ^ 64
  prodML : ml * 2 ^ loExp dl dh < 2 ^ 64
  prodMH : mh * 2 ^ hiExp dl dh < 2 ^ 64
  sumC : cl * 2 ^ loExp dl dh + ch * 2 ^ hiExp dl dh < 2 ^ 64
  sumM : ml * 2 ^ loExp dl dh + mh * 2 ^ hiExp dl dh < 2 ^ 64
  depth : max dl dh + 1 < 2 ^ 64

theorem step_fits (cl ml dl ch mh dh : Nat) (h1 : cl + ml = 2 ^ dl) (h2 : ch + mh = 2 ^ dh)
    (hD : max dl dh + 1 ≤ 64)
    (hc : 1 ≤ cl * 2 ^ (max dl dh - dl) + ch * 2 ^ (max dl dh - dh))
    (hm : 1 ≤ ml * 2 ^ (max dl dh - dl) + mh * 2 ^ (max dl dh - dh)) :
    StepFits cl ml dl ch mh dh := by
  have tot := total_arith' cl ml ch mh dl dh (max dl dh) h1 h2 (Nat.le_max_left _ _) (Nat.le_max_right _ _)
  have hp : 2 ^ (max dl dh + 1) ≤ 2 ^ 64 := Nat.pow_le_pow_right (by decide) hD
  have h64 : (64 : Nat) < 2 ^ 64 := by decide
  have el : max dl dh - dl ≤ 63 := by omega
  have eh : max dl dh - dh ≤ 63 := by omega
  have pl := two_pow_lt_word el
  have ph := two_pow_lt_word eh
  rw [← loExp_eq] at tot hc hm el pl
  rw [← hiExp_eq] at tot hc hm eh ph
  exact ⟨el, eh, pl, ph, by omega, by omega, by omega, by omega, by omega, by omega, by omega⟩

/-- item 3a (fuel form): at an inner node of a diagram with at most 64 levels, every
intermediate value of the code's computation fits a 64-bit word -/
theorem count_intermediates_fit_fuel (s : Store) (h : TableWF s.nodes) (f t : Nat) (n : Node)
    (ht2 : 2 ≤ t) (hn : s.nodes[t]? = some n) (hf : t < f + 1) (hd : (countF s (f+1) t).2.2 ≤ 64) :
    StepFits (countF s f n.lo).1 (countF s f n.lo).2.1 (countF s f n.lo).2.2
             (countF s f n.hi).1 (countF s f n.hi).2.1 (countF s f n.hi).2.2 := by
  have ht := lt_of_get hn
  have ⟨_, hlo, hhi, _, _, _⟩ := h.inner t n ht2 hn
  have hpos := (counts_sum_fuel s h (f+1) t ht hf).2 ht2
  rw [countF_node s f t n ht2 hn] at hd hpos
  exact step_fits _ _ _ _ _ _ (counts_total_fuel' s h f n.lo (by omega) (by omega))
    (counts_total_fuel' s h f n.hi (by omega) (by omega)) hd hpos.1 hpos.2

/-! ## the counter over 64-bit words -/

/-- wrapping `usize` addition -/
def wadd (a b : Nat) : Nat := (a + b) % 2 ^ 64
/-- wrapping `usize` multiplication -/
def wmul (a b : Nat) : Nat := (a * b) % 2 ^ 64
/-- `2usize.pow(e)`, wrapping (`2^e` is `0` modulo `2^64` from `e = 64` on) -/
def wpow2 (e : Nat) : Nat := if e < 64 then 2 ^ e else 0
/-- `x as u32` -/
def asU32 (a : Nat) : Nat := a % 2 ^ 32

theorem wpow2_eq_mod (e : Nat) : wpow2 e = 2 ^ e % 2 ^ 64 := by
  unfold wpow2
  split
  · rename_i h; exact (Nat.mod_eq_of_lt (Nat.pow_lt_pow_right (by decide) h)).symm
  · rename_i h
    have : 2 ^ e = 2 ^ 64 * 2 ^ (e - 64) := by rw [← Nat.pow_add]; congr 1; omega
    rw [this, Nat.mul_mod_right]

/-- `modelcount_naive` as a release build computes it: the recursion of `countF`, every `+`, `*`,
`2^·` wrapped to 64 bits, the exponents cast to `u32` as in the code -/
def countW (s : Store) : Nat → Nat → Nat × Nat × Nat
  | 0, _ => (0, 0, 0)
  | fuel+1, t =>
    if t = 1 then (0, 1, 0) else if t = 0 then (1, 0, 0) else
    match s.nodes[t]? with
    | none => (0, 0, 0)
    | some n =>
      let l := countW s fuel n.lo
      let h := countW s fuel n.hi
      let lo_exp := if l.2.2 > h.2.2 then 0 else asU32 (h.2.2 - l.2.2)
      let hi_exp := if l.2.2 > h.2.2 then asU32 (l.2.2 - h.2.2) else 0
      (wadd (wmul l.1 (wpow2 lo_exp)) (wmul h.1 (wpow2 hi_exp)),
       wadd (wmul l.2.1 (wpow2 lo_exp)) (wmul h.2.1 (wpow2 hi_exp)),
       wadd (max l.2.2 h.2.2) 1)

theorem countW_one (s : Store) (f : Nat) : countW s (f+1) 1 = (0, 1, 0) := by simp [countW]
theorem countW_zero (s : Store) (f : Nat) : countW s (f+1) 0 = (1, 0, 0) := by simp [countW]
theorem countW_node (s : Store) (f t : Nat) (n : Node) (ht : 2 ≤ t) (hn : s.nodes[t]? = some n) :
    countW s (f+1) t =
      (wadd (wmul (countW s f n.lo).1 (wpow2 (if (countW s f n.lo).2.2 > (countW s f n.hi).2.2 then 0
                else asU32 ((countW s f n.hi).2.2 - (countW s f n.lo).2.2))))
            (wmul (countW s f n.hi).1 (wpow2 (if (countW s f n.lo).2.2 > (countW s f n.hi).2.2
                then asU32 ((countW s f n.lo).2.2 - (countW s f n.hi).2.2) else 0))),
       wadd (wmul (countW s f n.lo).2.1 (wpow2 (if (countW s f n.lo).2.2 > (countW s f n.hi).2.2 then 0
                else asU32 ((countW s f n.hi).2.2 - (countW s f n.lo).2.2))))
            (wmul (countW s f n.hi).2.1 (wpow2 (if (countW s f n.lo).2.2 > (countW s f n.hi).2.2
                then asU32 ((countW s f n.lo).2.2 - (countW s f n.hi).2.2) else 0))),
       wadd (max (countW s f n.lo).2.2 (countW s f n.hi).2.2) 1) := by
  conv => lhs; unfold countW
  have h1 : t ≠ 1 := by omega
  have h0 : t ≠ 0 := by omega
  simp only [h1, h0, if_false, hn]

/-- one wrapped step returns the unbounded numbers when everything fits -/
theorem wstep_eq (cl ml dl ch mh dh : Nat) (F : StepFits cl ml dl ch mh dh) :
    wadd (wmul cl (wpow2 (if dl > dh then 0 else asU32 (dh - dl))))
         (wmul ch (wpow2 (if dl > dh then asU32 (dl - dh) else 0)))
      = cl * 2 ^ (max dl dh - dl) + ch * 2 ^ (max dl dh - dh) ∧
    wadd (wmul ml (wpow2 (if dl > dh then 0 else asU32 (dh - dl))))
         (wmul mh (wpow2 (if dl > dh then asU32 (dl - dh) else 0)))
      = ml * 2 ^ (max dl dh - dl) + mh * 2 ^ (max dl dh - dh) ∧
    wadd (max dl dh) 1 = max dl dh + 1 := by
  have hl : (if dl > dh then 0 else asU32 (dh - dl)) = loExp dl dh := by
    have := F.loExp_le
    unfold loExp at this ⊢
    split
    · rfl
    · rename_i hgt; rw [if_neg hgt] at this
      exact Nat.mod_eq_of_lt (Nat.lt_of_le_of_lt this (by decide))
  have hh : (if dl > dh then asU32 (dl - dh) else 0) = hiExp dl dh := by
    have := F.hiExp_le
    unfold hiExp at this ⊢
    split
    · rename_i hgt; rw [if_pos hgt] at this
      exact Nat.mod_eq_of_lt (Nat.lt_of_le_of_lt this (by decide))
    · rfl
  have pl : wpow2 (loExp dl dh) = 2 ^ loExp dl dh := by
    unfold wpow2; rw [if_pos (Nat.lt_succ_of_le F.loExp_le)]
  have ph : wpow2 (hiExp dl dh) = 2 ^ hiExp dl dh := by
    unfold wpow2; rw [if_pos (Nat.lt_succ_of_le F.hiExp_le)]
  rw [hl, hh, pl, ph]
  unfold wadd wmul
  rw [Nat.mod_eq_of_lt F.prodCL, Nat.mod_eq_of_lt F.prodCH, Nat.mod_eq_of_lt F.prodML,
      Nat.mod_eq_of_lt F.prodMH, Nat.mod_eq_of_lt F.sumC, Nat.mod_eq_of_lt F.sumM,
      Nat.mod_eq_of_lt F.depth, loExp_eq, hiExp_eq]
  exact ⟨rfl, rfl, rfl⟩

/-- item 3b: on a diagram with at most 64 levels the 64-bit evaluation of the naive counter never
wraps: it returns the numbers of the unbounded model -/
theorem countW_eq_countF (s : Store) (h : TableWF s.nodes) : ∀ (fuel t : Nat), t < s.nodes.size → t < fuel →
    (countF s fuel t).2.2 ≤ 64 → countW s fuel t = countF s fuel t := by
  intro fuel
  induction fuel with
  | zero => intro t _ h; omega
  | succ f ih =>
    intro t ht hf hd
    by_cases h1 : t = 1
    · subst h1; rw [countF_one, countW_one]
    by_cases h0 : t = 0
    · subst h0; rw [countF_zero, countW_zero]
    obtain ⟨n, hn⟩ := get_of_lt ht
    have ⟨_, hlo, hhi, _, _, _⟩ := h.inner t n (by omega) hn
    have F := count_intermediates_fit_fuel s h f t n (by omega) hn hf hd
    rw [countF_node s f t n (by omega) hn] at hd
    simp only at hd
    have dl : (countF s f n.lo).2.2 ≤ 64 := by have := Nat.le_max_left (countF s f n.lo).2.2 (countF s f n.hi).2.2; omega
    have dh : (countF s f n.hi).2.2 ≤ 64 := by have := Nat.le_max_right (countF s f n.lo).2.2 (countF s f n.hi).2.2; omega
    rw [countW_node s f t n (by omega) hn, countF_node s f t n (by omega) hn,
        ih n.lo (by omega) (by omega) dl, ih n.hi (by omega) (by omega) dh]
    have ⟨e1, e2, e3⟩ := wstep_eq _ _ _ _ _ _ F
    rw [e1, e2, e3]

/-! ## the bound 64 is sharp: the conjunction of 65 variables -/

/-- the conjunction of the variables `n-k, …, n-1`, built bottom-up with the store's own `mkNode`
(store, handle) -/
def conjChain (n : Nat) : Nat → Store × Nat
  | 0 => (Store.init, 1)
  | k+1 => mkNode (conjChain n k).1 (n - (k+1)) 0 (conjChain n k).2

/-- its node table, given explicitly: ⊥, ⊤, then node `j+2` tests variable `n-(j+1)`, goes to ⊥
on false and to node `j+1` on true -/
def conjNodes (n : Nat) : Nat → Array Node
  | 0 => #[⟨VBOT, 0, 0⟩, ⟨VTOP, 1, 1⟩]
  | k+1 => (conjNodes n k).push ⟨n - (k+1), 0, k+1⟩

theorem conjNodes_size (n : Nat) : ∀ k, (conjNodes n k).size = k + 2 := by
  intro k
  induction k with
  | zero => rfl
  | succ k ih => simp [conjNodes, ih]

theorem conjNodes_get (n : Nat) : ∀ K j, j < K → (conjNodes n K)[j+2]? = some ⟨n - (j+1), 0, j+1⟩ := by
  intro K
  induction K with
  | zero => intro j h; omega
  | succ K ih =>
    intro j hj
    simp only [conjNodes]
    rw [Array.getElem?_push, conjNodes_size]
    by_cases e : j = K
    · subst e; simp
    · rw [if_neg (by omega)]; exact ih j (by omega)

theorem conjNodes_get01 (n : Nat) : ∀ K, (conjNodes n K)[0]? = some ⟨VBOT, 0, 0⟩ ∧ (conjNodes n K)[1]? = some ⟨VTOP, 1, 1⟩ := by
  intro K
  induction K with
  | zero => exact ⟨rfl, rfl⟩
  | succ K ih =>
    simp only [conjNodes]
    rw [Array.getElem?_push, Array.getElem?_push, conjNodes_size, if_neg (by omega), if_neg (by omega)]
    exact ih

/-- the chain is well formed, its handle is `k+1`, its table is `conjNodes n k`, and it denotes
the conjunction of the variables `n-k, …, n-1` -/
theorem conjChain_spec (n : Nat) (hn : n < VBOT) : ∀ k, k ≤ n →
    WF (conjChain n k).1 ∧ (conjChain n k).2 = k + 1 ∧ (conjChain n k).1.nodes = conjNodes n k ∧
    (∀ σ, eval (conjChain n k).1 (k+1) σ = true ↔ ∀ i, n - k ≤ i → i < n → σ i = true) := by
  intro k
  induction k with
  | zero =>
    intro _
    refine ⟨WF_init, rfl, rfl, ?_⟩
    intro σ
    show eval Store.init 1 σ = true ↔ _
    rw [eval_one]
    exact ⟨fun _ i h1 h2 => by omega, fun _ => rfl⟩
  | succ k ih =>
    intro hk
    have ⟨w, hh, hnodes, hev⟩ := ih (by omega)
    have hsize : (conjChain n k).1.nodes.size = k + 2 := by rw [hnodes, conjNodes_size]
    have hnone : (conjChain n k).1.uniq[(⟨n - (k+1), 0, k+1⟩ : Node)]? = none := by
      cases hl : (conjChain n k).1.uniq[(⟨n - (k+1), 0, k+1⟩ : Node)]? with
      | none => rfl
      | some t =>
        exfalso
        have ⟨ht2, hget⟩ := (w.uniqOK _ t).mp hl
        have := lt_of_get hget
        have ⟨_, _, hhi, _⟩ := w.inner t _ ht2 hget
        simp only at hhi
        omega
    have htop : n - (k+1) < topVar (conjChain n k).1 (k+1) := by
      unfold topVar
      rw [hnodes]
      cases k with
      | zero => rw [(conjNodes_get01 n 0).2]; simp only; unfold VBOT VTOP at *; omega
      | succ j => rw [conjNodes_get n (j+1) j (by omega)]; simp only; omega
    have htop0 : n - (k+1) < topVar (conjChain n k).1 0 := by
      unfold topVar
      rw [hnodes, (conjNodes_get01 n k).1]; simp only; omega
    have spec := mkNode_spec (conjChain n k).1 w (n - (k+1)) 0 (k+1) (by omega) (by omega) (by omega) htop0 htop
    have hm : conjChain n (k+1) =
        ({ (conjChain n k).1 with nodes := (conjChain n k).1.nodes.push ⟨n - (k+1), 0, k+1⟩,
                                  uniq := (conjChain n k).1.uniq.insert ⟨n - (k+1), 0, k+1⟩ (conjChain n k).1.nodes.size },
         (conjChain n k).1.nodes.size) := by
      show mkNode (conjChain n k).1 (n - (k+1)) 0 (conjChain n k).2 = _
      rw [hh]
      unfold mkNode
      rw [if_neg (by omega), hnone]
    have hm' : mkNode (conjChain n k).1 (n - (k+1)) 0 (k+1) = conjChain n (k+1) := by
      show _ = mkNode (conjChain n k).1 (n - (k+1)) 0 (conjChain n k).2
      rw [hh]
    rw [hm'] at spec
    have ⟨w', _, _, _, hev'⟩ := spec
    have h2 : (conjChain n (k+1)).2 = k + 1 + 1 := by rw [hm]; exact hsize
    refine ⟨w', h2, ?_, ?_⟩
    · rw [hm]; simp only [conjNodes, hnodes]
    · intro σ
      have := hev' σ
      rw [h2] at this
      rw [this, eval_zero]
      by_cases hσ : σ (n - (k+1)) = true
      · rw [if_pos hσ, hev σ]
        constructor
        · intro hall i h1 h2
          by_cases e : i = n - (k+1)
          · rw [e]; exact hσ
          · exact hall i (by omega) h2
        · intro hall i h1 h2; exact hall i (by omega) h2
      · rw [if_neg hσ]
        constructor
        · intro hf; cases hf
        · intro hall; exact absurd (hall (n - (k+1)) (by omega) (by omega)) hσ

/-- the unbounded counts of the chain: `2^k - 1` counter-models, one model, depth `k` -/
theorem countF_conj (s : Store) (n K : Nat) (hs : s.nodes = conjNodes n K) :
    ∀ j, j ≤ K → countF s (j+2) (j+1) = (2 ^ j - 1, 1, j) := by
  intro j
  induction j with
  | zero => intro _; rw [countF_one]
  | succ j ih =>
    intro hj
    have hn : s.nodes[j+2]? = some ⟨n - (j+1), 0, j+1⟩ := by rw [hs]; exact conjNodes_get n K j (by omega)
    rw [countF_node s (j+2) (j+1+1) _ (by omega) hn]
    simp only
    rw [countF_zero, ih (by omega)]
    simp only [Nat.zero_le, Nat.max_eq_right, Nat.sub_zero, Nat.sub_self, Nat.pow_zero, Nat.mul_one,
      Nat.one_mul, Nat.zero_mul, Nat.zero_add]
    have : 1 ≤ 2 ^ j := Nat.two_pow_pos j
    rw [Nat.pow_succ]
    congr 1
    omega

/-- up to 64 variables the 64-bit counter returns the exact numbers of the conjunction — for 64
variables `(2^64 - 1, 1)`, as measured on the code -/
theorem countW_conj_le64 (n : Nat) (hn : n ≤ 64) :
    countW (conjChain n n).1 (n+2) (n+1) = (2 ^ n - 1, 1, n) ∧
    countF (conjChain n n).1 (n+2) (n+1) = (2 ^ n - 1, 1, n) := by
  have ⟨w, _, hnodes, _⟩ := conjChain_spec n (by unfold VBOT; omega) n (Nat.le_refl _)
  have hF := countF_conj (conjChain n n).1 n n hnodes n (Nat.le_refl _)
  refine ⟨?_, hF⟩
  rw [countW_eq_countF _ w.table (n+2) (n+1) (by rw [hnodes, conjNodes_size]; omega) (by omega)
    (by rw [hF]; exact hn), hF]

/-- on every store whose table is the chain of 65 nodes, the unbounded model counts `2^65 - 1`
counter-models and one model at depth 65, while the 64-bit evaluation returns `2^64 - 1`
counter-models: the factor `2usize.pow(64)` of the lo child wraps to 0 -/
theorem conj65_table_overflow (s : Store) (w : TableWF s.nodes) (hnodes : s.nodes = conjNodes 65 65) :
    countF s 67 66 = (2 ^ 65 - 1, 1, 65) ∧ countW s 67 66 = (2 ^ 64 - 1, 1, 65) := by
  have hF : countF s 67 66 = (2 ^ 65 - 1, 1, 65) := countF_conj s 65 65 hnodes 65 (Nat.le_refl _)
  have hF64 : countF s 66 65 = (2 ^ 64 - 1, 1, 64) := countF_conj s 65 65 hnodes 64 (by decide)
  have hsize : s.nodes.size = 67 := by rw [hnodes, conjNodes_size]
  have hd : (countF s 66 65).2.2 ≤ 64 := by rw [hF64]; exact Nat.le_refl 64
  have hW64 : countW s 66 65 = (2 ^ 64 - 1, 1, 64) := by
    rw [countW_eq_countF s w 66 65 (by omega) (by omega) hd, hF64]
  have hget : s.nodes[66]? = some ⟨0, 0, 65⟩ := by
    rw [hnodes]; exact conjNodes_get 65 65 64 (by decide)
  refine ⟨hF, ?_⟩
  rw [countW_node s 66 66 _ (by decide) hget]
  simp only
  rw [countW_zero, hW64]
  decide

/-- the store holding the conjunction of the 65 variables 0, …, 64 (handle 66), built with `mkNode` -/
def conj65 : Store := (conjChain 65 65).1

/-- item 4: the bound 64 is sharp. `conj65` is a well-formed store whose table is given
explicitly; its handle 66 denotes the conjunction of the variables 0, …, 64; the unbounded model
counts `2^65 - 1` counter-models, the 64-bit evaluation `2^64 - 1` -/
theorem conj65_overflow :
    WF conj65 ∧ conj65.nodes = conjNodes 65 65 ∧ conj65.nodes.size = 67 ∧
    (∀ j, j < 65 → conj65.nodes[j+2]? = some ⟨64 - j, 0, j+1⟩) ∧
    (∀ σ, eval conj65 66 σ = true ↔ ∀ i, i < 65 → σ i = true) ∧
    countF conj65 67 66 = (2 ^ 65 - 1, 1, 65) ∧
    countW conj65 67 66 = (2 ^ 64 - 1, 1, 65) ∧
    countW conj65 67 66 ≠ countF conj65 67 66 := by
  unfold conj65
  have ⟨w, _, hnodes, hev⟩ := conjChain_spec 65 (by decide) 65 (Nat.le_refl _)
  have ⟨hF, hW⟩ := conj65_table_overflow _ w.table hnodes
  refine ⟨w, hnodes, by rw [hnodes, conjNodes_size], ?_, ?_, hF, hW, ?_⟩
  · intro j hj
    have e : 65 - (j+1) = 64 - j := by omega
    rw [hnodes, conjNodes_get 65 65 j hj, e]
  · intro σ
    rw [hev σ]
    exact ⟨fun h i hi => h i (by omega) hi, fun h i _ hi => h i hi⟩
  · rw [hF, hW]; decide

/-! evaluation, in addition to the theorems: the compiled definitions give the same numbers; the
wrapped value for 65 variables is the one measured on the release build (finding D13) -/
#guard countW (conjChain 64 64).1 66 65 == (18446744073709551615, 1, 64)
#guard countW conj65 67 66 == (18446744073709551615, 1, 65)
#guard countF conj65 67 66 == (36893488147419103231, 1, 65)

#print axioms counts_sum_fuel
#print axioms counts_fit_word_fuel
#print axioms count_intermediates_fit_fuel
#print axioms countW_eq_countF
#print axioms countW_conj_le64
#print axioms conj65_overflow
