import AdfObdd.CountExact
import AdfObdd.AdfPipeline
/-! semantic facts about the three-statement framework of the pre-study
`s(a).s(b).s(c).ac(a,c).ac(b,and(b,a)).ac(c,c).` (a = 0, b = 1, c = 2), computed at the level of
Boolean functions (stores with hash tables do not kernel-reduce), and a small store with a
non-empty cube list — non-vacuity material for C04 -/
namespace CW

/-- the acceptance conditions of the framework, in the order a, b, c -/
def fms : List Fm := [.atom 2, .and (.atom 1) (.atom 0), .atom 2]

def D : List BoolFn := fms.map Fm.sem

def fff : I3 := [some false, some false, some false]
def ttt : I3 := [some true, some true, some true]
def uuu : I3 := [none, none, none]

theorem D_eq : D = [fun σ => σ 2, fun σ => σ 1 && σ 0, fun σ => σ 2] := rfl

theorem constOf_none_of {f : BoolFn} (σ1 σ2 : Asg) (h1 : f σ1 = true) (h2 : f σ2 = false) :
    constOf f = none := by
  cases h : constOf f with
  | none => rfl
  | some b =>
    have := constOf_some.mp h
    rw [this σ1] at h1; rw [this σ2] at h2; rw [h1] at h2; cases h2

theorem get_fff_ne_true (i : Nat) : fff[i]? ≠ some (some true) := by
  match i with
  | 0 => simp [fff]
  | 1 => simp [fff]
  | 2 => simp [fff]
  | (k+3) => simp [fff]

/-- everything false is a two-valued model … -/
theorem Gam_fff : Gam D fff = fff := by
  simp only [Gam, D_eq, fff, List.map_cons, List.map_nil]
  have a : constOf (fun σ => over σ 0 [some false, some false, some false] 2) = some false :=
    constOf_some.mpr (fun σ => by simp [over, upd])
  have b : constOf (fun σ => over σ 0 [some false, some false, some false] 1 &&
      over σ 0 [some false, some false, some false] 0) = some false :=
    constOf_some.mpr (fun σ => by simp [over, upd])
  rw [a, b]

/-- … and a stable model (no statement is true, so nothing needs support) -/
theorem fff_stable : CI.IsStable 3 D fff := by
  refine ⟨rfl, ?_, Gam_fff, ?_⟩
  · intro i hi
    have : i = 0 ∨ i = 1 ∨ i = 2 := by simp [fff] at hi; omega
    rcases this with h | h | h <;> subst h <;> exact ⟨false, rfl⟩
  · intro w _ i hi
    exact absurd hi (get_fff_ne_true i)

/-- nothing is decided by the grounded interpretation: the all-undecided vector is a fixpoint of the
characteristic operator, hence its least one — the search starts with three undecided statements and
has to branch -/
theorem Gam_uuu : Gam D uuu = uuu := by
  simp only [Gam, D_eq, uuu, List.map_cons, List.map_nil, over]
  have a : constOf (fun σ : Asg => σ 2) = none :=
    constOf_none_of (fun _ => true) (fun _ => false) rfl rfl
  have b : constOf (fun σ : Asg => σ 1 && σ 0) = none :=
    constOf_none_of (fun _ => true) (fun _ => false) rfl rfl
  rw [a, b]

theorem Le3_uuu (w : I3) : Le3 uuu w := by
  intro i b h
  match i with
  | 0 => simp [uuu] at h
  | 1 => simp [uuu] at h
  | 2 => simp [uuu] at h
  | (k+3) => simp [uuu] at h

theorem grounded_uuu : IsLfp D uuu := ⟨Gam_uuu, fun w _ => Le3_uuu w⟩

/-- everything true is a two-valued model as well … -/
theorem Gam_ttt : Gam D ttt = ttt := by
  simp only [Gam, D_eq, ttt, List.map_cons, List.map_nil]
  have a : constOf (fun σ => over σ 0 [some true, some true, some true] 2) = some true :=
    constOf_some.mpr (fun σ => by simp [over, upd])
  have b : constOf (fun σ => over σ 0 [some true, some true, some true] 1 &&
      over σ 0 [some true, some true, some true] 0) = some true :=
    constOf_some.mpr (fun σ => by simp [over, upd])
  rw [a, b]

/-- … but not a stable one: its reduct is the framework itself, whose least fixpoint decides nothing -/
theorem ttt_not_stable : ¬ CI.IsStable 3 D ttt := by
  intro ⟨_, _, _, h⟩
  have hr : redu D ttt = D := by
    simp only [redu, D_eq, ttt, falsePart, List.map_cons, List.map_nil]
    simp [over]
  have := h uuu (hr ▸ grounded_uuu) 0 rfl
  simp [uuu] at this

theorem fms_ok : fms.length ≤ VBOT ∧ ∀ f ∈ fms, f.atomsOK := by
  refine ⟨by simp [fms, VBOT], ?_⟩
  intro f hf
  simp only [fms, List.mem_cons, List.mem_nil_iff, or_false] at hf
  rcases hf with h | h | h <;> subst h <;> simp [Fm.atomsOK, VBOT]

/-! ### a store with a non-empty cube list: x0 ∧ x1 -/

def andStore : Store := (mkNode (mkNode Store.init 1 0 1).1 0 0 2).1

theorem andStore_nodes : andStore.nodes = #[⟨VBOT, 0, 0⟩, ⟨VTOP, 1, 1⟩, ⟨1, 0, 1⟩, ⟨0, 0, 2⟩] := by
  simp [andStore, mkNode, Store.init]

theorem andStore_WF : WF andStore := by
  have h1 := mkNode_spec Store.init WF_init' 1 0 1 (by simp [Store.init]) (by simp [Store.init])
    (by simp [VBOT]) (by simp [topVar, Store.init, VBOT]) (by simp [topVar, Store.init, VTOP])
  have hn : (mkNode Store.init 1 0 1).1.nodes = #[⟨VBOT, 0, 0⟩, ⟨VTOP, 1, 1⟩, ⟨1, 0, 1⟩] := by
    simp [mkNode, Store.init]
  exact (mkNode_spec _ h1.1 0 0 2 (by simp [hn]) (by simp [hn])
    (by simp [VBOT]) (by simp [topVar, hn, VBOT]) (by simp [topVar, hn])).1

end CW
