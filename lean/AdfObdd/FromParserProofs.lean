import AdfObdd.FromParser
import AdfObdd.Parser7
import AdfObdd.Stable
import AdfObdd.CompleteExact
import AdfObdd.StableExact
/-! `Adf::from_parser` for ANY order of the facts: where it panics, what every position of `ac`
    denotes (last condition wins, no condition = ⊥), independence of the fact order, and the
    semantics end to end from the text. -/
namespace FromParser
open ParserM

/-! ### the placement loop on a store -/

/-- the loop at the level of formulas -/
def placeFm (D : List Fm) : List (Nat × Fm) → List Fm
  | [] => D
  | pf :: r => placeFm (D.set pf.1 pf.2) r

/-- the last entry written at a position -/
def lastAt {α : Type} : List (Nat × α) → Nat → Option α
  | [], _ => none
  | (q, f) :: r, p => match lastAt r p with
    | some g => some g
    | none => if q = p then some f else none

theorem placeFm_length : ∀ (items : List (Nat × Fm)) (D : List Fm), (placeFm D items).length = D.length := by
  intro items
  induction items with
  | nil => intro D; rfl
  | cons pf r ih => intro D; simp [placeFm, ih]

theorem placeFm_get : ∀ (items : List (Nat × Fm)) (D : List Fm) (p : Nat) (d : Fm), D[p]? = some d →
    (placeFm D items)[p]? = some ((lastAt items p).getD d) := by
  intro items
  induction items with
  | nil => intro D p d h; simpa [placeFm, lastAt] using h
  | cons pf r ih =>
    intro D p d h
    obtain ⟨q, f⟩ := pf
    have hp : p < D.length := (List.getElem?_eq_some_iff.mp h).1
    simp only [placeFm, lastAt]
    by_cases e : q = p
    · subst e
      rw [ih (D.set q f) q f (List.getElem?_set_self hp)]
      cases lastAt r q <;> simp
    · rw [ih (D.set q f) p d (by rw [List.getElem?_set_ne e]; exact h)]
      cases lastAt r p <;> simp [e]

/-- the loop on the store: well-formedness kept, store only extended, all handles valid, and the
vector of denoted functions is the formula-level loop -/
theorem placeCompile_spec : ∀ (items : List (Nat × Fm)) (s : Store) (acc : List Nat) (D : List Fm),
    WF s → (∀ t ∈ acc, t < s.nodes.size) → acc.map (eval s) = D.map Fm.sem →
    (∀ pf ∈ items, pf.2.atomsOK) →
    WF (placeCompile s acc items).1 ∧ Ext s (placeCompile s acc items).1 ∧
    (placeCompile s acc items).2.length = acc.length ∧
    (∀ t ∈ (placeCompile s acc items).2, t < (placeCompile s acc items).1.nodes.size) ∧
    (placeCompile s acc items).2.map (eval (placeCompile s acc items).1) = (placeFm D items).map Fm.sem := by
  intro items
  induction items with
  | nil => intro s acc D w hv hD _; exact ⟨w, Ext.refl _, rfl, hv, hD⟩
  | cons pf r ih =>
    intro s acc D w hv hD hok
    have g := compile_correct pf.2 s w (hok pf (by simp))
    have hv' : ∀ t ∈ acc.set pf.1 (compile s pf.2).2, t < (compile s pf.2).1.nodes.size := by
      intro t ht
      rcases List.mem_or_eq_of_mem_set ht with h | h
      · exact Nat.lt_of_lt_of_le (hv t h) g.ext.1
      · rw [h]; exact g.lt
    have hD' : (acc.set pf.1 (compile s pf.2).2).map (eval (compile s pf.2).1) = (D.set pf.1 pf.2).map Fm.sem := by
      rw [List.map_set, List.map_set, ← hD]
      congr 1
      · apply List.map_congr_left
        intro t ht
        funext σ
        exact eval_ext w g.ext t σ (hv t ht)
      · funext σ; exact g.ev σ
    have ⟨a, b, c, d, e⟩ := ih (compile s pf.2).1 (acc.set pf.1 (compile s pf.2).2) (D.set pf.1 pf.2) g.wf hv' hD'
      (fun x hx => hok x (by simp [hx]))
    exact ⟨a, g.ext.trans b, by rw [List.length_set] at c; exact c, d, e⟩

/-- a position no condition is written at keeps its initial handle -/
theorem placeCompile_untouched : ∀ (items : List (Nat × Fm)) (s : Store) (acc : List Nat) (p : Nat),
    (∀ pf ∈ items, pf.1 ≠ p) → (placeCompile s acc items).2[p]? = acc[p]? := by
  intro items
  induction items with
  | nil => intro s acc p _; rfl
  | cons pf r ih =>
    intro s acc p h
    simp only [placeCompile]
    rw [ih _ _ p (fun x hx => h x (by simp [hx])), List.getElem?_set_ne (h pf (by simp))]

/-! ### `mapM` on `Option` -/

def omap {α β : Type} (f : α → Option β) : List α → Option (List β)
  | [] => some []
  | a :: l => match f a, omap f l with
    | some b, some bs => some (b :: bs)
    | _, _ => none

theorem mapM_eq_omap {α β : Type} (f : α → Option β) (l : List α) : l.mapM f = omap f l := by
  induction l with
  | nil => simp [omap]
  | cons a l ih =>
    rw [List.mapM_cons, ih]
    simp only [omap]
    cases f a <;> cases omap f l <;> rfl

theorem omap_isSome {α β : Type} (f : α → Option β) (l : List α) :
    (omap f l).isSome = true ↔ ∀ a ∈ l, (f a).isSome = true := by
  induction l with
  | nil => simp [omap]
  | cons a l ih =>
    simp only [omap, List.mem_cons, forall_eq_or_imp, ← ih]
    cases f a <;> cases omap f l <;> simp

theorem omap_cons_some {α β : Type} {f : α → Option β} {a : α} {l : List α} {bs : List β}
    (h : omap f (a :: l) = some bs) : ∃ b bs', f a = some b ∧ omap f l = some bs' ∧ bs = b :: bs' := by
  simp only [omap] at h
  cases hb : f a with
  | none => rw [hb] at h; simp at h
  | some b =>
    cases hl : omap f l with
    | none => rw [hb, hl] at h; simp at h
    | some bs' =>
      rw [hb, hl] at h
      exact ⟨b, bs', rfl, rfl, (Option.some.inj h).symm⟩

theorem omap_length {α β : Type} (f : α → Option β) : ∀ (l : List α) (bs : List β),
    omap f l = some bs → bs.length = l.length := by
  intro l
  induction l with
  | nil => intro bs h; simp [omap] at h; subst h; rfl
  | cons a l ih =>
    intro bs h
    obtain ⟨b, bs', _, h2, rfl⟩ := omap_cons_some h
    simp [ih bs' h2]

theorem omap_mem {α β : Type} (f : α → Option β) : ∀ (l : List α) (bs : List β),
    omap f l = some bs → ∀ b ∈ bs, ∃ a ∈ l, f a = some b := by
  intro l
  induction l with
  | nil => intro bs h b hb; simp [omap] at h; subst h; simp at hb
  | cons a l ih =>
    intro bs h b hb
    obtain ⟨b0, bs', h1, h2, rfl⟩ := omap_cons_some h
    rcases List.mem_cons.mp hb with e | e
    · exact ⟨a, by simp, e ▸ h1⟩
    · obtain ⟨x, hx, hfx⟩ := ih bs' h2 b e
      exact ⟨x, by simp [hx], hfx⟩

/-! ### the work list of a parser object produced by reading facts -/

/-- position and index-level formula of one written condition -/
def itemOf (names : List Label) (lf : Label × Fml) : Option (Nat × Fm) :=
  match indexOf names lf.1, resolveFml (indexOf names) lf.2 with
  | some p, some φ => some (p, φ)
  | _, _ => none

theorem itemOf_isSome (names : List Label) (lf : Label × Fml) :
    (itemOf names lf).isSome = true ↔
      (indexOf names lf.1).isSome = true ∧ (resolveFml (indexOf names) lf.2).isSome = true := by
  unfold itemOf
  cases indexOf names lf.1 <;> cases resolveFml (indexOf names) lf.2 <;> simp

theorem omap_zip {d : Label → Option Nat} {r : Fml → Option Fm} :
    ∀ (acs : List (Label × Fml)) (ord : List Nat) (fms : List Fm),
    omap d (acs.map (·.1)) = some ord → omap r (acs.map (·.2)) = some fms →
    omap (fun lf => match d lf.1, r lf.2 with | some p, some φ => some (p, φ) | _, _ => none) acs
      = some (ord.zip fms) := by
  intro acs
  induction acs with
  | nil =>
    intro ord fms h1 h2
    simp [omap] at h1 h2
    subst h1; subst h2; rfl
  | cons lf acs ih =>
    intro ord fms h1 h2
    obtain ⟨p, ord', e1, e2, rfl⟩ := omap_cons_some (l := acs.map (·.1)) h1
    obtain ⟨φ, fms', e3, e4, rfl⟩ := omap_cons_some (l := acs.map (·.2)) h2
    simp only [omap, e1, e3, ih ord' fms' e2 e4, List.zip_cons_cons]

theorem dictSize_apply (st : PState) (x : Fact) (h : dictSize st.dict = st.namelist.length) :
    dictSize (st.apply x).dict = (st.apply x).namelist.length := by
  cases x with
  | ac l f => exact h
  | stmt l =>
    rw [apply_stmt]
    by_cases hs : (dictGet st.dict l).isSome = true
    · rw [if_pos hs]; exact h
    · rw [if_neg hs]
      simp only [dictSize, hs, List.length_append, List.length_cons, List.length_nil]
      simp [h]

theorem dictSize_foldl (fs : List Fact) : ∀ st : PState, dictSize st.dict = st.namelist.length →
    dictSize (fs.foldl PState.apply st).dict = (fs.foldl PState.apply st).namelist.length := by
  induction fs with
  | nil => intro st h; exact h
  | cons x fs ih => intro st h; exact ih _ (dictSize_apply st x h)

/-- `dict_size()` after reading the facts = number of declared statements -/
theorem dictSizeOf_ofFacts (fs : List Fact) : dictSizeOf (PState.ofFacts fs) = (namesOf fs).length := by
  have := dictSize_foldl fs {} rfl
  unfold dictSizeOf
  rw [show PState.ofFacts fs = fs.foldl PState.apply {} from rfl, this]
  exact congrArg List.length (ofFacts_spec fs).1

theorem indexOf_lt (xs : List Label) (l : Label) (p : Nat) (h : indexOf xs l = some p) : p < xs.length := by
  induction xs generalizing p with
  | nil => simp [indexOf] at h
  | cons x xs ih =>
    simp only [indexOf] at h
    by_cases e : x = l
    · rw [if_pos e] at h; cases h; simp
    · rw [if_neg e] at h
      cases hi : indexOf xs l with
      | none => rw [hi] at h; simp at h
      | some q => rw [hi] at h; simp at h; subst h; have := ih q hi; simp; omega

/-- the work list of `from_parser` on the parser object the facts produce: every written condition,
in file order, with the index of its label and its atoms resolved among the declared labels -/
theorem workList_ofFacts (fs : List Fact) :
    workList (PState.ofFacts fs) = omap (itemOf (namesOf fs)) (acsOf fs) := by
  obtain ⟨_, hd, hfn, hfm, hord⟩ := ofFacts_spec fs
  have hdict : dictGet (PState.ofFacts fs).dict = indexOf (namesOf fs) := funext hd
  unfold workList
  rw [hord, mapM_eq_omap, hdict, hfm]
  cases ho : omap (indexOf (namesOf fs)) ((acsOf fs).map (·.1)) with
  | none =>
    symm
    cases hr : omap (itemOf (namesOf fs)) (acsOf fs) with
    | none => rfl
    | some items =>
      have h1 := (omap_isSome (itemOf (namesOf fs)) (acsOf fs)).mp (by rw [hr]; rfl)
      have h2 : (omap (indexOf (namesOf fs)) ((acsOf fs).map (·.1))).isSome = true := by
        rw [omap_isSome]
        intro a ha
        obtain ⟨lf, hlf, rfl⟩ := List.mem_map.mp ha
        exact ((itemOf_isSome _ lf).mp (h1 lf hlf)).1
      rw [ho] at h2; cases h2
  | some ord =>
    have hlen : ord.length = (acsOf fs).length := by simpa using omap_length _ _ _ ho
    have hbound : ∀ p ∈ ord, p < (namesOf fs).length := by
      intro p hp
      obtain ⟨l, _, hl⟩ := omap_mem _ _ _ ho p hp
      exact indexOf_lt _ _ _ hl
    have c1 : ¬ ((acsOf fs).map (·.2)).length < ord.length := by simp [hlen]
    have c2 : ¬ (ord.any (fun p => decide (dictSizeOf (PState.ofFacts fs) ≤ p)) = true) := by
      rw [List.any_eq_true, dictSizeOf_ofFacts]
      rintro ⟨p, hp, hle⟩
      have := hbound p hp
      simp at hle
      omega
    simp only [if_neg c1, if_neg c2]
    rw [List.take_of_length_le (by simp [hlen]), mapM_eq_omap]
    cases hf : omap (resolveFml (indexOf (namesOf fs))) ((acsOf fs).map (·.2)) with
    | none =>
      symm
      cases hr : omap (itemOf (namesOf fs)) (acsOf fs) with
      | none => rfl
      | some items =>
        have h1 := (omap_isSome (itemOf (namesOf fs)) (acsOf fs)).mp (by rw [hr]; rfl)
        have h2 : (omap (resolveFml (indexOf (namesOf fs))) ((acsOf fs).map (·.2))).isSome = true := by
          rw [omap_isSome]
          intro a ha
          obtain ⟨lf, hlf, rfl⟩ := List.mem_map.mp ha
          exact ((itemOf_isSome _ lf).mp (h1 lf hlf)).2
        rw [hf] at h2; cases h2
    | some fms =>
      exact (omap_zip (acsOf fs) ord fms ho hf).symm

/-! ### where `from_parser` panics -/

/-- the labels a condition mentions -/
def atomsOf : Fml → List Label
  | .top => [] | .bot => []
  | .atom l => [l]
  | .not f => atomsOf f
  | .and a b => atomsOf a ++ atomsOf b | .or a b => atomsOf a ++ atomsOf b
  | .imp a b => atomsOf a ++ atomsOf b | .xor a b => atomsOf a ++ atomsOf b
  | .iff a b => atomsOf a ++ atomsOf b

/-- the file describes an ADF `from_parser` can build: every condition is given for a declared
label and mentions declared labels only (declared anywhere in the file, before or after the
condition). Nothing is required about HOW MANY conditions a statement has — see `condOf`. -/
def WellFormedAdf (fs : List Fact) : Prop :=
  ∀ lf ∈ acsOf fs, lf.1 ∈ namesOf fs ∧ ∀ a ∈ atomsOf lf.2, a ∈ namesOf fs

instance (fs : List Fact) : Decidable (WellFormedAdf fs) := by
  unfold WellFormedAdf; infer_instance

theorem resolve_isSome (d : Label → Option Nat) (f : Fml) :
    (resolveFml d f).isSome = true ↔ ∀ a ∈ atomsOf f, (d a).isSome = true := by
  induction f with
  | top => simp [resolveFml, atomsOf]
  | bot => simp [resolveFml, atomsOf]
  | atom l => simp [resolveFml, atomsOf]
  | not f ih => simpa [resolveFml, atomsOf] using ih
  | and a b iha ihb =>
    simp only [resolveFml, atomsOf, List.mem_append, or_imp, forall_and, ← iha, ← ihb]
    cases resolveFml d a <;> cases resolveFml d b <;> simp
  | or a b iha ihb =>
    simp only [resolveFml, atomsOf, List.mem_append, or_imp, forall_and, ← iha, ← ihb]
    cases resolveFml d a <;> cases resolveFml d b <;> simp
  | imp a b iha ihb =>
    simp only [resolveFml, atomsOf, List.mem_append, or_imp, forall_and, ← iha, ← ihb]
    cases resolveFml d a <;> cases resolveFml d b <;> simp
  | xor a b iha ihb =>
    simp only [resolveFml, atomsOf, List.mem_append, or_imp, forall_and, ← iha, ← ihb]
    cases resolveFml d a <;> cases resolveFml d b <;> simp
  | iff a b iha ihb =>
    simp only [resolveFml, atomsOf, List.mem_append, or_imp, forall_and, ← iha, ← ihb]
    cases resolveFml d a <;> cases resolveFml d b <;> simp

/-- **`from_parser` panics exactly on the files that are not well-formed ADFs**: a condition for an
undeclared label (`formula_order`) or with an undeclared atom (`term`) -/
theorem fromParser_isSome_iff (fs : List Fact) :
    (fromParser (PState.ofFacts fs)).isSome = true ↔ WellFormedAdf fs := by
  unfold fromParser
  rw [Option.isSome_map, workList_ofFacts, omap_isSome]
  unfold WellFormedAdf
  constructor
  · intro h lf hlf
    have ⟨h1, h2⟩ := (itemOf_isSome _ lf).mp (h lf hlf)
    rw [indexOf_isSome] at h1
    refine ⟨by simpa using h1, ?_⟩
    intro a ha
    have := (resolve_isSome _ lf.2).mp h2 a ha
    rw [indexOf_isSome] at this
    simpa using this
  · intro h lf hlf
    have ⟨h1, h2⟩ := h lf hlf
    rw [itemOf_isSome, indexOf_isSome, resolve_isSome]
    refine ⟨by simpa using h1, ?_⟩
    intro a ha
    rw [indexOf_isSome]
    simpa using h2 a ha

theorem fromParser_isSome (fs : List Fact) (h : WellFormedAdf fs) :
    (fromParser (PState.ofFacts fs)).isSome = true := (fromParser_isSome_iff fs).mpr h

theorem acsOf_mem (fs : List Fact) (l : Label) (f : Fml) : (l, f) ∈ acsOf fs ↔ Fact.ac l f ∈ fs := by
  induction fs with
  | nil => simp [acsOf]
  | cons x fs ih =>
    cases x with
    | stmt l' => simp [acsOf, ih]
    | ac l' f' => simp [acsOf, ih]

/-- the two panics, separately -/
theorem fromParser_panics (fs : List Fact)
    (h : (∃ l f, Fact.ac l f ∈ fs ∧ Fact.stmt l ∉ fs) ∨
         (∃ l f a, Fact.ac l f ∈ fs ∧ a ∈ atomsOf f ∧ Fact.stmt a ∉ fs)) :
    fromParser (PState.ofFacts fs) = none := by
  have acs_mem : ∀ l f, Fact.ac l f ∈ fs → (l, f) ∈ acsOf fs := fun l f => (acsOf_mem fs l f).mpr
  cases hr : fromParser (PState.ofFacts fs) with
  | none => rfl
  | some r =>
    have wf := (fromParser_isSome_iff fs).mp (by rw [hr]; rfl)
    rcases h with ⟨l, f, h1, h2⟩ | ⟨l, f, a, h1, h2, h3⟩
    · exact absurd ((namesOf_mem fs l).mp (wf (l, f) (acs_mem l f h1)).1) h2
    · exact absurd ((namesOf_mem fs a).mp ((wf (l, f) (acs_mem l f h1)).2 a h2)) h3

/-! ### what every position of `ac` denotes -/

/-- the last condition written for a label -/
def lastCond : List (Label × Fml) → Label → Option Fml
  | [], _ => none
  | (k, f) :: r, l => match lastCond r l with
    | some g => some g
    | none => if k = l then some f else none

/-- the condition `from_parser` gives the statement with label `l`: the LAST one written for it,
and ⊥ if there is none -/
def condOf (fs : List Fact) (l : Label) : Fml := (lastCond (acsOf fs) l).getD .bot

/-- the assignment of labels that an assignment of variable indices induces -/
def labelAsg (d : Label → Option Nat) (σ : Asg) : Label → Bool :=
  fun l => match d l with | some i => σ i | none => false

/-- the index-level Boolean functions of the framework the file describes: position `p` carries the
function of the condition of the `p`-th declared statement, atoms read at their statements' indices -/
def condFns (fs : List Fact) : List BoolFn :=
  (namesOf fs).map fun l σ => (condOf fs l).eval (labelAsg (indexOf (namesOf fs)) σ)

theorem resolve_sem (d : Label → Option Nat) (f : Fml) : ∀ (φ : Fm), resolveFml d f = some φ →
    ∀ σ, φ.sem σ = f.eval (labelAsg d σ) := by
  induction f with
  | top => intro φ h σ; simp [resolveFml] at h; subst h; rfl
  | bot => intro φ h σ; simp [resolveFml] at h; subst h; rfl
  | atom l =>
    intro φ h σ
    simp only [resolveFml] at h
    cases hd : d l with
    | none => rw [hd] at h; simp at h
    | some i => rw [hd] at h; simp at h; subst h; simp [Fm.sem, Fml.eval, labelAsg, hd]
  | not f ih =>
    intro φ h σ
    simp only [resolveFml] at h
    cases hf : resolveFml d f with
    | none => rw [hf] at h; simp at h
    | some x => rw [hf] at h; simp at h; subst h; simp [Fm.sem, Fml.eval, ih x hf σ]
  | and a b iha ihb | or a b iha ihb | imp a b iha ihb | xor a b iha ihb | iff a b iha ihb =>
    intro φ h σ
    simp only [resolveFml] at h
    cases ha : resolveFml d a with
    | none => rw [ha] at h; simp at h
    | some x =>
      cases hb : resolveFml d b with
      | none => rw [ha, hb] at h; simp at h
      | some y => rw [ha, hb] at h; simp at h; subst h; simp [Fm.sem, Fml.eval, iha x ha σ, ihb y hb σ]

theorem resolve_atomsOK (d : Label → Option Nat) (hd : ∀ l p, d l = some p → p < VBOT) (f : Fml) :
    ∀ (φ : Fm), resolveFml d f = some φ → φ.atomsOK := by
  induction f with
  | top => intro φ h; simp [resolveFml] at h; subst h; trivial
  | bot => intro φ h; simp [resolveFml] at h; subst h; trivial
  | atom l =>
    intro φ h
    simp only [resolveFml] at h
    cases hl : d l with
    | none => rw [hl] at h; simp at h
    | some i => rw [hl] at h; simp at h; subst h; exact hd l i hl
  | not f ih =>
    intro φ h
    simp only [resolveFml] at h
    cases hf : resolveFml d f with
    | none => rw [hf] at h; simp at h
    | some x => rw [hf] at h; simp at h; subst h; exact ih x hf
  | and a b iha ihb | or a b iha ihb | imp a b iha ihb | xor a b iha ihb | iff a b iha ihb =>
    intro φ h
    simp only [resolveFml] at h
    cases ha : resolveFml d a with
    | none => rw [ha] at h; simp at h
    | some x =>
      cases hb : resolveFml d b with
      | none => rw [ha, hb] at h; simp at h
      | some y => rw [ha, hb] at h; simp at h; subst h; exact ⟨iha x ha, ihb y hb⟩

theorem indexOf_get (xs : List Label) (l : Label) : ∀ p, indexOf xs l = some p → xs[p]? = some l := by
  induction xs with
  | nil => intro p h; simp [indexOf] at h
  | cons x xs ih =>
    intro p h
    simp only [indexOf] at h
    by_cases e : x = l
    · rw [if_pos e] at h; cases h; simp [e]
    · rw [if_neg e] at h
      cases hi : indexOf xs l with
      | none => rw [hi] at h; simp at h
      | some q => rw [hi] at h; simp at h; subst h; simpa using ih q hi

theorem indexOf_of_get (xs : List Label) (nd : xs.Nodup) (l : Label) :
    ∀ p, xs[p]? = some l → indexOf xs l = some p := by
  induction xs with
  | nil => intro p h; simp at h
  | cons x xs ih =>
    intro p h
    have ⟨hx, nd'⟩ := List.nodup_cons.mp nd
    cases p with
    | zero => simp at h; simp [indexOf, h]
    | succ q =>
      simp at h
      have hm : l ∈ xs := List.mem_of_getElem? h
      have e : ¬ x = l := fun e => hx (e ▸ hm)
      simp [indexOf, e, ih nd' q h]

/-- the entry the loop leaves at position `p` is the (resolved) last condition of the `p`-th label -/
theorem lastAt_items (names : List Label) (nd : names.Nodup) (p : Nat) (l : Label) (hp : names[p]? = some l) :
    ∀ (acs : List (Label × Fml)) (items : List (Nat × Fm)), omap (itemOf names) acs = some items →
    match lastCond acs l with
    | none => lastAt items p = none
    | some f => ∃ φ, resolveFml (indexOf names) f = some φ ∧ lastAt items p = some φ := by
  intro acs
  induction acs with
  | nil => intro items h; simp [omap] at h; subst h; simp [lastCond, lastAt]
  | cons kf acs ih =>
    intro items h
    obtain ⟨k, f⟩ := kf
    obtain ⟨qφ, items', h1, h2, rfl⟩ := omap_cons_some h
    obtain ⟨q, φ⟩ := qφ
    have hk : indexOf names k = some q ∧ resolveFml (indexOf names) f = some φ := by
      unfold itemOf at h1
      cases hi : indexOf names k with
      | none => rw [hi] at h1; simp at h1
      | some q' =>
        cases hr : resolveFml (indexOf names) f with
        | none => simp [hi, hr] at h1
        | some φ' => simp [hi, hr] at h1; exact ⟨by rw [h1.1], by rw [h1.2]⟩
    have := ih items' h2
    simp only [lastCond, lastAt]
    cases hl : lastCond acs l with
    | some g =>
      rw [hl] at this
      obtain ⟨φ', r1, r2⟩ := this
      simp only [r2]
      exact ⟨φ', r1, rfl⟩
    | none =>
      rw [hl] at this
      simp only [this]
      by_cases e : k = l
      · subst e
        have : q = p := by
          have := indexOf_of_get names nd k p hp
          rw [hk.1] at this; exact Option.some.inj this
        simp [this, hk.2]
      · have : ¬ q = p := by
          intro e'
          have := indexOf_get names k q hk.1
          rw [e', hp] at this
          exact e (Option.some.inj this).symm
        simp [e, this]

theorem buildVars_WF (n : Nat) (hn : n ≤ VBOT) : WF (buildVars n Store.init) :=
  (buildVars_wf (List.range n) Store.init WF_init' (by intro v hv; simp at hv; omega)).1

/-- **`from_parser`, any order of the facts.** Whenever it does not panic: the store is well formed,
`ac` has one valid handle per declared statement, and the handle at position `p` denotes the
index-level function of the condition of the `p`-th declared statement (`condFns`: last condition
written for its label, ⊥ if none). Conditions may come before the declarations and in any order. -/
theorem fromParser_correct (fs : List Fact) (s : Store) (ac : List Nat)
    (h : fromParser (PState.ofFacts fs) = some (s, ac)) (hn : (namesOf fs).length ≤ VBOT) :
    WF s ∧ ac.length = (namesOf fs).length ∧ (∀ t ∈ ac, t < s.nodes.size) ∧
    ac.map (eval s) = condFns fs := by
  unfold fromParser at h
  rw [workList_ofFacts, dictSizeOf_ofFacts] at h
  cases hi : omap (itemOf (namesOf fs)) (acsOf fs) with
  | none => rw [hi] at h; simp at h
  | some items =>
    rw [hi] at h
    simp only [Option.map_some, Option.some.injEq] at h
    have w0 := buildVars_WF _ hn
    have hok : ∀ pf ∈ items, pf.2.atomsOK := by
      intro pf hpf
      obtain ⟨lf, _, hlf⟩ := omap_mem _ _ _ hi pf hpf
      unfold itemOf at hlf
      cases h1 : indexOf (namesOf fs) lf.1 with
      | none => simp [h1] at hlf
      | some q =>
        cases h2 : resolveFml (indexOf (namesOf fs)) lf.2 with
        | none => simp [h1, h2] at hlf
        | some φ =>
          simp [h1, h2] at hlf
          rw [← hlf]
          exact resolve_atomsOK _ (fun l p hl => Nat.lt_of_lt_of_le (indexOf_lt _ _ _ hl) hn) _ _ h2
    have spec := placeCompile_spec items (buildVars (namesOf fs).length Store.init)
      (List.replicate (namesOf fs).length 0) (List.replicate (namesOf fs).length Fm.bot) w0
      (by intro t ht; rw [List.mem_replicate] at ht; rw [ht.2]; exact zero_lt _ w0)
      (by rw [List.map_replicate, List.map_replicate]; congr 1 <;> (funext σ; exact eval_zero _ σ))
      hok
    rw [h] at spec
    obtain ⟨a, _, c, d, e⟩ := spec
    refine ⟨a, by simpa using c, d, ?_⟩
    rw [e]
    apply List.ext_getElem?
    intro p
    unfold condFns
    simp only [List.getElem?_map]
    cases hp : (namesOf fs)[p]? with
    | none =>
      have : (placeFm (List.replicate (namesOf fs).length Fm.bot) items)[p]? = none := by
        rw [List.getElem?_eq_none_iff] at hp ⊢
        rw [placeFm_length]; simpa using hp
      rw [this]; rfl
    | some l =>
      have hlt : p < (namesOf fs).length := (List.getElem?_eq_some_iff.mp hp).1
      rw [placeFm_get items _ p Fm.bot (by rw [List.getElem?_replicate, if_pos hlt])]
      simp only [Option.map_some, Option.some.injEq]
      funext σ
      have := lastAt_items (namesOf fs) (namesOf_nodup fs) p l hp (acsOf fs) items hi
      unfold condOf
      cases hl : lastCond (acsOf fs) l with
      | none => rw [hl] at this; simp [this, Fm.sem, Fml.eval]
      | some f =>
        rw [hl] at this
        obtain ⟨φ, r1, r2⟩ := this
        simp [r2, resolve_sem _ f φ r1 σ]

/-- position by position: the handle of the `p`-th declared statement is valid and denotes the
function of its condition, given as the resolved formula `φ` and as the written formula on labels -/
theorem fromParser_handle (fs : List Fact) (s : Store) (ac : List Nat)
    (h : fromParser (PState.ofFacts fs) = some (s, ac)) (hn : (namesOf fs).length ≤ VBOT)
    (p : Nat) (l : Label) (hp : (namesOf fs)[p]? = some l) :
    ∃ t φ, ac[p]? = some t ∧ t < s.nodes.size ∧ resolveFml (indexOf (namesOf fs)) (condOf fs l) = some φ ∧
      ∀ σ, eval s t σ = φ.sem σ ∧ eval s t σ = (condOf fs l).eval (labelAsg (indexOf (namesOf fs)) σ) := by
  obtain ⟨_, hl, hv, hD⟩ := fromParser_correct fs s ac h hn
  have hlt : p < ac.length := by rw [hl]; exact (List.getElem?_eq_some_iff.mp hp).1
  have hev : ∀ σ, eval s ac[p] σ = (condOf fs l).eval (labelAsg (indexOf (namesOf fs)) σ) := by
    intro σ
    have := congrArg (fun D => D[p]?) hD
    simp only [condFns, List.getElem?_map, List.getElem?_eq_getElem hlt, hp, Option.map_some,
      Option.some.injEq] at this
    exact congrFun this σ
  have hwf : WellFormedAdf fs := (fromParser_isSome_iff fs).mp (by rw [h]; rfl)
  have hres : (resolveFml (indexOf (namesOf fs)) (condOf fs l)).isSome = true := by
    unfold condOf
    unfold fromParser at h
    rw [workList_ofFacts] at h
    cases hi : omap (itemOf (namesOf fs)) (acsOf fs) with
    | none => rw [hi] at h; simp at h
    | some items =>
      have := lastAt_items (namesOf fs) (namesOf_nodup fs) p l hp (acsOf fs) items hi
      cases hc : lastCond (acsOf fs) l with
      | none => simp [resolveFml]
      | some f => rw [hc] at this; obtain ⟨φ, r1, _⟩ := this; simp [r1]
  cases hφ : resolveFml (indexOf (namesOf fs)) (condOf fs l) with
  | none => rw [hφ] at hres; cases hres
  | some φ =>
    refine ⟨ac[p], φ, List.getElem?_eq_getElem hlt, hv _ (List.getElem_mem hlt), rfl, ?_⟩
    intro σ
    exact ⟨by rw [hev σ, resolve_sem _ _ φ hφ σ], hev σ⟩

/-! ### zero or several conditions for one statement -/

theorem lastCond_mem : ∀ (acs : List (Label × Fml)) (l : Label) (f : Fml), lastCond acs l = some f → (l, f) ∈ acs := by
  intro acs
  induction acs with
  | nil => intro l f h; simp [lastCond] at h
  | cons kf acs ih =>
    intro l f h
    obtain ⟨k, g⟩ := kf
    simp only [lastCond] at h
    cases hl : lastCond acs l with
    | some g' => rw [hl] at h; simp at h; subst h; exact List.mem_cons_of_mem _ (ih l g' hl)
    | none =>
      rw [hl] at h
      by_cases e : k = l
      · simp [e] at h; subst h; simp [e]
      · simp [e] at h

theorem lastCond_none_iff (acs : List (Label × Fml)) (l : Label) :
    lastCond acs l = none ↔ ∀ f, (l, f) ∉ acs := by
  induction acs with
  | nil => simp [lastCond]
  | cons kf acs ih =>
    obtain ⟨k, g⟩ := kf
    simp only [lastCond, List.mem_cons, Prod.mk.injEq, not_or, not_and]
    cases hl : lastCond acs l with
    | some g' =>
      simp only [reduceCtorEq, false_iff]
      have := lastCond_mem acs l g' hl
      exact fun h => (h g').2 this
    | none =>
      have hno := ih.mp hl
      by_cases e : k = l
      · simp only [e, if_true, reduceCtorEq, false_iff]
        exact fun h => (h g).1 trivial rfl
      · simp only [e, if_false, true_iff]
        intro f
        exact ⟨fun h => absurd h.symm e, hno f⟩

theorem lastCond_append_last (pre post : List (Label × Fml)) (l : Label) (f : Fml) (h : ∀ g, (l, g) ∉ post) :
    lastCond (pre ++ (l, f) :: post) l = some f := by
  induction pre with
  | nil => simp [lastCond, (lastCond_none_iff post l).mpr h]
  | cons kf pre ih => obtain ⟨k, g⟩ := kf; simp [lastCond, ih]

theorem acsOf_append (a b : List Fact) : acsOf (a ++ b) = acsOf a ++ acsOf b := by
  induction a with
  | nil => rfl
  | cons x a ih => cases x <;> simp [acsOf, ih]

/-- **no condition ⇒ ⊥**: a declared statement for which the file gives no condition has the
condition ⊥ … -/
theorem condOf_no_condition (fs : List Fact) (l : Label) (h : ∀ f, Fact.ac l f ∉ fs) : condOf fs l = .bot := by
  unfold condOf
  rw [(lastCond_none_iff _ l).mpr (fun f hf => h f ((acsOf_mem fs l f).mp hf))]
  rfl

/-- … and its entry of `ac` is literally the initial `Term(0)` -/
theorem fromParser_no_condition (fs : List Fact) (s : Store) (ac : List Nat)
    (h : fromParser (PState.ofFacts fs) = some (s, ac))
    (p : Nat) (l : Label) (hp : (namesOf fs)[p]? = some l) (hno : ∀ f, Fact.ac l f ∉ fs) :
    ac[p]? = some 0 := by
  unfold fromParser at h
  rw [workList_ofFacts, dictSizeOf_ofFacts] at h
  cases hi : omap (itemOf (namesOf fs)) (acsOf fs) with
  | none => rw [hi] at h; simp at h
  | some items =>
    rw [hi] at h
    simp only [Option.map_some, Option.some.injEq] at h
    have hlt : p < (namesOf fs).length := (List.getElem?_eq_some_iff.mp hp).1
    have hne : ∀ pf ∈ items, pf.1 ≠ p := by
      intro pf hpf e
      obtain ⟨lf, hm, hlf⟩ := omap_mem _ _ _ hi pf hpf
      unfold itemOf at hlf
      cases h1 : indexOf (namesOf fs) lf.1 with
      | none => simp [h1] at hlf
      | some q =>
        cases h2 : resolveFml (indexOf (namesOf fs)) lf.2 with
        | none => simp [h1, h2] at hlf
        | some φ =>
          simp [h1, h2] at hlf
          have hq : q = p := by rw [← e, ← hlf]
          have := indexOf_get _ _ _ h1
          rw [hq, hp] at this
          have hl : lf.1 = l := (Option.some.inj this).symm
          exact hno lf.2 ((acsOf_mem fs l lf.2).mp (by rw [← hl]; exact hm))
    have := placeCompile_untouched items (buildVars (namesOf fs).length Store.init)
      (List.replicate (namesOf fs).length 0) p hne
    rw [h] at this
    rw [this, List.getElem?_replicate, if_pos hlt]

/-- **last condition wins**: if `ac(l, f)` is the last condition written for `l`, then `f` is the
condition of `l`, whatever was written for `l` before -/
theorem condOf_last_wins (pre post : List Fact) (l : Label) (f : Fml) (h : ∀ g, Fact.ac l g ∉ post) :
    condOf (pre ++ Fact.ac l f :: post) l = f := by
  unfold condOf
  rw [acsOf_append, show acsOf (Fact.ac l f :: post) = (l, f) :: acsOf post from rfl,
    lastCond_append_last _ _ l f (fun g hg => h g ((acsOf_mem post l g).mp hg))]
  rfl

/-- exactly one condition: it is the condition -/
theorem condOf_unique (fs : List Fact) (l : Label) (f : Fml) (h : Fact.ac l f ∈ fs)
    (hu : ∀ g, Fact.ac l g ∈ fs → g = f) : condOf fs l = f := by
  unfold condOf
  cases hl : lastCond (acsOf fs) l with
  | none => exact absurd ((acsOf_mem fs l f).mpr h) ((lastCond_none_iff _ l).mp hl f)
  | some g => simp [hu g ((acsOf_mem fs l g).mp (lastCond_mem _ l g hl))]

/-! ### independence of the order of the facts -/

/-- same declared names in the same order and, label by label, the same last condition: the two
`ac` vectors denote position-wise the same Boolean functions (in their two stores) -/
theorem fromParser_same_functions_of_same_last (fs gs : List Fact) (hnames : namesOf fs = namesOf gs)
    (hlast : ∀ l ∈ namesOf fs, lastCond (acsOf fs) l = lastCond (acsOf gs) l)
    (s s' : Store) (ac ac' : List Nat)
    (h : fromParser (PState.ofFacts fs) = some (s, ac)) (h' : fromParser (PState.ofFacts gs) = some (s', ac'))
    (hn : (namesOf fs).length ≤ VBOT) :
    ac.map (eval s) = ac'.map (eval s') := by
  rw [(fromParser_correct fs s ac h hn).2.2.2, (fromParser_correct gs s' ac' h' (hnames ▸ hn)).2.2.2]
  unfold condFns condOf
  rw [← hnames]
  apply List.map_congr_left
  intro l hl
  rw [hlast l hl]

theorem acsOf_eq_filterMap (fs : List Fact) :
    acsOf fs = fs.filterMap (fun x => match x with | .ac l f => some (l, f) | .stmt _ => none) := by
  induction fs with
  | nil => rfl
  | cons x fs ih => cases x <;> simp [acsOf, ih]

theorem lastCond_eq_some_iff_of_nodup : ∀ (acs : List (Label × Fml)), (acs.map (·.1)).Nodup →
    ∀ (l : Label) (f : Fml), lastCond acs l = some f ↔ (l, f) ∈ acs := by
  intro acs nd l f
  refine ⟨lastCond_mem acs l f, ?_⟩
  induction acs with
  | nil => intro h; simp at h
  | cons kg acs ih =>
    intro h
    obtain ⟨k, g⟩ := kg
    have nd0 : (k :: acs.map (·.1)).Nodup := nd
    have ⟨hk, nd'⟩ := List.nodup_cons.mp nd0
    simp only [lastCond]
    rcases List.mem_cons.mp h with e | e
    · cases e
      have : lastCond acs l = none := (lastCond_none_iff acs l).mpr (fun g' hg' => hk (List.mem_map.mpr ⟨(l, g'), hg', rfl⟩))
      simp [this]
    · simp [ih nd' e]

theorem WellFormedAdf_perm (fs gs : List Fact) (hp : fs.Perm gs) (hnames : namesOf fs = namesOf gs)
    (h : WellFormedAdf fs) : WellFormedAdf gs := by
  intro lf hlf
  have : lf ∈ acsOf fs := by
    rw [acsOf_eq_filterMap] at hlf ⊢
    exact (hp.filterMap _).mem_iff.mpr hlf
  rw [← hnames]
  exact h lf this

/-- **any order of the facts**: two files that consist of the same facts (`Perm`), declare the
statements in the same order (hence number them alike) and give at most one condition per statement
are both built (if one is) and yield position-wise the same Boolean functions. The HANDLES may
differ (the node numbering of the store follows the compilation order, see the example in
`Props/C09`); within one store equal functions have equal handles (canonicity, C06). Without the
"at most one condition" hypothesis the statement is false: the last condition wins. -/
theorem fromParser_same_functions_any_fact_order (fs gs : List Fact) (hp : fs.Perm gs)
    (hnames : namesOf fs = namesOf gs) (hone : ((acsOf fs).map (·.1)).Nodup)
    (hwf : WellFormedAdf fs) (hn : (namesOf fs).length ≤ VBOT) :
    ∃ s ac s' ac', fromParser (PState.ofFacts fs) = some (s, ac) ∧
      fromParser (PState.ofFacts gs) = some (s', ac') ∧
      ac.length = (namesOf fs).length ∧ ac'.length = (namesOf fs).length ∧
      ac.map (eval s) = ac'.map (eval s') ∧
      ∀ (p t t' : Nat), ac[p]? = some t → ac'[p]? = some t' → ∀ σ, eval s t σ = eval s' t' σ := by
  have hperm : (acsOf fs).Perm (acsOf gs) := by
    rw [acsOf_eq_filterMap, acsOf_eq_filterMap]; exact hp.filterMap _
  have hone' : ((acsOf gs).map (·.1)).Nodup := (hperm.map _).nodup_iff.mp hone
  have hlast : ∀ l ∈ namesOf fs, lastCond (acsOf fs) l = lastCond (acsOf gs) l := by
    intro l _
    apply Option.ext
    intro f
    rw [lastCond_eq_some_iff_of_nodup _ hone, lastCond_eq_some_iff_of_nodup _ hone']
    exact hperm.mem_iff
  cases h1 : fromParser (PState.ofFacts fs) with
  | none => have := fromParser_isSome fs hwf; rw [h1] at this; cases this
  | some r =>
    cases h2 : fromParser (PState.ofFacts gs) with
    | none => have := fromParser_isSome gs (WellFormedAdf_perm fs gs hp hnames hwf); rw [h2] at this; cases this
    | some r' =>
      have e := fromParser_same_functions_of_same_last fs gs hnames hlast r.1 r'.1 r.2 r'.2 h1 h2 hn
      refine ⟨r.1, r.2, r'.1, r'.2, rfl, rfl, (fromParser_correct fs _ _ h1 hn).2.1,
        hnames ▸ (fromParser_correct gs _ _ h2 (hnames ▸ hn)).2.1, e, ?_⟩
      intro p t t' ht ht' σ
      have := congrArg (fun D => D[p]?) e
      simp only [List.getElem?_map, ht, ht', Option.map_some, Option.some.injEq] at this
      exact congrFun this σ

/-- the declared names depend on the `s` facts only: same `s` facts in the same order, same names -/
theorem namesOf_filter (fs : List Fact) :
    namesOf fs = namesOf (fs.filter (fun x => match x with | .stmt _ => true | .ac _ _ => false)) := by
  induction fs with
  | nil => rfl
  | cons x fs ih => cases x <;> simp [namesOf, ih]

/-! ### the semantics, end to end from the facts and from the text -/

/-- grounded: the vector computed on the store `from_parser` builds is the least fixpoint of Γ for
the index-level functions of the written conditions — any order of the facts -/
theorem grounded_from_facts (fs : List Fact) (s : Store) (ac : List Nat)
    (h : fromParser (PState.ofFacts fs) = some (s, ac)) (hn : (namesOf fs).length ≤ VBOT) :
    IsLfp (condFns fs) ((groundedLoop StoreRA ((namesOf fs).length + 1) s ac).2.map storeIsConst) := by
  obtain ⟨w, hl, hv, hD⟩ := fromParser_correct fs s ac h hn
  have := grounded_native ((namesOf fs).length + 1) s ac w hv (by omega)
  rw [hD] at this
  exact this

/-- complete: `completeAll` on the built store lists exactly the fixpoints of Γ (once each, the
grounded one first) -/
theorem complete_from_facts (fs : List Fact) (s : Store) (ac : List Nat)
    (h : fromParser (PState.ofFacts fs) = some (s, ac)) (hn : (namesOf fs).length ≤ VBOT) :
    let n := (namesOf fs).length
    ((completeAll s n ac).2.2.map (fun v => v.map storeIsConst)).Nodup ∧
    (∀ w : I3, w ∈ (completeAll s n ac).2.2.map (fun v => v.map storeIsConst) ↔
      (w.length = n ∧ Gam (condFns fs) w = w)) ∧
    (completeAll s n ac).2.2.head? = some (completeAll s n ac).2.1 := by
  obtain ⟨w, hl, hv, hD⟩ := fromParser_correct fs s ac h hn
  have := CompleteExact.completeAll_exact s (namesOf fs).length ac w hl hv
  rw [hD] at this
  exact this

/-- stable: `stableAll` on the built store lists exactly the stable models (once each) -/
theorem stable_from_facts (fs : List Fact) (s : Store) (ac : List Nat)
    (h : fromParser (PState.ofFacts fs) = some (s, ac)) (hn : (namesOf fs).length ≤ VBOT) :
    let n := (namesOf fs).length
    let out := (stableAll s n ac).2.map (fun v => v.map storeIsConst)
    out.Nodup ∧ ∀ v : I3, v ∈ out ↔ (v.length = n ∧ StableExact.StableI (condFns fs) v) := by
  obtain ⟨w, hl, hv, hD⟩ := fromParser_correct fs s ac h hn
  have ⟨_, e⟩ := StableExact.stableAll_filter s (namesOf fs).length ac w hl hv
  have := StableExact.answers_exact s (namesOf fs).length ac w hl hv _
    (StableExact.verdict_iff (ac.map (eval s)))
  show (List.map (fun v => v.map storeIsConst) (stableAll s (namesOf fs).length ac).2).Nodup ∧
    ∀ v : I3, v ∈ List.map (fun v => v.map storeIsConst) (stableAll s (namesOf fs).length ac).2 ↔
      (v.length = (namesOf fs).length ∧ StableExact.StableI (condFns fs) v)
  rw [e, ← hD]
  exact this

/-- **from the text**: whatever text the parser accepts is the spelling of a (unique) non-empty list
of facts; `from_parser` on the resulting parser object panics iff these facts are not a well-formed
ADF; otherwise the built store is well formed, `ac` denotes the written conditions at the
statements' positions (any order of the facts in the text), and `grounded` returns the least
fixpoint of Γ for them -/
theorem grounded_from_text (t : List Char) (st : PState) (h : parse t = some st) :
    ∃ fs, fs ≠ [] ∧ DerFile fs t ∧ st = PState.ofFacts fs ∧ dictSizeOf st = (namesOf fs).length ∧
      ((fromParser st).isSome = true ↔ WellFormedAdf fs) ∧
      ∀ s ac, fromParser st = some (s, ac) → dictSizeOf st ≤ VBOT →
        WF s ∧ (∀ t ∈ ac, t < s.nodes.size) ∧ ac.map (eval s) = condFns fs ∧
        IsLfp (condFns fs) ((groundedLoop StoreRA (dictSizeOf st + 1) s ac).2.map storeIsConst) := by
  obtain ⟨fs, hne, hder, rfl⟩ := parse_some_der t st h
  refine ⟨fs, hne, hder, rfl, dictSizeOf_ofFacts fs, fromParser_isSome_iff fs, ?_⟩
  intro s ac hb hn
  rw [dictSizeOf_ofFacts] at hn ⊢
  obtain ⟨w, _, hv, hD⟩ := fromParser_correct fs s ac hb hn
  exact ⟨w, hv, hD, grounded_from_facts fs s ac hb hn⟩

/-- complete and stable from the text -/
theorem complete_stable_from_text (t : List Char) (st : PState) (h : parse t = some st)
    (s : Store) (ac : List Nat) (hb : fromParser st = some (s, ac)) (hn : dictSizeOf st ≤ VBOT) :
    ∃ fs, fs ≠ [] ∧ DerFile fs t ∧ st = PState.ofFacts fs ∧
      (let n := dictSizeOf st
       ((completeAll s n ac).2.2.map (fun v => v.map storeIsConst)).Nodup ∧
       (∀ w : I3, w ∈ (completeAll s n ac).2.2.map (fun v => v.map storeIsConst) ↔
         (w.length = n ∧ Gam (condFns fs) w = w)) ∧
       (completeAll s n ac).2.2.head? = some (completeAll s n ac).2.1) ∧
      (let n := dictSizeOf st
       let out := (stableAll s n ac).2.map (fun v => v.map storeIsConst)
       out.Nodup ∧ ∀ v : I3, v ∈ out ↔ (v.length = n ∧ StableExact.StableI (condFns fs) v)) := by
  obtain ⟨fs, hne, hder, rfl⟩ := parse_some_der t st h
  rw [dictSizeOf_ofFacts] at hn ⊢
  exact ⟨fs, hne, hder, rfl, complete_from_facts fs s ac hb hn, stable_from_facts fs s ac hb hn⟩

/-- a text of the documented format that describes a well-formed ADF is accepted and built -/
theorem built_of_text (fs : List Fact) (t : List Char) (hd : DerFile fs t) (hne : fs ≠ []) (hwf : WellFormedAdf fs) :
    ∃ s ac, (parse t).bind fromParser = some (s, ac) := by
  have hp : parse t = some (PState.ofFacts fs) := by
    rw [parse_eq, parseFacts_complete fs t hd hne]; rfl
  rw [hp]
  cases hb : fromParser (PState.ofFacts fs) with
  | none => have := fromParser_isSome fs hwf; rw [hb] at this; cases this
  | some r => exact ⟨r.1, r.2, by rw [Option.bind_some, hb]⟩

/-! ### the old model `buildNative` is the special case "conditions in declaration order" -/

theorem placeCompile_in_order : ∀ (fms : List Fm) (s : Store) (pre : List Nat),
    placeCompile s (pre ++ List.replicate fms.length 0) ((List.range' pre.length fms.length).zip fms) =
      compileAll fms s pre := by
  intro fms
  induction fms with
  | nil => intro s pre; simp [placeCompile, compileAll]
  | cons f fms ih =>
    intro s pre
    have := ih (compile s f).1 (pre ++ [(compile s f).2])
    simp only [List.length_append, List.length_cons, List.length_nil, Nat.zero_add] at this
    simp only [List.length_cons, List.range'_succ, List.zip_cons_cons, placeCompile, compileAll,
      List.replicate_succ]
    rw [← this]
    congr 1
    simp

/-- one condition per statement, written in declaration order: `from_parser` is `buildNative` -/
theorem buildNative_eq_placeCompile (fms : List Fm) :
    buildNative fms.length fms =
      placeCompile (buildVars fms.length Store.init) (List.replicate fms.length 0) ((List.range fms.length).zip fms) := by
  have := placeCompile_in_order fms (buildVars fms.length Store.init) []
  simp only [List.nil_append, List.length_nil] at this
  rw [List.range_eq_range', this]; rfl

#print axioms fromParser_isSome_iff
#print axioms fromParser_panics
#print axioms fromParser_correct
#print axioms fromParser_handle
#print axioms fromParser_no_condition
#print axioms condOf_last_wins
#print axioms fromParser_same_functions_any_fact_order
#print axioms grounded_from_text
#print axioms complete_stable_from_text
#print axioms built_of_text

end FromParser
