import AdfObdd.NgHalt
import AdfObdd.ClosureSound
import AdfObdd.Stutter
/-! # The prototype abstract machine of the nogood search (decided parts only) - reference material

These three statements were the first version of C05: an abstract machine on partial assignments
(`NgSearch.lean` / `NgHalt.lean`) and a generic stuttering-simulation lemma (`Stutter.lean`).  The proof
of C05 for the concrete loop (`Props/C05.lean`: `ng_search_exact`) does NOT go through them any more: it
uses the generic machine `NGen` (safety `NGen.run_exact`, liveness `NGen.halts`), its semantic instance
`NSem` and the lock-step simulation `NConc.sim_iter`, in which no stuttering occurs.  They were moved
out of `Props/C05.lean` (review 2026-09-27: "about an abstract machine no longer connected to
`SM.ngSearch`") and are kept as documentation of the proof idea; nothing imports this module. -/
namespace NgProto

/-- safety: if the run halts, the emitted list is exactly the target models (stable models, or
two-valued models in two-valued mode), each once — for every valid heuristic -/
theorem exact_if_halts {T : Asg → Prop} {P : Params} (hP : Sound T P) (fuel : Nat) (s s' : St)
    (hinv : SInv T P s) (hr : run P fuel s = some s') :
    (∀ σ, T σ → ∃ o ∈ s'.out, Matches o σ) ∧ (∀ o ∈ s'.out, ∀ σ, Matches o σ → T σ) ∧ s'.out.Nodup :=
  run_exact hP fuel s s' hinv hr

/-- the initial state (the grounded interpretation, empty store and stack) satisfies the invariant -/
theorem init_invariant {T : Asg → Prop} {P : Params} (g : PA) (hg : ∀ σ, T σ → Matches g σ) :
    SInv T P { cur := g, store := [], stack := [], backtrack := false, choice := false, out := [] } :=
  inv_init g hg

/-- liveness: the run from the initial state halts — for every heuristic oracle satisfying the
liveness laws (it proposes an undecided statement), given the closure laws -/
theorem terminates {P : Params} {n : Nat} {mu : PA → Nat} (hL : Live P n mu)
    (cl_direct : ∀ st A, (∃ g ∈ st, PSub g A) → P.closure st A = Closure.inconsistent) (g : PA) :
    ∃ fuel s', run P fuel { cur := g, store := [], stack := [], backtrack := false, choice := false, out := [] } = some s' :=
  halts hL cl_direct g

/-- generic stuttering-simulation lemma that carries halting and the final abstract state (hence
the emitted list) from the abstract to the concrete loop -/
theorem stutter_transfer {C A : Type} {cstep : C → StutterM.SRes C} {astep : A → StutterM.SRes A} {abs : C → A}
    {settled : C → Prop} (h : StutterM.StutterSim cstep astep abs settled)
    (fuel : Nat) (c : C) (a' : A) (hr : StutterM.srun astep fuel (abs c) = some a') :
    ∃ fuel' c', fuel' ≤ 2 * fuel ∧ StutterM.srun cstep fuel' c = some c' ∧ abs c' = a' :=
  StutterM.stutter_halts h fuel c a' hr

end NgProto
