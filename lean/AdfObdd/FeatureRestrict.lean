import AdfObdd.FeatureVariants
import AdfObdd.Shortcut
/-! C12, `restrict`: the body with a (sound) shortcut and the body without return the same
    handle and produce the same node table, from any two well-formed stores with the same node
    table (the restrict memo may differ arbitrarily). Core facts:
    * `restrictS_spec`     the specification of `restrictF` holds for every sound shortcut;
    * `restrictS_present`  if the restricted function is already represented in the table, the
                           call returns that handle and adds no node;
    * `restrictS_indep`    handle and node table do not depend on shortcut or memo. -/

/-- a shortcut is sound when it fires only for variables the diagram does not depend on -/
def ScSound (sc : Store → Nat → Nat → Bool) : Prop :=
  ∀ s, WF s → ∀ t v, t < s.nodes.size → sc s t v = true → ∀ σ b, eval s t (upd σ v b) = eval s t σ

theorem scNone_sound : ScSound scNone := by
  intro s _ t v _ h; simp [scNone] at h

theorem scDeps_sound : ScSound scDeps := by
  intro s w t v ht h σ b
  apply depsF_indep s w (t+1) t v ht (Nat.lt_succ_self _)
  intro hm
  have : (depsOf s t).contains v = true := List.contains_iff_mem.mpr hm
  simp only [scDeps, this] at h
  cases h

theorem scOf_sound (c : Cfg) : ScSound (scOf c) := by
  intro s w t v ht h σ b
  have : scDeps s t v = true := by
    simp only [scOf, Bool.and_eq_true] at h; exact h.2
  exact scDeps_sound s w t v ht this σ b

theorem restrictS_none : ∀ (fuel : Nat) (s : Store) (t v : Nat) (b : Bool),
    restrictS scNone fuel s t v b = restrictF fuel s t v b := by
  intro fuel
  induction fuel with
  | zero => intros; rfl
  | succ f ih =>
    intro s t v b
    rw [restrictS, restrictF]
    simp only [ih, scNone, Bool.false_eq_true, if_false]
    rfl

theorem iteS_none : ∀ (fuel : Nat) (s : Store) (i t e : Nat),
    iteS scNone fuel s i t e = iteF fuel s i t e := by
  intro fuel
  induction fuel with
  | zero => intros; rfl
  | succ f ih =>
    intro s i t e
    rw [iteS, iteF]
    simp only [ih, restrictS_none]
    rfl

/-! ### the three ways a call can proceed -/

theorem restrictS_step (sc : Store → Nat → Nat → Bool) (f : Nat) (s : Store) (t v : Nat) (b : Bool)
    (n : Node) (hn : s.nodes[t]? = some n) :
    (∃ x, restrictS sc (f+1) s t v b = (s, x) ∧
        (s.resC[(t, v, b)]? = some x ∨
         (x = t ∧ (sc s t v = true ∨ n.var > v ∨ n.var ≥ VBOT)))) ∨
    (n.var < v ∧ n.var < VBOT ∧
      restrictS sc (f+1) s t v b =
        ({ (mkNode (restrictS sc f (restrictS sc f s n.lo v b).1 n.hi v b).1 n.var
              (restrictS sc f s n.lo v b).2 (restrictS sc f (restrictS sc f s n.lo v b).1 n.hi v b).2).1 with
            resC := (mkNode (restrictS sc f (restrictS sc f s n.lo v b).1 n.hi v b).1 n.var
              (restrictS sc f s n.lo v b).2 (restrictS sc f (restrictS sc f s n.lo v b).1 n.hi v b).2).1.resC.insert (t, v, b)
              (mkNode (restrictS sc f (restrictS sc f s n.lo v b).1 n.hi v b).1 n.var
              (restrictS sc f s n.lo v b).2 (restrictS sc f (restrictS sc f s n.lo v b).1 n.hi v b).2).2 },
         (mkNode (restrictS sc f (restrictS sc f s n.lo v b).1 n.hi v b).1 n.var
              (restrictS sc f s n.lo v b).2 (restrictS sc f (restrictS sc f s n.lo v b).1 n.hi v b).2).2)) ∨
    (n.var = v ∧ n.var < VBOT ∧
      restrictS sc (f+1) s t v b =
        ({ (restrictS sc f s (if b then n.hi else n.lo) v b).1 with
            resC := (restrictS sc f s (if b then n.hi else n.lo) v b).1.resC.insert (t, v, b)
              (restrictS sc f s (if b then n.hi else n.lo) v b).2 },
         (restrictS sc f s (if b then n.hi else n.lo) v b).2)) := by
  rw [restrictS]
  cases hm : s.resC[(t, v, b)]? with
  | some r => left; exact ⟨r, rfl, Or.inl rfl⟩
  | none =>
    simp only [hn]
    by_cases hs : sc s t v = true
    · left; rw [if_pos hs]; exact ⟨t, rfl, Or.inr ⟨rfl, Or.inl hs⟩⟩
    rw [if_neg hs]
    by_cases hc1 : n.var > v ∨ n.var ≥ VBOT
    · left; rw [if_pos hc1]; exact ⟨t, rfl, Or.inr ⟨rfl, Or.inr hc1⟩⟩
    rw [if_neg hc1]
    by_cases hc2 : n.var < v
    · right; left; rw [if_pos hc2]; exact ⟨hc2, by omega, rfl⟩
    · right; right; rw [if_neg hc2]
      refine ⟨by omega, by omega, ?_⟩
      cases b <;> simp

/-! ### specification -/

theorem restrictS_spec (sc : Store → Nat → Nat → Bool) (hsc : ScSound sc) :
    ∀ (fuel : Nat) (s : Store) (t v : Nat) (b : Bool),
    WF s → t < s.nodes.size → t < fuel →
    WF (restrictS sc fuel s t v b).1 ∧ Ext s (restrictS sc fuel s t v b).1 ∧
    (restrictS sc fuel s t v b).2 < (restrictS sc fuel s t v b).1.nodes.size ∧
    topVar s t ≤ topVar (restrictS sc fuel s t v b).1 (restrictS sc fuel s t v b).2 ∧
    (∀ σ, eval (restrictS sc fuel s t v b).1 (restrictS sc fuel s t v b).2 σ = eval s t (upd σ v b)) := by
  intro fuel
  induction fuel with
  | zero => intro s t v b _ _ h; omega
  | succ f ih =>
    intro s t v b w ht hf
    obtain ⟨n, hn⟩ := get_of_lt ht
    rcases restrictS_step sc f s t v b n hn with ⟨x, hx, hwhy⟩ | ⟨hlt, hvb, hx⟩ | ⟨heq, hvb, hx⟩
    · rw [hx]
      rcases hwhy with hm | ⟨rfl, hwhy⟩
      · have ⟨_, a, b', c⟩ := w.resOK t v b x hm
        exact ⟨w, Ext.refl _, a, b', c⟩
      · refine ⟨w, Ext.refl _, ht, Nat.le_refl _, ?_⟩
        intro σ
        rcases hwhy with h | h | h
        · exact (hsc s w x v ht h σ b).symm
        · exact (eval_upd_of_lt s w x ht v b (by simp [topVar, hn]; exact h) σ).symm
        · have ht01 : x < 2 := by
            rcases Nat.lt_or_ge x 2 with h' | h'
            · exact h'
            · have := (w.inner x n h' hn).1; omega
          have h01 : x = 0 ∨ x = 1 := by omega
          rcases h01 with h | h <;> subst h <;> simp [eval_zero, eval_one]
    · have ht2 : 2 ≤ t := inner_of_not_const w hn (by omega)
      have ⟨_, hlo, hhi, _, _, _⟩ := w.inner t n ht2 hn
      rw [hx]
      have ⟨w1, e1, l1, tv1, ev1⟩ := ih s n.lo v b w (by omega) (by omega)
      generalize restrictS sc f s n.lo v b = R1 at *
      have hhi1 : n.hi < R1.1.nodes.size := by have := e1.1; omega
      have ⟨w2, e2, l2, tv2, ev2⟩ := ih R1.1 n.hi v b w1 hhi1 (by omega)
      generalize restrictS sc f R1.1 n.hi v b = R2 at *
      have l1' : R1.2 < R2.1.nodes.size := by have := e2.1; omega
      have hv1 : n.var < topVar R2.1 R1.2 := by
        rw [topVar_ext e2 _ l1]
        have := topVar_child_lo w ht2 hn; omega
      have hv2 : n.var < topVar R2.1 R2.2 := by
        have := topVar_child_hi w ht2 hn
        rw [← topVar_ext e1 _ (by omega)] at this; omega
      have ⟨w3, e3, l3, tv3, ev3⟩ := mkNode_spec _ w2 n.var _ _ l1' l2 hvb hv1 hv2
      generalize mkNode R2.1 n.var R1.2 R2.2 = M at *
      have e13 := (e1.trans e2).trans e3
      have ht3 : t < M.1.nodes.size := by have := e13.1; omega
      have hev : ∀ σ, eval M.1 M.2 σ = eval s t (upd σ v b) := by
        intro σ
        rw [ev3, ev2, eval_ext w1 e2 _ σ l1, ev1, eval_ext w e1 _ _ (by omega),
            eval_node s w t n ht2 hn]
        have : (upd σ v b) n.var = σ n.var := by simp only [upd]; split <;> first | omega | rfl
        rw [this]
      have htv : topVar s t ≤ topVar M.1 M.2 := by
        simp only [topVar, hn]; exact tv3
      have ⟨w4, e4⟩ := WF_insert_res _ w3 t v b _ ht3 l3
        (by rw [topVar_ext e13 t ht]; exact htv)
        (by intro σ; rw [hev σ, eval_ext w e13 t _ ht])
      exact ⟨w4, e13.trans e4, l3, htv, hev⟩
    · have ht2 : 2 ≤ t := inner_of_not_const w hn (by omega)
      have ⟨_, hlo, hhi, _, _, _⟩ := w.inner t n ht2 hn
      rw [hx]
      have hc : (if b = true then n.hi else n.lo) < t := by split <;> assumption
      have hcv : n.var < topVar s (if b = true then n.hi else n.lo) := by
        split
        · exact topVar_child_hi w ht2 hn
        · exact topVar_child_lo w ht2 hn
      have hevc : ∀ σ, eval s t (upd σ v b) = eval s (if b = true then n.hi else n.lo) (upd σ v b) := by
        intro σ
        rw [eval_node s w t n ht2 hn]
        have : (upd σ v b) n.var = b := by rw [heq]; exact upd_same σ v b
        rw [this]
        cases b <;> simp
      generalize (if b = true then n.hi else n.lo) = c at *
      have ⟨w1, e1, l1, tv1, ev1⟩ := ih s c v b w (by omega) (by omega)
      generalize restrictS sc f s c v b = R at *
      have htv : topVar s t ≤ topVar R.1 R.2 := by
        simp only [topVar, hn] at *; omega
      have hev : ∀ σ, eval R.1 R.2 σ = eval s t (upd σ v b) := by
        intro σ; rw [ev1, hevc]
      have ⟨w4, e4⟩ := WF_insert_res _ w1 t v b _ (by have := e1.1; omega) l1
        (by rw [topVar_ext e1 t ht]; exact htv)
        (by intro σ; rw [hev σ, eval_ext w e1 t _ ht])
      exact ⟨w4, e1.trans e4, l1, htv, hev⟩

/-- the node table just before the memo insertion of a recursing `restrict` call is
structurally well formed (read off the specification of the whole call) -/
theorem restrictS_mk_table (sc : Store → Nat → Nat → Bool) (hsc : ScSound sc) (f : Nat) (s : Store) (t v : Nat)
    (b : Bool) (n : Node) (w : WF s) (ht : t < s.nodes.size) (hf : t < f + 1) (hn : s.nodes[t]? = some n)
    (hm : s.resC[(t, v, b)]? = none) (hs : ¬ sc s t v = true) (hc1 : ¬ (n.var > v ∨ n.var ≥ VBOT))
    (hc2 : n.var < v) :
    TableWF (mkNode (restrictS sc f (restrictS sc f s n.lo v b).1 n.hi v b).1 n.var
      (restrictS sc f s n.lo v b).2 (restrictS sc f (restrictS sc f s n.lo v b).1 n.hi v b).2).1.nodes := by
  have ⟨w0, _, _, _, _⟩ := restrictS_spec sc hsc (f+1) s t v b w ht hf
  rcases restrictS_step sc f s t v b n hn with ⟨x, _, hwhy⟩ | ⟨_, _, hx⟩ | ⟨heq, _, _⟩
  · exfalso
    rcases hwhy with h | ⟨_, h | h⟩
    · rw [hm] at h; cases h
    · exact hs h
    · exact hc1 h
  · rw [hx] at w0; exact w0.table
  · omega

/-! ### two well-formed stores with the same node table -/

theorem uniq_congr {s s' : Store} (w : WF s) (w' : WF s') (h : s.nodes = s'.nodes) (n : Node) :
    s.uniq[n]? = s'.uniq[n]? := by
  cases h1 : s.uniq[n]? with
  | some t =>
    have := (w.uniqOK n t).mp h1
    rw [h] at this
    exact ((w'.uniqOK n t).mpr this).symm
  | none =>
    cases h2 : s'.uniq[n]? with
    | none => rfl
    | some t =>
      have := (w'.uniqOK n t).mp h2
      rw [← h] at this
      rw [(w.uniqOK n t).mpr this] at h1; cases h1

theorem mkNode_congr {s s' : Store} (w : WF s) (w' : WF s') (h : s.nodes = s'.nodes) (v lo hi : Nat) :
    (mkNode s v lo hi).1.nodes = (mkNode s' v lo hi).1.nodes ∧ (mkNode s v lo hi).2 = (mkNode s' v lo hi).2 := by
  unfold mkNode
  by_cases hne : lo = hi
  · rw [if_pos hne, if_pos hne]; exact ⟨h, rfl⟩
  · rw [if_neg hne, if_neg hne, ← uniq_congr w w' h]
    cases s.uniq[(⟨v, lo, hi⟩ : Node)]? with
    | some t => exact ⟨h, rfl⟩
    | none => simp only [h]; exact ⟨trivial, trivial⟩

/-! ### presence -/

theorem eval_upd_swap (s : Store) (w : WF s) (t : Nat) (ht : t < s.nodes.size) (x v : Nat) (c b : Bool)
    (hx : x < topVar s t) (hxv : x ≠ v) (σ : Asg) :
    eval s t (upd (upd σ x c) v b) = eval s t (upd σ v b) := by
  rw [upd_comm' σ hxv c b, eval_upd_of_lt s w t ht x c hx]

theorem restrictS_present (sc : Store → Nat → Nat → Bool) (hsc : ScSound sc) :
    ∀ (fuel : Nat) (s : Store) (t v : Nat) (b : Bool) (r : Nat),
    WF s → t < s.nodes.size → t < fuel → r < s.nodes.size →
    (∀ σ, eval s r σ = eval s t (upd σ v b)) →
    (restrictS sc fuel s t v b).1.nodes = s.nodes ∧ (restrictS sc fuel s t v b).2 = r := by
  intro fuel
  induction fuel with
  | zero => intro s t v b r _ _ h; omega
  | succ f ih =>
    intro s t v b r w ht hf hr hev
    obtain ⟨n, hn⟩ := get_of_lt ht
    have ⟨_, _, l0, _, ev0⟩ := restrictS_spec sc hsc (f+1) s t v b w ht hf
    rcases restrictS_step sc f s t v b n hn with ⟨x, hx, _⟩ | ⟨hlt, hvb, hx⟩ | ⟨heq, hvb, hx⟩
    · rw [hx] at l0 ev0 ⊢
      refine ⟨rfl, ?_⟩
      apply (canonical s w x r l0 hr).mp
      intro σ; rw [ev0, hev]
    · have ht2 : 2 ≤ t := inner_of_not_const w hn (by omega)
      have ⟨_, hlo, hhi, _, _, _⟩ := w.inner t n ht2 hn
      have hclo := topVar_child_lo w ht2 hn
      have hchi := topVar_child_hi w ht2 hn
      have hne : n.var ≠ v := by omega
      -- the function of `r`, split at the top variable of `t`
      have hsplit : ∀ σ, eval s r σ = if σ n.var then eval s n.hi (upd σ v b) else eval s n.lo (upd σ v b) := by
        intro σ
        rw [hev, eval_node s w t n ht2 hn, upd_other σ b hne]
      have hflo : ∀ σ c, eval s n.lo (upd (upd σ n.var c) v b) = eval s n.lo (upd σ v b) :=
        fun σ c => eval_upd_swap s w n.lo (by omega) n.var v c b hclo hne σ
      have hfhi : ∀ σ c, eval s n.hi (upd (upd σ n.var c) v b) = eval s n.hi (upd σ v b) :=
        fun σ c => eval_upd_swap s w n.hi (by omega) n.var v c b hchi hne σ
      -- the two handles that represent the restricted children
      have hex : ∃ rl rh, rl < s.nodes.size ∧ rh < s.nodes.size ∧
          (∀ σ, eval s rl σ = eval s n.lo (upd σ v b)) ∧ (∀ σ, eval s rh σ = eval s n.hi (upd σ v b)) ∧
          ∀ s', WF s' → s'.nodes = s.nodes → (mkNode s' n.var rl rh).1.nodes = s.nodes ∧ (mkNode s' n.var rl rh).2 = r := by
        rcases Nat.lt_trichotomy n.var (topVar s r) with hgt | heq' | hlt'
        · -- `r` does not depend on `n.var`: both restricted children are `r`
          have hind : ∀ σ c, eval s r (upd σ n.var c) = eval s r σ :=
            fun σ c => eval_upd_of_lt s w r hr n.var c hgt σ
          refine ⟨r, r, hr, hr, ?_, ?_, ?_⟩
          · intro σ
            rw [← hind σ false, hsplit, upd_same]; simp only [Bool.false_eq_true, if_false]; exact hflo σ false
          · intro σ
            rw [← hind σ true, hsplit, upd_same]; simp only [if_true]; exact hfhi σ true
          · intro s' _ hs'
            unfold mkNode; rw [if_pos rfl]; exact ⟨hs', rfl⟩
        · -- same top variable: the children of `r`
          obtain ⟨m, hm⟩ := get_of_lt hr
          have hmv : m.var = n.var := by simp [topVar, hm] at heq'; omega
          have hr2 : 2 ≤ r := inner_of_not_const w hm (by omega)
          have ⟨_, hmlo, hmhi, hmne, _, _⟩ := w.inner r m hr2 hm
          refine ⟨m.lo, m.hi, by omega, by omega, ?_, ?_, ?_⟩
          · intro σ
            rw [eval_lo s w r m hr2 hm, hsplit, hmv, upd_same]
            simp only [Bool.false_eq_true, if_false]; exact hflo σ false
          · intro σ
            rw [eval_hi s w r m hr2 hm, hsplit, hmv, upd_same]
            simp only [if_true]; exact hfhi σ true
          · intro s' w' hs'
            have hu : s'.uniq[(⟨n.var, m.lo, m.hi⟩ : Node)]? = some r := by
              apply (w'.uniqOK _ r).mpr
              refine ⟨hr2, ?_⟩
              rw [hs', hm, ← hmv]
            unfold mkNode; rw [if_neg hmne, hu]; exact ⟨hs', rfl⟩
        · -- `r` would depend on a variable above `t`: impossible
          exfalso
          obtain ⟨m, hm⟩ := get_of_lt hr
          have hmv : m.var < n.var := by simpa [topVar, hm] using hlt'
          have hr2 : 2 ≤ r := inner_of_not_const w hm (by omega)
          obtain ⟨σ, hσ⟩ := node_essential s w r m hr2 hm
          apply hσ
          have htt : m.var < topVar s t := by simp [topVar, hn]; exact hmv
          rw [hev, hev, eval_upd_swap s w t ht m.var v true b htt (by omega),
              eval_upd_swap s w t ht m.var v false b htt (by omega)]
      obtain ⟨rl, rh, hrl, hrh, evl, evh, hmk⟩ := hex
      rw [hx]
      simp only
      have ⟨n1, q1⟩ := ih s n.lo v b rl w (by omega) (by omega) hrl evl
      have ⟨w1, _, _, _, _⟩ := restrictS_spec sc hsc f s n.lo v b w (by omega) (by omega)
      generalize restrictS sc f s n.lo v b = R1 at *
      have ⟨n2, q2⟩ := ih R1.1 n.hi v b rh w1 (by rw [n1]; omega) (by omega) (by rw [n1]; exact hrh)
        (by intro σ; rw [eval_congr n1, eval_congr n1]; exact evh σ)
      have ⟨w2, _, _, _, _⟩ := restrictS_spec sc hsc f R1.1 n.hi v b w1 (by rw [n1]; omega) (by omega)
      generalize restrictS sc f R1.1 n.hi v b = R2 at *
      rw [q1, q2]
      exact hmk R2.1 w2 (n2.trans n1)
    · have ht2 : 2 ≤ t := inner_of_not_const w hn (by omega)
      have ⟨_, hlo, hhi, _, _, _⟩ := w.inner t n ht2 hn
      rw [hx]
      simp only
      have hc : (if b = true then n.hi else n.lo) < t := by split <;> assumption
      have hevc : ∀ σ, eval s t (upd σ v b) = eval s (if b = true then n.hi else n.lo) (upd σ v b) := by
        intro σ
        rw [eval_node s w t n ht2 hn]
        have : (upd σ v b) n.var = b := by rw [heq]; exact upd_same σ v b
        rw [this]
        cases b <;> simp
      generalize (if b = true then n.hi else n.lo) = c at *
      exact ih s c v b r w (by omega) (by omega) hr (fun σ => by rw [hev, hevc])

/-! ### independence of shortcut and memo -/

theorem restrictS_indep (sc sc' : Store → Nat → Nat → Bool) (hsc : ScSound sc) (hsc' : ScSound sc') :
    ∀ (fuel : Nat) (s s' : Store) (t v : Nat) (b : Bool),
    WF s → WF s' → s.nodes = s'.nodes → t < s.nodes.size → t < fuel →
    (restrictS sc fuel s t v b).1.nodes = (restrictS sc' fuel s' t v b).1.nodes ∧
    (restrictS sc fuel s t v b).2 = (restrictS sc' fuel s' t v b).2 := by
  intro fuel
  induction fuel with
  | zero => intro s s' t v b _ _ _ _ h; omega
  | succ f ih =>
    intro s s' t v b w w' hnn ht hf
    have ht' : t < s'.nodes.size := by rw [← hnn]; exact ht
    obtain ⟨n, hn⟩ := get_of_lt ht
    have hn' : s'.nodes[t]? = some n := by rw [← hnn]; exact hn
    have ⟨_, _, l0, _, ev0⟩ := restrictS_spec sc hsc (f+1) s t v b w ht hf
    have ⟨_, _, l0', _, ev0'⟩ := restrictS_spec sc' hsc' (f+1) s' t v b w' ht' hf
    have early : ∀ x, restrictS sc (f+1) s t v b = (s, x) →
        (restrictS sc (f+1) s t v b).1.nodes = (restrictS sc' (f+1) s' t v b).1.nodes ∧
        (restrictS sc (f+1) s t v b).2 = (restrictS sc' (f+1) s' t v b).2 := by
      intro x hx
      rw [hx] at l0 ev0
      have ⟨a, c⟩ := restrictS_present sc' hsc' (f+1) s' t v b x w' ht' hf (by rw [← hnn]; exact l0)
        (by intro σ; rw [eval_congr hnn.symm, eval_congr hnn.symm]; exact ev0 σ)
      rw [hx]; exact ⟨by rw [a]; exact hnn, c.symm⟩
    have early' : ∀ x, restrictS sc' (f+1) s' t v b = (s', x) →
        (restrictS sc (f+1) s t v b).1.nodes = (restrictS sc' (f+1) s' t v b).1.nodes ∧
        (restrictS sc (f+1) s t v b).2 = (restrictS sc' (f+1) s' t v b).2 := by
      intro x hx
      rw [hx] at l0' ev0'
      have ⟨a, c⟩ := restrictS_present sc hsc (f+1) s t v b x w ht hf (by rw [hnn]; exact l0')
        (by intro σ; rw [eval_congr hnn, eval_congr hnn]; exact ev0' σ)
      rw [hx]; exact ⟨by rw [a]; exact hnn, c⟩
    rcases restrictS_step sc f s t v b n hn with ⟨x, hx, _⟩ | ⟨hlt, hvb, hx⟩ | ⟨heq, hvb, hx⟩
    · exact early x hx
    · rcases restrictS_step sc' f s' t v b n hn' with ⟨x', hx', _⟩ | ⟨_, _, hx'⟩ | ⟨heq', _, _⟩
      · exact early' x' hx'
      · have ht2 : 2 ≤ t := inner_of_not_const w hn (by omega)
        have ⟨_, hlo, hhi, _, _, _⟩ := w.inner t n ht2 hn
        rw [hx, hx']
        simp only
        have ⟨a1, b1⟩ := ih s s' n.lo v b w w' hnn (by omega) (by omega)
        have ⟨w1, e1, _, _, _⟩ := restrictS_spec sc hsc f s n.lo v b w (by omega) (by omega)
        have ⟨w1', _, _, _, _⟩ := restrictS_spec sc' hsc' f s' n.lo v b w' (by omega) (by omega)
        generalize restrictS sc f s n.lo v b = R1 at *
        generalize restrictS sc' f s' n.lo v b = R1' at *
        have hhi1 : n.hi < R1.1.nodes.size := by have := e1.1; omega
        have ⟨a2, b2⟩ := ih R1.1 R1'.1 n.hi v b w1 w1' a1 hhi1 (by omega)
        have ⟨w2, _, _, _, _⟩ := restrictS_spec sc hsc f R1.1 n.hi v b w1 hhi1 (by omega)
        have ⟨w2', _, _, _, _⟩ := restrictS_spec sc' hsc' f R1'.1 n.hi v b w1' (by rw [← a1]; exact hhi1) (by omega)
        generalize restrictS sc f R1.1 n.hi v b = R2 at *
        generalize restrictS sc' f R1'.1 n.hi v b = R2' at *
        rw [b1, b2]
        exact mkNode_congr w2 w2' a2 _ _ _
      · omega
    · rcases restrictS_step sc' f s' t v b n hn' with ⟨x', hx', _⟩ | ⟨hlt', _, _⟩ | ⟨_, _, hx'⟩
      · exact early' x' hx'
      · omega
      · have ht2 : 2 ≤ t := inner_of_not_const w hn (by omega)
        have ⟨_, hlo, hhi, _, _, _⟩ := w.inner t n ht2 hn
        rw [hx, hx']
        simp only
        have hc : (if b = true then n.hi else n.lo) < t := by split <;> assumption
        exact ih s s' _ v b w w' hnn (by omega) (by omega)

/-- a memoised restrict never touches the ite memo -/
theorem restrictS_iteC (sc : Store → Nat → Nat → Bool) : ∀ (fuel : Nat) (s : Store) (t v : Nat) (b : Bool),
    (restrictS sc fuel s t v b).1.iteC = s.iteC := by
  intro fuel
  induction fuel with
  | zero => intros; rfl
  | succ f ih =>
    intro s t v b
    have mk : ∀ (s : Store) (v lo hi : Nat), (mkNode s v lo hi).1.iteC = s.iteC := by
      intro s v lo hi; unfold mkNode; split
      · rfl
      · split <;> rfl
    cases hn : s.nodes[t]? with
    | none =>
      rw [restrictS]
      cases s.resC[(t, v, b)]? <;> simp [hn]
    | some n =>
      rcases restrictS_step sc f s t v b n hn with ⟨x, hx, _⟩ | ⟨_, _, hx⟩ | ⟨_, _, hx⟩
      · rw [hx]
      · rw [hx]; simp only [mk, ih]
      · rw [hx]; simp only [ih]

#print axioms restrictS_spec
#print axioms restrictS_present
#print axioms restrictS_indep
