import AdfObdd.StoreOps
/-! prototype 8: memoised if-then-else on the efficient store -/

theorem eval_congr {s s' : Store} (h : s'.nodes = s.nodes) (t : Nat) (σ : Asg) : eval s' t σ = eval s t σ := by
  simp [eval, h]
theorem topVar_congr {s s' : Store} (h : s'.nodes = s.nodes) (t : Nat) : topVar s' t = topVar s t := by
  simp [topVar, h]

/-- R1: restricting by a variable strictly above the diagram returns the diagram itself -/
theorem restrictF_above (s : Store) (w : WF s) (fuel t v : Nat) (b : Bool) (ht : t < s.nodes.size)
    (hf : t < fuel) (hv : v < topVar s t) :
    (restrictF fuel s t v b).1.nodes = s.nodes ∧ (restrictF fuel s t v b).2 = t := by
  cases fuel with
  | zero => omega
  | succ f =>
    unfold restrictF
    cases hm : s.resC[(t, v, b)]? with
    | some r =>
      simp only
      have ⟨_, a, _, c⟩ := w.resOK t v b r hm
      refine ⟨trivial, ?_⟩
      apply (canonical s w r t a ht).mp
      intro σ; rw [c σ, eval_upd_of_lt s w t ht v b hv]
    | none =>
      simp only
      obtain ⟨n, hn⟩ := get_of_lt ht
      simp only [hn]
      have : n.var > v ∨ n.var ≥ VBOT := by left; simpa [topVar, hn] using hv
      rw [if_pos this]; exact ⟨rfl, rfl⟩

/-- R2: restricting by the top variable returns the corresponding child -/
theorem restrictF_at (s : Store) (w : WF s) (fuel t : Nat) (n : Node) (b : Bool) (ht2 : 2 ≤ t)
    (hn : s.nodes[t]? = some n) (hf : t < fuel) :
    (restrictF fuel s t n.var b).1.nodes = s.nodes ∧
    (restrictF fuel s t n.var b).2 = (if b then n.hi else n.lo) := by
  have ht := lt_of_get hn
  have ⟨hvb, hlo, hhi, _, _, _⟩ := w.inner t n ht2 hn
  have hclo := topVar_child_lo w ht2 hn
  have hchi := topVar_child_hi w ht2 hn
  cases fuel with
  | zero => omega
  | succ f =>
    unfold restrictF
    cases hm : s.resC[(t, n.var, b)]? with
    | some r =>
      simp only
      have ⟨_, a, _, c⟩ := w.resOK t n.var b r hm
      refine ⟨trivial, ?_⟩
      cases b with
      | true =>
        simp only [if_true]
        apply (canonical s w r n.hi a (by omega)).mp
        intro σ; rw [c σ, eval_hi s w t n ht2 hn]
      | false =>
        simp only [Bool.false_eq_true, if_false]
        apply (canonical s w r n.lo a (by omega)).mp
        intro σ; rw [c σ, eval_lo s w t n ht2 hn]
    | none =>
      simp only [hn]
      have hc1 : ¬ (n.var > n.var ∨ n.var ≥ VBOT) := by omega
      have hc2 : ¬ n.var < n.var := by omega
      rw [if_neg hc1, if_neg hc2]
      cases b with
      | true =>
        simp only [if_true]
        have ⟨a, b'⟩ := restrictF_above s w f n.hi n.var true (by omega) (by omega) hchi
        exact ⟨a, b'⟩
      | false =>
        simp only [Bool.false_eq_true, if_false]
        have ⟨a, b'⟩ := restrictF_above s w f n.lo n.var false (by omega) (by omega) hclo
        exact ⟨a, b'⟩

/-- everything the ite proof needs to know about a cofactor taken at `mv ≤ topVar t` -/
theorem cof (s : Store) (w : WF s) (t mv : Nat) (b : Bool) (ht : t < s.nodes.size)
    (hv : mv ≤ topVar s t) (hvb : mv < VBOT) :
    WF (restrictF (t+1) s t mv b).1 ∧ (restrictF (t+1) s t mv b).1.nodes = s.nodes ∧
    (restrictF (t+1) s t mv b).2 ≤ t ∧
    (mv = topVar s t → (restrictF (t+1) s t mv b).2 < t) ∧ mv < topVar s (restrictF (t+1) s t mv b).2 ∧
    (∀ σ, eval s (restrictF (t+1) s t mv b).2 σ = eval s t (upd σ mv b)) := by
  have ⟨w1, _, _, _, ev⟩ := restrictF_spec (t+1) s t mv b w ht (by omega)
  rcases Nat.lt_or_ge mv (topVar s t) with h | h
  · have ⟨a, b'⟩ := restrictF_above s w (t+1) t mv b ht (by omega) h
    refine ⟨w1, a, by omega, by omega, by rw [b']; exact h, ?_⟩
    intro σ; rw [← eval_congr a, ev]
  · have heq : mv = topVar s t := by omega
    obtain ⟨n, hn⟩ := get_of_lt ht
    have htv : topVar s t = n.var := by simp [topVar, hn]
    have ht2 : 2 ≤ t := inner_of_not_const w hn (by omega)
    have ⟨_, hlo, hhi, _, _, _⟩ := w.inner t n ht2 hn
    have hclo := topVar_child_lo w ht2 hn
    have hchi := topVar_child_hi w ht2 hn
    have hmv : mv = n.var := by omega
    subst hmv
    have ⟨a, b'⟩ := restrictF_at s w (t+1) t n b ht2 hn (by omega)
    refine ⟨w1, a, ?_, ?_, ?_, ?_⟩
    · rw [b']; split <;> omega
    · intro _; rw [b']; split <;> omega
    · rw [b']; split <;> assumption
    · intro σ; rw [← eval_congr a, ev]


def iteF : Nat → Store → Nat → Nat → Nat → Store × Nat
  | 0, s, i, _, _ => (s, i)
  | fuel+1, s, i, t, e =>
    if i = 1 then (s, t) else if i = 0 then (s, e) else if t = e then (s, t)
    else if t = 1 ∧ e = 0 then (s, i) else
    match s.iteC[(i, t, e)]? with
    | some r => (s, r)
    | none =>
    let mv := minVar s i t e
    let r1 := restrictF (i+1) s i mv true
    let r2 := restrictF (t+1) r1.1 t mv true
    let r3 := restrictF (e+1) r2.1 e mv true
    let r4 := restrictF (i+1) r3.1 i mv false
    let r5 := restrictF (t+1) r4.1 t mv false
    let r6 := restrictF (e+1) r5.1 e mv false
    let top := iteF fuel r6.1 r1.2 r2.2 r3.2
    let bot := iteF fuel top.1 r4.2 r5.2 r6.2
    let m := mkNode bot.1 mv bot.2 top.2
    ({ m.1 with iteC := m.1.iteC.insert (i, t, e) m.2 }, m.2)

/-- insertion into the ite memo of a store that is taken apart first (in place when compiled) -/
def Store.insIte (s : Store) (k : Nat × Nat × Nat) (r : Nat) : Store :=
  match s with
  | ⟨nodes, uniq, resC, iteC⟩ => ⟨nodes, uniq, resC, iteC.insert k r⟩

theorem Store.insIte_eq (s : Store) (k : Nat × Nat × Nat) (r : Nat) :
    s.insIte k r = { s with iteC := s.iteC.insert k r } := rfl

/-- `iteF` with every intermediate pair taken apart at once (single reference to the store in the
compiled code; `@[csimp]`-substituted, theorems speak about `iteF`) -/
def iteL : Nat → Store → Nat → Nat → Nat → Store × Nat
  | 0, s, i, _, _ => (s, i)
  | fuel+1, s, i, t, e =>
    if i = 1 then (s, t) else if i = 0 then (s, e) else if t = e then (s, t)
    else if t = 1 ∧ e = 0 then (s, i) else
    match s.iteC[(i, t, e)]? with
    | some r => (s, r)
    | none =>
    let mv := minVar s i t e
    match restrictL (i+1) s i mv true with
    | (s1, a1) =>
    match restrictL (t+1) s1 t mv true with
    | (s2, a2) =>
    match restrictL (e+1) s2 e mv true with
    | (s3, a3) =>
    match restrictL (i+1) s3 i mv false with
    | (s4, a4) =>
    match restrictL (t+1) s4 t mv false with
    | (s5, a5) =>
    match restrictL (e+1) s5 e mv false with
    | (s6, a6) =>
    match iteL fuel s6 a1 a2 a3 with
    | (s7, top) =>
    match iteL fuel s7 a4 a5 a6 with
    | (s8, bot) =>
    match mkNodeL s8 mv bot top with
    | (s9, r) => (s9.insIte (i, t, e) r, r)

theorem iteF_eq_iteL : ∀ (fuel : Nat) (s : Store) (i t e : Nat), iteF fuel s i t e = iteL fuel s i t e := by
  intro fuel
  induction fuel with
  | zero => intros; rfl
  | succ f ih =>
    intro s i t e
    unfold iteF iteL
    split
    · rfl
    · split
      · rfl
      · split
        · rfl
        · split
          · rfl
          · split
            · rfl
            · simp only [ih, restrictF_eq_restrictL, mkNode_eq_mkNodeL, Store.insIte_eq]

@[csimp] theorem iteF_eq_iteL' : @iteF = @iteL := by
  funext fuel s i t e; exact iteF_eq_iteL fuel s i t e

theorem WF_insert_ite (s : Store) (w : WF s) (i t e r : Nat)
    (hi : i < s.nodes.size) (ht : t < s.nodes.size) (he : e < s.nodes.size) (hr : r < s.nodes.size)
    (hmv : minVar s i t e ≤ topVar s r)
    (hev : ∀ σ, eval s r σ = if eval s i σ then eval s t σ else eval s e σ) :
    WF { s with iteC := s.iteC.insert (i, t, e) r } ∧ Ext s { s with iteC := s.iteC.insert (i, t, e) r } := by
  refine ⟨⟨w.len, w.bot, w.top, w.inner, w.uniqOK, w.resOK, ?_⟩, Ext.refl _⟩
  intro i' t' e' r' h
  simp only [Std.HashMap.getElem?_insert] at h
  by_cases hk : ((i, t, e) == (i', t', e')) = true
  · rw [if_pos hk] at h
    have hk' : (i, t, e) = (i', t', e') := by simpa using hk
    cases hk'; cases h
    exact ⟨hi, ht, he, hr, hmv, hev⟩
  · rw [if_neg hk] at h
    exact w.iteOK i' t' e' r' h

theorem upd_self {σ : Asg} {v : Nat} {b : Bool} (h : σ v = b) : upd σ v b = σ := by
  funext x; simp only [upd]; split
  · rename_i hx; subst hx; exact h.symm
  · rfl

theorem minVar_le (s : Store) (i t e : Nat) :
    minVar s i t e ≤ topVar s i ∧ minVar s i t e ≤ topVar s t ∧ minVar s i t e ≤ topVar s e := by
  simp only [minVar]; omega
theorem minVar_eq (s : Store) (i t e : Nat) :
    minVar s i t e = topVar s i ∨ minVar s i t e = topVar s t ∨ minVar s i t e = topVar s e := by
  simp only [minVar]; omega

/-- a store with the same node table as a well-formed one -/
theorem Ext_of_nodes {s s' : Store} (h : s'.nodes = s.nodes) : Ext s s' :=
  ⟨by rw [h]; exact Nat.le_refl _, fun i n hn => by rw [h]; exact hn⟩

theorem iteF_spec : ∀ (fuel : Nat) (s : Store) (i t e : Nat), WF s →
    i < s.nodes.size → t < s.nodes.size → e < s.nodes.size → i + t + e < fuel →
    WF (iteF fuel s i t e).1 ∧ Ext s (iteF fuel s i t e).1 ∧
    (iteF fuel s i t e).2 < (iteF fuel s i t e).1.nodes.size ∧
    minVar s i t e ≤ topVar (iteF fuel s i t e).1 (iteF fuel s i t e).2 ∧
    (∀ σ, eval (iteF fuel s i t e).1 (iteF fuel s i t e).2 σ =
      if eval s i σ then eval s t σ else eval s e σ) := by
  intro fuel
  induction fuel with
  | zero => intro s i t e _ _ _ _ h; omega
  | succ f ih =>
    intro s i t e w hi ht he hf
    have ⟨mi, mt, me⟩ := minVar_le s i t e
    unfold iteF
    by_cases c1 : i = 1
    · rw [if_pos c1]; subst c1
      exact ⟨w, Ext.refl _, ht, mt, fun σ => by simp [eval_one]⟩
    rw [if_neg c1]
    by_cases c0 : i = 0
    · rw [if_pos c0]; subst c0
      exact ⟨w, Ext.refl _, he, me, fun σ => by simp [eval_zero]⟩
    rw [if_neg c0]
    by_cases c2 : t = e
    · rw [if_pos c2]; subst c2
      exact ⟨w, Ext.refl _, ht, mt, fun σ => by split <;> rfl⟩
    rw [if_neg c2]
    by_cases c3 : t = 1 ∧ e = 0
    · rw [if_pos c3]; obtain ⟨rfl, rfl⟩ := c3
      refine ⟨w, Ext.refl _, hi, mi, fun σ => ?_⟩
      simp only [eval_one, eval_zero]; cases eval s i σ <;> rfl
    rw [if_neg c3]
    have hi2 : 2 ≤ i := by omega
    obtain ⟨ni, hni⟩ := get_of_lt hi
    have hvb : minVar s i t e < VBOT := by
      have := (w.inner i ni hi2 hni).1
      have : topVar s i = ni.var := by simp [topVar, hni]
      omega
    cases hm : s.iteC[(i, t, e)]? with
    | some r =>
      simp only
      have ⟨_, _, _, a, g, b⟩ := w.iteOK i t e r hm
      exact ⟨w, Ext.refl _, a, g, b⟩
    | none =>
    simp only
    generalize hmv : minVar s i t e = mv at *
    -- six cofactors; the node table never changes
    have ⟨w1, n1, b1, c1', d1, e1⟩ := cof s w i mv true hi mi hvb
    generalize hs1 : restrictF (i+1) s i mv true = R1 at *
    have tv1 : ∀ x, topVar R1.1 x = topVar s x := topVar_congr n1
    have ⟨w2, n2, b2, c2', d2, e2⟩ := cof R1.1 w1 t mv true (by rw [n1]; exact ht) (by rw [tv1]; exact mt) hvb
    generalize hs2 : restrictF (t+1) R1.1 t mv true = R2 at *
    have n2' : R2.1.nodes = s.nodes := n2.trans n1
    have tv2 : ∀ x, topVar R2.1 x = topVar s x := topVar_congr n2'
    have ⟨w3, n3, b3, c3', d3, e3⟩ := cof R2.1 w2 e mv true (by rw [n2']; exact he) (by rw [tv2]; exact me) hvb
    generalize hs3 : restrictF (e+1) R2.1 e mv true = R3 at *
    have n3' : R3.1.nodes = s.nodes := n3.trans n2'
    have tv3 : ∀ x, topVar R3.1 x = topVar s x := topVar_congr n3'
    have ⟨w4, n4, b4, c4', d4, e4⟩ := cof R3.1 w3 i mv false (by rw [n3']; exact hi) (by rw [tv3]; exact mi) hvb
    generalize hs4 : restrictF (i+1) R3.1 i mv false = R4 at *
    have n4' : R4.1.nodes = s.nodes := n4.trans n3'
    have tv4 : ∀ x, topVar R4.1 x = topVar s x := topVar_congr n4'
    have ⟨w5, n5, b5, c5', d5, e5⟩ := cof R4.1 w4 t mv false (by rw [n4']; exact ht) (by rw [tv4]; exact mt) hvb
    generalize hs5 : restrictF (t+1) R4.1 t mv false = R5 at *
    have n5' : R5.1.nodes = s.nodes := n5.trans n4'
    have tv5 : ∀ x, topVar R5.1 x = topVar s x := topVar_congr n5'
    have ⟨w6, n6, b6, c6', d6, e6⟩ := cof R5.1 w5 e mv false (by rw [n5']; exact he) (by rw [tv5]; exact me) hvb
    generalize hs6 : restrictF (e+1) R5.1 e mv false = R6 at *
    have n6' : R6.1.nodes = s.nodes := n6.trans n5'
    have tv6 : ∀ x, topVar R6.1 x = topVar s x := topVar_congr n6'
    have ev6 : ∀ x σ, eval R6.1 x σ = eval s x σ := fun x σ => eval_congr n6' x σ
    -- transport every fact to `s`
    rw [tv1] at c2' d2; rw [tv2] at c3' d3; rw [tv3] at c4' d4; rw [tv4] at c5' d5; rw [tv5] at c6' d6
    have e2' : ∀ σ, eval s R2.2 σ = eval s t (upd σ mv true) := fun σ => by
      rw [← eval_congr n1, e2, eval_congr n1]
    have e3' : ∀ σ, eval s R3.2 σ = eval s e (upd σ mv true) := fun σ => by
      rw [← eval_congr n2', e3, eval_congr n2']
    have e4' : ∀ σ, eval s R4.2 σ = eval s i (upd σ mv false) := fun σ => by
      rw [← eval_congr n3', e4, eval_congr n3']
    have e5' : ∀ σ, eval s R5.2 σ = eval s t (upd σ mv false) := fun σ => by
      rw [← eval_congr n4', e5, eval_congr n4']
    have e6' : ∀ σ, eval s R6.2 σ = eval s e (upd σ mv false) := fun σ => by
      rw [← eval_congr n5', e6, eval_congr n5']
    have sz6 : R6.1.nodes.size = s.nodes.size := by rw [n6']
    have dec1 : R1.2 + R2.2 + R3.2 < f := by
      rcases minVar_eq s i t e with h | h | h <;> rw [hmv] at h
      · have := c1' h; omega
      · have := c2' h; omega
      · have := c3' h; omega
    have dec2 : R4.2 + R5.2 + R6.2 < f := by
      rcases minVar_eq s i t e with h | h | h <;> rw [hmv] at h
      · have := c4' h; omega
      · have := c5' h; omega
      · have := c6' h; omega
    have ⟨wT, eT, lT, vT, evT⟩ := ih R6.1 R1.2 R2.2 R3.2 w6 (by omega) (by omega) (by omega) dec1
    generalize hT : iteF f R6.1 R1.2 R2.2 R3.2 = T at *
    have eTl := eT.1
    have ⟨wB, eB, lB, vB, evB⟩ := ih T.1 R4.2 R5.2 R6.2 wT (by omega) (by omega) (by omega) dec2
    generalize hB : iteF f T.1 R4.2 R5.2 R6.2 = B at *
    have eBl := eB.1
    have hvT : mv < topVar B.1 T.2 := by
      rw [topVar_ext eB _ lT]
      have : mv < minVar R6.1 R1.2 R2.2 R3.2 := by simp only [minVar, tv6]; omega
      omega
    have hvB : mv < topVar B.1 B.2 := by
      have h4 : topVar T.1 R4.2 = topVar s R4.2 := by rw [topVar_ext eT _ (by omega), tv6]
      have h5 : topVar T.1 R5.2 = topVar s R5.2 := by rw [topVar_ext eT _ (by omega), tv6]
      have h6 : topVar T.1 R6.2 = topVar s R6.2 := by rw [topVar_ext eT _ (by omega), tv6]
      have : mv < minVar T.1 R4.2 R5.2 R6.2 := by simp only [minVar, h4, h5, h6]; omega
      omega
    have ⟨wM, eM, lM, vM, evM⟩ := mkNode_spec B.1 wB mv B.2 T.2 lB (by omega) hvb hvB hvT
    generalize hM : mkNode B.1 mv B.2 T.2 = M at *
    have e6s : Ext s R6.1 := Ext_of_nodes n6'
    have eAll : Ext s M.1 := ((e6s.trans eT).trans eB).trans eM
    have evR : ∀ σ, eval M.1 M.2 σ = if eval s i σ then eval s t σ else eval s e σ := by
      intro σ
      rw [evM]
      cases hσ : σ mv with
      | true =>
        simp only [if_true]
        rw [eval_ext wT eB _ σ lT, evT, ev6, ev6, ev6, e1, e2', e3', upd_self hσ]
      | false =>
        simp only [Bool.false_eq_true, if_false]
        rw [evB, eval_ext w6 eT _ σ (by omega), eval_ext w6 eT _ σ (by omega),
            eval_ext w6 eT _ σ (by omega), ev6, ev6, ev6, e4', e5', e6', upd_self hσ]
    have sM := eAll.1
    have ⟨w7, e7⟩ := WF_insert_ite M.1 wM i t e M.2 (by omega) (by omega) (by omega) lM
      (by simp only [minVar]; rw [topVar_ext eAll i hi, topVar_ext eAll t ht, topVar_ext eAll e he]
          have := hmv; simp only [minVar] at this; omega)
      (by intro σ; rw [evR σ, eval_ext w eAll i σ hi, eval_ext w eAll t σ ht, eval_ext w eAll e σ he])
    exact ⟨w7, eAll.trans e7, lM, vM, evR⟩

#print axioms iteF_spec
