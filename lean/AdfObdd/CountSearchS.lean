import AdfObdd.CountSearch
/-! prototype 37: the counting-guided search as the code runs it — over an arbitrary concrete
    state `C` (vector with residual handles, `will_be`) observed through `abs`, and *threading a
    store* `S` through sibling branches under an invariant that is monotone along the store order.
    Same conclusion as `search_spec`. -/
namespace GS

structure CParams (S C : Type) where
  n : Nat
  abs : C → PA
  Inv : S → C → Prop
  Le : S → S → Prop
  pick : S → C → Option Nat
  goal : S → C → Nat → Bool
  cubes : S → C → Nat → Bool → List Cube
  cubeStep : S → C → Nat → Bool → Cube → S × Option C
  flipStep : S → C → Nat → Bool → S × Option C
  leaf : S → C → PA

variable {S C : Type}

def cubeLoop (P : CParams S C) (rec : S → C → S × List PA) (c : C) (idx : Nat) (g : Bool) :
    List Cube → S → S × List PA
  | [], s => (s, [])
  | cu :: cus, s =>
    let r := P.cubeStep s c idx g cu
    let here := match r.2 with
      | some c' => rec r.1 c'
      | none => (r.1, [])
    let rest := cubeLoop P rec c idx g cus here.1
    (rest.1, here.2 ++ rest.2)

def search (P : CParams S C) : Nat → S → C → S × List PA
  | 0, s, _ => (s, [])
  | fuel+1, s, c =>
    match P.pick s c with
    | none => (s, [P.leaf s c])
    | some idx =>
      let g := P.goal s c idx
      let r1 := cubeLoop P (fun s' c' => search P fuel s' c') c idx g (P.cubes s c idx g) s
      let f := P.flipStep r1.1 c idx g
      match f.2 with
      | some c' => let r2 := search P fuel f.1 c'; (r2.1, r1.2 ++ r2.2)
      | none => (f.1, r1.2)

structure CSound (T : Asg → Prop) (P : CParams S C) : Prop where
  le_refl : ∀ s, P.Le s s
  le_trans : ∀ s s' s'', P.Le s s' → P.Le s' s'' → P.Le s s''
  inv_mono : ∀ s s' c, P.Inv s c → P.Le s s' → P.Inv s' c
  bound : ∀ s c, P.Inv s c → P.pick s c ≠ none → decided (P.abs c) < P.n
  leaf_law : ∀ s c, P.Inv s c → P.pick s c = none → ∀ σ, Matches (P.leaf s c) σ ↔ Matches (P.abs c) σ
  cube_cover : ∀ s c idx, P.Inv s c → P.pick s c = some idx → ∀ σ, T σ → Matches (P.abs c) σ →
      σ idx = P.goal s c idx → ∃ cu ∈ P.cubes s c idx (P.goal s c idx), InCube cu σ
  cube_disj : ∀ s c idx, P.Inv s c → P.pick s c = some idx →
      (P.cubes s c idx (P.goal s c idx)).Pairwise (fun cu cu' => ∀ σ, ¬ (InCube cu σ ∧ InCube cu' σ))
  /-- a cube step taken later, in any extension `s` of the store `s0` in which the branching
  decision was made -/
  cube_step : ∀ s0 s c idx cu, P.Inv s0 c → P.pick s0 c = some idx → P.Le s0 s →
      P.Le s (P.cubeStep s c idx (P.goal s0 c idx) cu).1 ∧
      (∀ c', (P.cubeStep s c idx (P.goal s0 c idx) cu).2 = some c' →
        P.Inv (P.cubeStep s c idx (P.goal s0 c idx) cu).1 c' ∧ decided (P.abs c) < decided (P.abs c') ∧
        (∀ σ, Matches (P.abs c') σ → Matches (P.abs c) σ ∧ InCube cu σ ∧ σ idx = P.goal s0 c idx) ∧
        (∀ σ, T σ → Matches (P.abs c) σ → InCube cu σ → σ idx = P.goal s0 c idx → Matches (P.abs c') σ)) ∧
      ((P.cubeStep s c idx (P.goal s0 c idx) cu).2 = none →
        ∀ σ, T σ → Matches (P.abs c) σ → InCube cu σ → σ idx = P.goal s0 c idx → False)
  flip_step : ∀ s0 s c idx, P.Inv s0 c → P.pick s0 c = some idx → P.Le s0 s →
      P.Le s (P.flipStep s c idx (P.goal s0 c idx)).1 ∧
      (∀ c', (P.flipStep s c idx (P.goal s0 c idx)).2 = some c' →
        P.Inv (P.flipStep s c idx (P.goal s0 c idx)).1 c' ∧ decided (P.abs c) < decided (P.abs c') ∧
        (∀ σ, Matches (P.abs c') σ → Matches (P.abs c) σ ∧ σ idx = !P.goal s0 c idx) ∧
        (∀ σ, T σ → Matches (P.abs c) σ → σ idx = (!P.goal s0 c idx) → Matches (P.abs c') σ)) ∧
      ((P.flipStep s c idx (P.goal s0 c idx)).2 = none →
        ∀ σ, T σ → Matches (P.abs c) σ → σ idx = (!P.goal s0 c idx) → False)

variable {T : Asg → Prop} {P : CParams S C}

/-- what a (sub)search delivers -/
structure Spec (T : Asg → Prop) (P : CParams S C) (s : S) (c : C) (r : S × List PA) : Prop where
  le : P.Le s r.1
  cover : ∀ σ, T σ → Matches (P.abs c) σ → ∃ o ∈ r.2, Matches o σ
  sound : ∀ o ∈ r.2, ∀ σ, Matches o σ → Matches (P.abs c) σ
  disj : r.2.Pairwise Disj

theorem cubeLoop_spec (hP : CSound T P) (rec : S → C → S × List PA) (s0 : S) (c : C) (idx : Nat)
    (hinv : P.Inv s0 c) (hp : P.pick s0 c = some idx)
    (hrec : ∀ s' c', P.Inv s' c' → decided (P.abs c) < decided (P.abs c') → Spec T P s' c' (rec s' c')) :
    ∀ (l : List Cube) (s : S), P.Le s0 s →
      l.Pairwise (fun cu cu' => ∀ σ, ¬ (InCube cu σ ∧ InCube cu' σ)) →
      let r := cubeLoop P rec c idx (P.goal s0 c idx) l s
      P.Le s r.1 ∧
      (∀ o ∈ r.2, ∃ cu ∈ l, ∀ σ, Matches o σ → Matches (P.abs c) σ ∧ InCube cu σ ∧ σ idx = P.goal s0 c idx) ∧
      r.2.Pairwise Disj ∧
      (∀ cu ∈ l, ∀ σ, T σ → Matches (P.abs c) σ → InCube cu σ → σ idx = P.goal s0 c idx → ∃ o ∈ r.2, Matches o σ) := by
  intro l
  induction l with
  | nil =>
    intro s _ _
    simp only [cubeLoop]
    exact ⟨hP.le_refl s, (fun o ho => by cases ho), List.Pairwise.nil, fun cu hcu => by cases hcu⟩
  | cons cu cus ih =>
    intro s hle hpw
    have ⟨hcu, hcus⟩ := List.pairwise_cons.mp hpw
    have ⟨st1, st2, st3⟩ := hP.cube_step s0 s c idx cu hinv hp hle
    simp only [cubeLoop]
    -- the branch for this cube
    have hereF : ∃ here : S × List PA,
        here = (match (P.cubeStep s c idx (P.goal s0 c idx) cu).2 with
                | some c' => rec (P.cubeStep s c idx (P.goal s0 c idx) cu).1 c'
                | none => ((P.cubeStep s c idx (P.goal s0 c idx) cu).1, [])) ∧
        P.Le s here.1 ∧
        (∀ o ∈ here.2, ∀ σ, Matches o σ → Matches (P.abs c) σ ∧ InCube cu σ ∧ σ idx = P.goal s0 c idx) ∧
        here.2.Pairwise Disj ∧
        (∀ σ, T σ → Matches (P.abs c) σ → InCube cu σ → σ idx = P.goal s0 c idx → ∃ o ∈ here.2, Matches o σ) := by
      cases hc : (P.cubeStep s c idx (P.goal s0 c idx) cu).2 with
      | none =>
        refine ⟨_, rfl, st1, (fun o ho => by cases ho), List.Pairwise.nil, ?_⟩
        intro σ t m ic hv; exact (st3 hc σ t m ic hv).elim
      | some c' =>
        have ⟨i1, i2, i3, i4⟩ := st2 c' hc
        have sp := hrec _ c' i1 i2
        refine ⟨_, rfl, hP.le_trans _ _ _ st1 sp.le, ?_, sp.disj, ?_⟩
        · intro o ho σ m; exact i3 σ (sp.sound o ho σ m)
        · intro σ t m ic hv; exact sp.cover σ t (i4 σ t m ic hv)
    obtain ⟨here, hdef, h1, h2, h3, h4⟩ := hereF
    rw [← hdef]
    have ⟨r1, r2, r3, r4⟩ := ih here.1 (hP.le_trans _ _ _ hle h1) hcus
    refine ⟨hP.le_trans _ _ _ h1 r1, ?_, ?_, ?_⟩
    · intro o ho
      rcases List.mem_append.mp ho with h | h
      · exact ⟨cu, List.mem_cons_self .., h2 o h⟩
      · obtain ⟨cu', hcu', hh⟩ := r2 o h
        exact ⟨cu', List.mem_cons_of_mem _ hcu', hh⟩
    · rw [List.pairwise_append]
      refine ⟨h3, r3, ?_⟩
      intro o ho o' ho' σ ⟨m, m'⟩
      obtain ⟨cu', hcu', hh⟩ := r2 o' ho'
      exact hcu cu' hcu' σ ⟨(h2 o ho σ m).2.1, (hh σ m').2.1⟩
    · intro cu' hcu' σ t m ic hv
      rcases List.mem_cons.mp hcu' with rfl | hmem
      · obtain ⟨o, ho, mo⟩ := h4 σ t m ic hv
        exact ⟨o, List.mem_append_left _ ho, mo⟩
      · obtain ⟨o, ho, mo⟩ := r4 cu' hmem σ t m ic hv
        exact ⟨o, List.mem_append_right _ ho, mo⟩

/-- C04 core on the store-threading machine: complete, sound, duplicate-free, store only extended -/
theorem search_spec (hP : CSound T P) : ∀ (fuel : Nat) (s : S) (c : C), P.Inv s c →
    P.n - decided (P.abs c) < fuel → Spec T P s c (search P fuel s c) := by
  intro fuel
  induction fuel with
  | zero => intro s c _ h; omega
  | succ f ih =>
    intro s c hinv hf
    unfold search
    cases hp : P.pick s c with
    | none =>
      simp only
      refine ⟨hP.le_refl s, ?_, ?_, by simp⟩
      · intro σ _ m; exact ⟨_, List.mem_singleton.mpr rfl, (hP.leaf_law s c hinv hp σ).mpr m⟩
      · intro o ho σ m; rw [List.mem_singleton.mp ho] at m; exact (hP.leaf_law s c hinv hp σ).mp m
    | some idx =>
      simp only
      have hb := hP.bound s c hinv (by rw [hp]; simp)
      have hrec : ∀ s' c', P.Inv s' c' → decided (P.abs c) < decided (P.abs c') →
          Spec T P s' c' (search P f s' c') := fun s' c' hi hd => ih s' c' hi (by omega)
      have ⟨l1, l2, l3, l4⟩ := cubeLoop_spec hP (fun s' c' => search P f s' c') s c idx hinv hp hrec
        (P.cubes s c idx (P.goal s c idx)) s (hP.le_refl s) (hP.cube_disj s c idx hinv hp)
      have ⟨f1, f2, f3⟩ := hP.flip_step s _ c idx hinv hp l1
      -- facts about the flip branch, whatever it is
      cases hc : (P.flipStep (cubeLoop P (fun s' c' => search P f s' c') c idx (P.goal s c idx)
          (P.cubes s c idx (P.goal s c idx)) s).1 c idx (P.goal s c idx)).2 with
      | none =>
        simp only
        refine ⟨hP.le_trans _ _ _ l1 f1, ?_, ?_, l3⟩
        · intro σ t m
          by_cases hv : σ idx = P.goal s c idx
          · obtain ⟨cu, hcu, ic⟩ := hP.cube_cover s c idx hinv hp σ t m hv
            exact l4 cu hcu σ t m ic hv
          · have hv' : σ idx = !P.goal s c idx := by
              cases h1 : σ idx <;> cases h2 : P.goal s c idx <;> simp_all
            exact (f3 hc σ t m hv').elim
        · intro o ho σ m
          obtain ⟨cu, _, hh⟩ := l2 o ho
          exact (hh σ m).1
      | some c' =>
        simp only
        have ⟨i1, i2, i3, i4⟩ := f2 c' hc
        have sp := hrec _ c' i1 i2
        refine ⟨hP.le_trans _ _ _ l1 (hP.le_trans _ _ _ f1 sp.le), ?_, ?_, ?_⟩
        · intro σ t m
          by_cases hv : σ idx = P.goal s c idx
          · obtain ⟨cu, hcu, ic⟩ := hP.cube_cover s c idx hinv hp σ t m hv
            obtain ⟨o, ho, mo⟩ := l4 cu hcu σ t m ic hv
            exact ⟨o, List.mem_append_left _ ho, mo⟩
          · have hv' : σ idx = !P.goal s c idx := by
              cases h1 : σ idx <;> cases h2 : P.goal s c idx <;> simp_all
            obtain ⟨o, ho, mo⟩ := sp.cover σ t (i4 σ t m hv')
            exact ⟨o, List.mem_append_right _ ho, mo⟩
        · intro o ho σ m
          rcases List.mem_append.mp ho with h | h
          · obtain ⟨cu, _, hh⟩ := l2 o h
            exact (hh σ m).1
          · exact (i3 σ (sp.sound o h σ m)).1
        · rw [List.pairwise_append]
          refine ⟨l3, sp.disj, ?_⟩
          intro o ho o' ho' σ ⟨m, m'⟩
          obtain ⟨cu, _, hh⟩ := l2 o ho
          have h1 := (hh σ m).2.2
          have h2 := (i3 σ (sp.sound o' ho' σ m')).2
          rw [h1] at h2
          cases hg : P.goal s c idx <;> simp [hg] at h2
end GS
#print axioms GS.search_spec
