import AdfObdd.CompleteExact
import AdfObdd.CliModel
import AdfObdd.PreGround2
/-! `Adf::stable` and `Adf::stable_with_prefilter` end to end: restricting every condition by the
    candidate's false statements computes the reduct, grounding it computes its least fixpoint,
    the position-wise comparison is the stability test; folded over the two-valued iterator
    (C20: every completion of the grounded vector exactly once) the answers are exactly the
    stable models, each once. The pre-filter never rejects a stable model. -/
open IterFull CompleteExact

namespace StableExact

/-! ### generic: a store-threading loop that is a filter -/

theorem fold_filter {S C : Type} (Inv : S → Prop) (p : C → Bool) (step : S × List C → C → S × List C) :
    ∀ (vs : List C),
      (∀ acc c, c ∈ vs → Inv acc.1 →
        Inv (step acc c).1 ∧ (step acc c).2 = if p c then acc.2 ++ [c] else acc.2) →
      ∀ acc, Inv acc.1 → Inv (vs.foldl step acc).1 ∧ (vs.foldl step acc).2 = acc.2 ++ vs.filter p := by
  intro vs
  induction vs with
  | nil => intro _ acc hi; exact ⟨hi, by simp⟩
  | cons v vs ih =>
    intro hstep acc hi
    have ⟨i1, e1⟩ := hstep acc v (List.mem_cons_self ..) hi
    have ⟨i2, e2⟩ := ih (fun a c hc => hstep a c (List.mem_cons_of_mem _ hc)) (step acc v) i1
    rw [List.foldl_cons]
    refine ⟨i2, ?_⟩
    rw [e2, e1, List.filter_cons]
    cases p v <;> simp

/-! ### the reduct on the store -/

/-- the false statements of a handle vector -/
theorem falsePart_cons_zero (cs : List Nat) :
    falsePart ((0 :: cs).map storeIsConst) = some false :: falsePart (cs.map storeIsConst) := by
  simp [falsePart, storeIsConst]

theorem falsePart_cons_ne {c : Nat} (h : c ≠ 0) (cs : List Nat) :
    falsePart ((c :: cs).map storeIsConst) = none :: falsePart (cs.map storeIsConst) := by
  have : storeIsConst c ≠ some false := by
    intro h'; exact h (by simpa using (sic_some c false).mp h')
  simp [falsePart, this]

/-- `restrictFalse`: the cofactor by the candidate's false statements -/
theorem restrictFalse_spec : ∀ (cs : List Nat) (k : Nat) (s : Store) (t : Nat), WF s → t < s.nodes.size →
    WF (restrictFalse s t k cs).1 ∧ Ext s (restrictFalse s t k cs).1 ∧
    (restrictFalse s t k cs).2 < (restrictFalse s t k cs).1.nodes.size ∧
    eval (restrictFalse s t k cs).1 (restrictFalse s t k cs).2 =
      fun σ => eval s t (over σ k (falsePart (cs.map storeIsConst))) := by
  intro cs
  induction cs with
  | nil => intro k s t hw ht; exact ⟨hw, Ext.refl _, ht, rfl⟩
  | cons c cs ih =>
    intro k s t hw ht
    unfold restrictFalse
    by_cases hc : c = 0
    · subst hc
      simp only [BEq.rfl, if_true]
      have ⟨w1, l1, v1, _, d1⟩ := restrictF_spec (t+1) s t k false hw ht (Nat.lt_succ_self _)
      have ⟨w2, l2, v2, d2⟩ := ih (k+1) _ _ w1 v1
      refine ⟨w2, Ext.trans l1 l2, v2, ?_⟩
      rw [d2, falsePart_cons_zero]
      funext σ
      rw [d1]
      simp only [over]
      rw [over_upd _ σ k (k+1) false (by omega)]
    · have hb : (c == 0) = false := by simpa using hc
      simp only [hb, Bool.false_eq_true, if_false]
      have ⟨w2, l2, v2, d2⟩ := ih (k+1) s t hw ht
      refine ⟨w2, l2, v2, ?_⟩
      rw [d2, falsePart_cons_ne hc]
      funext σ
      simp only [over]

theorem mapFalse_length (cand : List Nat) : ∀ (acs : List Nat) (s : Store),
    (mapFalse s cand acs).2.length = acs.length := by
  intro acs
  induction acs with
  | nil => intro s; rfl
  | cons a acs ih => intro s; simp [mapFalse, ih]

/-- `mapFalse`: the reduct of the whole framework -/
theorem mapFalse_spec (cand : List Nat) : ∀ (acs : List Nat) (s : Store), WF s →
    (∀ t ∈ acs, t < s.nodes.size) →
    WF (mapFalse s cand acs).1 ∧ Ext s (mapFalse s cand acs).1 ∧
    (∀ t ∈ (mapFalse s cand acs).2, t < (mapFalse s cand acs).1.nodes.size) ∧
    (mapFalse s cand acs).2.map (eval (mapFalse s cand acs).1) =
      redu (acs.map (eval s)) (cand.map storeIsConst) := by
  intro acs
  induction acs with
  | nil => intro s hw _; exact ⟨hw, Ext.refl _, (fun _ h => by cases h), rfl⟩
  | cons a acs ih =>
    intro s hw hv
    have hav : a < s.nodes.size := hv a (List.mem_cons_self ..)
    have ⟨w1, l1, v1, d1⟩ := restrictFalse_spec cand 0 s a hw hav
    have hacs : ∀ t ∈ acs, t < (restrictFalse s a 0 cand).1.nodes.size :=
      fun t ht => Nat.lt_of_lt_of_le (hv t (List.mem_cons_of_mem _ ht)) l1.1
    have ⟨w2, l2, v2, d2⟩ := ih _ w1 hacs
    unfold mapFalse
    simp only
    refine ⟨w2, Ext.trans l1 l2, ?_, ?_⟩
    · intro t ht
      rcases List.mem_cons.mp ht with h | h
      · subst h; exact Nat.lt_of_lt_of_le v1 l2.1
      · exact v2 t h
    · simp only [List.map_cons, redu]
      congr 1
      · funext σ
        rw [eval_ext w1 l2 _ σ v1, d1]
      · rw [d2]
        have : acs.map (eval (restrictFalse s a 0 cand).1) = acs.map (eval s) := by
          apply List.map_congr_left
          intro t ht; funext σ
          exact eval_ext hw l1 t σ (hv t (List.mem_cons_of_mem _ ht))
        rw [this]; rfl

/-! ### the comparison -/

theorem zip_all_iff : ∀ (l1 l2 : List Nat), l1.length = l2.length →
    ((l1.zip l2).all (fun (a, b) => sameInfo a b) = true ↔ l1.map storeIsConst = l2.map storeIsConst) := by
  intro l1
  induction l1 with
  | nil => intro l2 h; cases l2 with | nil => simp | cons _ _ => simp at h
  | cons a l1 ih =>
    intro l2 h
    cases l2 with
    | nil => simp at h
    | cons b l2 =>
      have := ih l2 (by simpa using h)
      rw [List.zip_cons_cons, List.all_cons, Bool.and_eq_true, this, List.map_cons, List.map_cons,
        List.cons.injEq]
      simp [sameInfo]

theorem lfp_unique (D : List BoolFn) (g g' : I3) (h : IsLfp D g) (h' : IsLfp D g') : g = g' := by
  have l1 : g.length = D.length := by have := congrArg List.length h.1; rw [Gam_length] at this; omega
  have l2 : g'.length = D.length := by have := congrArg List.length h'.1; rw [Gam_length] at this; omega
  exact Le3_antisymm (by omega) (h.2 g' h'.1) (h'.2 g h.1)

/-- the definition: a two-valued model whose true statements are re-derived from the reduct -/
def StableI (D : List BoolFn) (v : I3) : Prop :=
  TotalI v ∧ Gam D v = v ∧
    ∀ w : I3, IsLfp (redu D v) w → ∀ i : Nat, v[i]? = some (some true) → w[i]? = some (some true)

theorem total_of_lt2 (c : List Nat) (h : ∀ i, i < c.length → c.getD i 0 < 2) :
    TotalI (c.map storeIsConst) := by
  intro i hi
  have hi' : i < c.length := by simpa using hi
  have h2 := h i hi'
  rw [List.getElem?_map, get?_of_lt c hi', Option.map_some]
  have : c.getD i 0 = 0 ∨ c.getD i 0 = 1 := by omega
  rcases this with e | e
  · exact ⟨false, by rw [e]; rfl⟩
  · exact ⟨true, by rw [e]; rfl⟩

/-- the stability test of the code, started in any well-formed store: well-formedness kept, store
only extended, verdict = the definition -/
theorem stable_test_spec (s : Store) (n : Nat) (ac cand : List Nat) (hw : WF s) (hn : ac.length = n)
    (hv : ∀ t ∈ ac, t < s.nodes.size) (hcl : cand.length = n)
    (hct : ∀ i, i < cand.length → cand.getD i 0 < 2) :
    let red := mapFalse s cand ac
    let grd := groundedLoop StoreRA (n + 1) red.1 red.2
    WF grd.1 ∧ Ext s grd.1 ∧
    ((cand.zip grd.2).all (fun (a, b) => sameInfo a b) = true ↔
      StableI (ac.map (eval s)) (cand.map storeIsConst)) := by
  intro red grd
  have ⟨w1, l1, v1, d1⟩ := mapFalse_spec cand ac s hw hv
  have hrl : red.2.length = n := by rw [← hn]; exact mapFalse_length cand ac s
  obtain ⟨gi, gle, _, _⟩ := groundedLoop_sem StoreRA (n+1) red.1 red.2 w1 v1
  have hL := grounded_native (n+1) red.1 red.2 w1 v1 (by omega)
  have hL' : IsLfp (redu (ac.map (eval s)) (cand.map storeIsConst)) (grd.2.map storeIsConst) := by
    have : red.2.map (eval red.1) = redu (ac.map (eval s)) (cand.map storeIsConst) := d1
    rw [← this]; exact hL
  have hgl : grd.2.length = n := by
    have := congrArg List.length hL.1
    simpa [Gam, hrl] using this.symm
  refine ⟨gi, Ext.trans l1 gle, ?_⟩
  rw [zip_all_iff cand grd.2 (by omega)]
  have ht := total_of_lt2 cand hct
  have hchk := stable_check_iff (ac.map (eval s)) (cand.map storeIsConst) (grd.2.map storeIsConst)
    (by simp [hcl, hn]) ht hL'
  constructor
  · intro he
    have ⟨hm, _⟩ := hchk.mp he.symm
    refine ⟨ht, hm, ?_⟩
    intro w hw' i hi
    rw [lfp_unique _ _ _ hw' hL', ← he]; exact hi
  · intro ⟨_, hm, htr⟩
    exact (hchk.mpr ⟨hm, htr _ hL'⟩).symm

/-! ### candidates -/

theorem completion_refinement {w v : List Nat} (h : isCompletion w v) : isRefinement w v := by
  refine ⟨h.1, ?_⟩
  intro i hi
  have := h.2 i hi
  split at this
  · rename_i hd; rw [if_pos hd]; exact this
  · rename_i hd; rw [if_neg hd]; exact Or.inr this

theorem completion_total {w v : List Nat} (h : isCompletion w v) : ∀ i, i < w.length → w.getD i 0 < 2 := by
  intro i hi
  have := h.2 i (by rw [← h.1]; exact hi)
  split at this <;> omega

/-- a total interpretation above the decided part of `g` is the decided part of a completion of `g` -/
theorem lift_completion (w : I3) (g : List Nat) (hl : w.length = g.length) (ht : TotalI w)
    (hle : Le3 (g.map storeIsConst) w) :
    isCompletion (lift w g) g ∧ (lift w g).map storeIsConst = w := by
  have ⟨hr, hm⟩ := lift_spec w g hl hle
  refine ⟨⟨hr.1, ?_⟩, hm⟩
  intro i hi
  have a := hr.2 i hi
  have hlt : (lift w g).getD i 0 < 2 := by
    obtain ⟨b, hb⟩ := ht i (by omega)
    have e := congrArg (fun l => l[i]?) hm
    simp only [List.getElem?_map, get?_of_lt (lift w g) (by rw [hr.1]; exact hi), Option.map_some, hb,
      Option.some.injEq] at e
    rw [(sic_some _ _).mp e]
    cases b <;> simp
  split at a
  · rename_i hd; rw [if_pos hd]; exact a
  · rename_i hd; rw [if_neg hd]; exact hlt

/-! ### `stableAll` and `stablePre` -/

/-- what both enumerations deliver, given that their loop is the filter by the definition -/
theorem answers_exact (s : Store) (n : Nat) (ac : List Nat) (hw : WF s) (hn : ac.length = n)
    (hv : ∀ t ∈ ac, t < s.nodes.size) (p : List Nat → Bool)
    (hp : ∀ c, p c = true ↔ StableI (ac.map (eval s)) (c.map storeIsConst)) :
    let g := groundedLoop StoreRA (n + 1) s ac
    let out := ((twoValAll g.2).filter p).map (fun v => v.map storeIsConst)
    out.Nodup ∧ ∀ v : I3, v ∈ out ↔ (v.length = n ∧ StableI (ac.map (eval s)) v) := by
  intro g out
  obtain ⟨gfix, gleast⟩ := grounded_native (n+1) s ac hw hv (by omega)
  have hglen : g.2.length = n := by
    have := congrArg List.length gfix
    simpa [Gam, hn] using this.symm
  have hex : ∀ v, v ∈ twoValAll g.2 ↔ isCompletion v g.2 := by
    intro v; rw [twoValAll_eq_enum2]; exact mem_enum2_iff_completion g.2 v
  have hnd2 : (twoValAll g.2).Nodup := by
    rw [twoValAll_eq_enum2]; exact enum2_nodup _ _ (und_nodup g.2) (und_lt_start g.2)
  constructor
  · apply nodup_map_on
    · exact List.Nodup.sublist List.filter_sublist hnd2
    · intro a ha b hb he
      exact refinement_inj g.2 a b (completion_refinement ((hex a).mp (List.mem_filter.mp ha).1))
        (completion_refinement ((hex b).mp (List.mem_filter.mp hb).1)) he
  · intro v
    show v ∈ List.map _ _ ↔ _
    rw [List.mem_map]
    constructor
    · rintro ⟨c, hc, rfl⟩
      have ⟨m, pc⟩ := List.mem_filter.mp hc
      exact ⟨by rw [List.length_map, ((hex c).mp m).1, hglen], (hp c).mp pc⟩
    · rintro ⟨hl, hst⟩
      have ⟨hc, hm⟩ := lift_completion v g.2 (by omega) hst.1 (gleast v hst.2.1)
      refine ⟨lift v g.2, List.mem_filter.mpr ⟨(hex _).mpr hc, ?_⟩, hm⟩
      rw [hp, hm]; exact hst

open Classical in
/-- the store-independent verdict -/
noncomputable def verdict (D : List BoolFn) (c : List Nat) : Bool := decide (StableI D (c.map storeIsConst))

theorem verdict_iff (D : List BoolFn) (c : List Nat) :
    verdict D c = true ↔ StableI D (c.map storeIsConst) := by
  simp [verdict]

/-- one iteration of the loop of `Adf::stable` -/
def sstep (n : Nat) (ac : List Nat) (acc : Store × List (List Nat)) (cand : List Nat) :
    Store × List (List Nat) :=
  let red := mapFalse acc.1 cand ac
  let grd := groundedLoop StoreRA (n + 1) red.1 red.2
  let ok := (cand.zip grd.2).all (fun (a, b) => sameInfo a b)
  (grd.1, if ok then acc.2 ++ [cand] else acc.2)

/-- one iteration of the loop of `Adf::stable_with_prefilter` -/
def pstep (n : Nat) (ac : List Nat) (acc : Store × List (List Nat)) (cand : List Nat) :
    Store × List (List Nat) :=
  let pre := completeCheck StoreRA acc.1 cand ac cand
  if pre.2 then
    let red := mapFalse pre.1 cand ac
    let grd := groundedLoop StoreRA (n + 1) red.1 red.2
    let ok := (cand.zip grd.2).all (fun (a, b) => sameInfo a b)
    (grd.1, if ok then acc.2 ++ [cand] else acc.2)
  else (pre.1, acc.2)

theorem map_eval_ext {s s' : Store} (hw : WF s) (l : Ext s s') (ac : List Nat)
    (hv : ∀ t ∈ ac, t < s.nodes.size) : ac.map (eval s') = ac.map (eval s) :=
  map_den_mono StoreRA hw l hv

theorem sstep_spec (s0 : Store) (n : Nat) (ac : List Nat) (hw0 : WF s0) (hn : ac.length = n)
    (hv : ∀ t ∈ ac, t < s0.nodes.size) (acc : Store × List (List Nat)) (cand : List Nat)
    (hcl : cand.length = n) (hct : ∀ i, i < cand.length → cand.getD i 0 < 2)
    (hi : WF acc.1 ∧ Ext s0 acc.1) :
    (WF (sstep n ac acc cand).1 ∧ Ext s0 (sstep n ac acc cand).1) ∧
    (sstep n ac acc cand).2 = if verdict (ac.map (eval s0)) cand then acc.2 ++ [cand] else acc.2 := by
  have hv' : ∀ t ∈ ac, t < acc.1.nodes.size := fun t ht => Nat.lt_of_lt_of_le (hv t ht) hi.2.1
  have ⟨a, b, c⟩ := stable_test_spec acc.1 n ac cand hi.1 hn hv' hcl hct
  rw [map_eval_ext hw0 hi.2 ac hv, ← verdict_iff] at c
  refine ⟨⟨a, Ext.trans hi.2 b⟩, ?_⟩
  have e := Bool.eq_iff_iff.mpr c
  simp only [sstep, e]

theorem pstep_spec (s0 : Store) (n : Nat) (ac : List Nat) (hw0 : WF s0) (hn : ac.length = n)
    (hv : ∀ t ∈ ac, t < s0.nodes.size) (acc : Store × List (List Nat)) (cand : List Nat)
    (hcl : cand.length = n) (hct : ∀ i, i < cand.length → cand.getD i 0 < 2)
    (hcv : ∀ t ∈ cand, t < s0.nodes.size)
    (hi : WF acc.1 ∧ Ext s0 acc.1) :
    (WF (pstep n ac acc cand).1 ∧ Ext s0 (pstep n ac acc cand).1) ∧
    (pstep n ac acc cand).2 = if verdict (ac.map (eval s0)) cand then acc.2 ++ [cand] else acc.2 := by
  have ⟨p1, p2, p3⟩ := completeCheck_spec StoreRA cand ac cand acc.1 s0 hw0 hi.2 hi.1 hcv hv hcv
    (by omega)
  have hpre : (completeCheck StoreRA acc.1 cand ac cand).2 = true ↔
      Gam (ac.map (eval s0)) (cand.map storeIsConst) = cand.map storeIsConst := by
    rw [CompleteExact.check_indep StoreRA acc.1 s0 ac cand hw0 hi.2 hi.1 hcv hv (by omega)]
    exact complete_filter_iff StoreRA s0 ac cand hw0 hv hcv (by omega)
  unfold pstep
  simp only
  by_cases hc : (completeCheck StoreRA acc.1 cand ac cand).2 = true
  · rw [if_pos hc]
    have l0 : Ext s0 (completeCheck StoreRA acc.1 cand ac cand).1 := Ext.trans hi.2 p2
    exact sstep_spec s0 n ac hw0 hn hv ((completeCheck StoreRA acc.1 cand ac cand).1, acc.2) cand hcl hct
      ⟨p1, l0⟩
  · rw [if_neg hc]
    refine ⟨⟨p1, Ext.trans hi.2 p2⟩, ?_⟩
    have : verdict (ac.map (eval s0)) cand = false := by
      cases hvd : verdict (ac.map (eval s0)) cand with
      | false => rfl
      | true => exact absurd (hpre.mpr ((verdict_iff _ _).mp hvd).2.1) hc
    rw [this]; rfl

/-- candidates of the iterator are valid, total vectors of the right length -/
theorem cand_ok (s : Store) (n : Nat) (g : List Nat) (hs : 2 ≤ s.nodes.size) (hgl : g.length = n)
    (hg : ∀ t ∈ g, t < s.nodes.size) (c : List Nat) (hc : c ∈ twoValAll g) :
    c.length = n ∧ (∀ i, i < c.length → c.getD i 0 < 2) ∧ ∀ t ∈ c, t < s.nodes.size := by
  have h : isCompletion c g := by
    rw [twoValAll_eq_enum2] at hc; exact (mem_enum2_iff_completion g c).mp hc
  exact ⟨by rw [h.1, hgl], completion_total h, refinement_valid s hs g c hg (completion_refinement h)⟩

theorem stableAll_filter (s : Store) (n : Nat) (ac : List Nat) (hw : WF s) (hn : ac.length = n)
    (hv : ∀ t ∈ ac, t < s.nodes.size) :
    (WF (stableAll s n ac).1 ∧ Ext s (stableAll s n ac).1) ∧
    (stableAll s n ac).2 =
      (twoValAll (groundedLoop StoreRA (n + 1) s ac).2).filter (verdict (ac.map (eval s))) := by
  obtain ⟨gi, gle, gv, _⟩ := groundedLoop_sem StoreRA (n+1) s ac hw hv
  obtain ⟨gfix, _⟩ := grounded_native (n+1) s ac hw hv (by omega)
  have hglen : (groundedLoop StoreRA (n + 1) s ac).2.length = n := by
    have := congrArg List.length gfix
    simpa [Gam, hn] using this.symm
  have key := fold_filter (fun t => WF t ∧ Ext s t) (verdict (ac.map (eval s))) (sstep n ac)
    (twoValAll (groundedLoop StoreRA (n + 1) s ac).2)
    (fun acc c hc hi => by
      have ⟨a, b, _⟩ := cand_ok _ n _ gi.len hglen gv c hc
      exact sstep_spec s n ac hw hn hv acc c a b hi)
    ((groundedLoop StoreRA (n + 1) s ac).1, []) ⟨gi, gle⟩
  have e : stableAll s n ac = (twoValAll (groundedLoop StoreRA (n + 1) s ac).2).foldl (sstep n ac)
      ((groundedLoop StoreRA (n + 1) s ac).1, []) := rfl
  rw [e]
  exact ⟨key.1, by simpa using key.2⟩

theorem stablePre_filter (s : Store) (n : Nat) (ac : List Nat) (hw : WF s) (hn : ac.length = n)
    (hv : ∀ t ∈ ac, t < s.nodes.size) :
    (WF (Cli.stablePre s n ac).1 ∧ Ext s (Cli.stablePre s n ac).1) ∧
    (Cli.stablePre s n ac).2 =
      (twoValAll (groundedLoop StoreRA (n + 1) s ac).2).filter (verdict (ac.map (eval s))) := by
  obtain ⟨gi, gle, gv, _⟩ := groundedLoop_sem StoreRA (n+1) s ac hw hv
  obtain ⟨gfix, _⟩ := grounded_native (n+1) s ac hw hv (by omega)
  have hglen : (groundedLoop StoreRA (n + 1) s ac).2.length = n := by
    have := congrArg List.length gfix
    simpa [Gam, hn] using this.symm
  -- the loop runs on the store after grounding; verdicts are those of `s`
  have hac : ∀ t ∈ ac, t < (groundedLoop StoreRA (n + 1) s ac).1.nodes.size :=
    fun t ht => Nat.lt_of_lt_of_le (hv t ht) gle.1
  have hD := map_eval_ext hw gle ac hv
  have key := fold_filter (fun t => WF t ∧ Ext (groundedLoop StoreRA (n + 1) s ac).1 t)
    (verdict (ac.map (eval s))) (pstep n ac)
    (twoValAll (groundedLoop StoreRA (n + 1) s ac).2)
    (fun acc c hc hi => by
      have ⟨a, b, d⟩ := cand_ok _ n _ gi.len hglen gv c hc
      have := pstep_spec _ n ac gi hn hac acc c a b d hi
      rw [hD] at this; exact this)
    ((groundedLoop StoreRA (n + 1) s ac).1, []) ⟨gi, Ext.refl _⟩
  have e : Cli.stablePre s n ac = (twoValAll (groundedLoop StoreRA (n + 1) s ac).2).foldl (pstep n ac)
      ((groundedLoop StoreRA (n + 1) s ac).1, []) := rfl
  rw [e]
  exact ⟨⟨key.1.1, Ext.trans gle key.1.2⟩, by simpa using key.2⟩

end StableExact
