
namespace StutterM
/-! prototype 36: a stuttering simulation carries halting and the final abstract state from the
    abstract machine to the concrete one (the concrete nogood loop may spend one extra iteration
    in which only residual handles change) -/

inductive SRes (α : Type) where
  | cont (s : α) | done (s : α)

def srun {α : Type} (step : α → SRes α) : Nat → α → Option α
  | 0, _ => none
  | f+1, s => match step s with
    | SRes.done s' => some s'
    | SRes.cont s' => srun step f s'

structure StutterSim {C A : Type} (cstep : C → SRes C) (astep : A → SRes A) (abs : C → A)
    (settled : C → Prop) : Prop where
  /-- a continuing concrete iteration is an abstract iteration, or it reaches a state from which
  the abstract machine does exactly what it would have done before (and settles the concrete
  state) — the latter only from an unsettled state -/
  cont : ∀ c c', cstep c = SRes.cont c' →
    astep (abs c) = SRes.cont (abs c') ∨ (astep (abs c') = astep (abs c) ∧ ¬ settled c ∧ settled c')
  done : ∀ c c', cstep c = SRes.done c' → astep (abs c) = SRes.done (abs c')

theorem stutter_halts {C A : Type} {cstep : C → SRes C} {astep : A → SRes A} {abs : C → A}
    {settled : C → Prop} (h : StutterSim cstep astep abs settled) :
    ∀ (fuel : Nat) (c : C) (a' : A), srun astep fuel (abs c) = some a' →
      ∃ fuel' c', fuel' ≤ 2 * fuel ∧ srun cstep fuel' c = some c' ∧ abs c' = a' := by
  intro fuel
  induction fuel with
  | zero => intro c a' hr; simp [srun] at hr
  | succ f ih =>
    intro c a' hr
    -- one concrete iteration from a state whose next iteration is *not* a stutter
    have key : ∀ c0 : C, srun astep (f + 1) (abs c0) = some a' →
        (∀ c1, cstep c0 = SRes.cont c1 → astep (abs c0) = SRes.cont (abs c1)) →
        ∃ fuel' c', fuel' ≤ 2 * f + 1 ∧ srun cstep fuel' c0 = some c' ∧ abs c' = a' := by
      intro c0 hr0 hns
      unfold srun at hr0
      cases hc : cstep c0 with
      | done c1 =>
        have := h.done c0 c1 hc
        rw [this] at hr0; simp only [Option.some.injEq] at hr0
        exact ⟨1, c1, by omega, by simp [srun, hc], hr0⟩
      | cont c1 =>
        have := hns c1 hc
        rw [this] at hr0; simp only at hr0
        obtain ⟨f', c', hf, hrun, habs⟩ := ih c1 a' hr0
        exact ⟨f' + 1, c', by omega, by simp [srun, hc, hrun], habs⟩
    cases hc : cstep c with
    | done c1 =>
      obtain ⟨f', c', hf, hrun, habs⟩ := key c hr (fun c1' h1 => by rw [hc] at h1; cases h1)
      exact ⟨f', c', by omega, hrun, habs⟩
    | cont c1 =>
      rcases h.cont c c1 hc with hstep | ⟨hsame, _, hset⟩
      · obtain ⟨f', c', hf, hrun, habs⟩ := key c hr (fun c1' h1 => by
          rw [hc] at h1; simp only [SRes.cont.injEq] at h1; subst h1; exact hstep)
        exact ⟨f', c', by omega, hrun, habs⟩
      · -- a stutter: the next iteration starts settled, so it cannot stutter again
        have hr1 : srun astep (f + 1) (abs c1) = some a' := by
          unfold srun at hr ⊢; rw [hsame]; exact hr
        obtain ⟨f', c', hf, hrun, habs⟩ := key c1 hr1 (fun c2 h2 => by
          rcases h.cont c1 c2 h2 with h3 | ⟨_, hns, _⟩
          · exact h3
          · exact absurd hset hns)
        exact ⟨f' + 1, c', by omega, by simp [srun, hc, hrun], habs⟩
#print axioms stutter_halts

end StutterM
